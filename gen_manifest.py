#!/usr/bin/env python3
"""Regenerates /verif/MANIFEST.json from the table below (kept next to the checks so the
manifest is always valid and in step with what ./check can run)."""
import json, os, subprocess

ROOT = os.path.dirname(os.path.abspath(__file__))

E1 = "exploration"
MC = "model_checking"

# id: (engine, level, technique, level text, level note, design ref)
CHECKS = {
    "C01": ("mc-model", E1, "exhaustive product enumeration (E1) of the real helpers against big-integer reference arithmetic",
            "Every fixed-point helper (u64 and u128 instantiations, three scales) is executed on the full Cartesian product of boundary and dense operand alphabets and compared with exact big-integer results; exhaustive within the alphabets.",
            "operands outside the alphabets are not covered; non-integer exponents of checked_pow are documented as inconsistent and excluded", "§4 C01"),
    "C02": ("mc-model", E1, "exhaustive product enumeration (E1) against exact integer reference",
            "FeeParams::apply_fees/fee, order fees and liquidation fees executed on the full product of factor/discount/receiver/amount/balance-change alphabets (every factor 0..100% at UNIT=100 plus invalid ones; boundary alphabet at u128/10^20) and compared with the exact split; exhaustive within the alphabets.",
            "alphabets only; liquidation fee reached through PositionExt::position_fees on harness storage", "§4 C02"),
    "C03": ("mc-model", E1, "exhaustive product enumeration (E1): forward change and exact reverse on the real PoolDelta::price_impact",
            "Every (pool, two-sided delta, factor pair incl. positive>negative, exponent) tuple of the alphabets is priced forward and backward; sign-vs-classification and round-trip totals are decided literally; two by-design classes are listed as known findings, any other class fails.",
            "whole-unit exponents only; values inside the alphabets", "§4 C03"),
    "C04": ("mc-model", MC, "explicit-state BFS over the implementation (E2) with per-state swap probes",
            "All action histories to the stated depth over 8 configurations x 2 scales; on every expanded state every swap request of the probe alphabet is executed on the real Swap action and holdings deltas / untouched-on-failure are compared exactly.",
            "harness storage VMarket trusted; bounds: depth, alphabets, 3-4 position slots", "§4 C04"),
    "C05": ("mc-model", MC, "explicit-state BFS over the implementation (E2) with per-state swap probes",
            "Same exploration as C04; for every successful probe swap the output value at the max price is compared with input value at the min price plus the impact actually debited from the swap-impact pools.",
            "as C04", "§4 C05"),
    "C06": ("mc-model", MC, "explicit-state BFS over the implementation (E2) with per-state deposit/withdraw round-trip probes",
            "On every expanded state each probe deposit is followed by withdrawal of everything minted; literal gain, per-leg token value and first-deposit pricing are decided; gains covered by the positive impact debited from the impact pool are a listed known finding, any excess fails.",
            "as C04; price unchanged and no clock advance inside a round trip", "§4 C06"),
    "C07": ("mc-model", MC, "explicit-state BFS over the implementation (E2), invariant on every state",
            "Open interest (usd and tokens) and collateral sums are recomputed from the position slots after every action (including rolled-back failures) in every reachable state to the stated depth; tiny fixed-point scale makes tokens-round-to-zero reachable at depth 2.",
            "as C04", "§4 C07"),
    "C08": ("mc-model", MC, "explicit-state BFS over the implementation (E2) against a shadow token ledger",
            "A shadow ledger of tokens paid in/out is kept next to the real market; after every successful action the change of accounted holdings must equal the ledger change up to funding collected minus claimable funding paid, exactly; the literal non-negativity of that residual is decided too (by-design lazy settlement is a listed known finding, deficits beyond unsettled accrual fail).",
            "as C04", "§4 C08"),
    "C09": ("mc-model", MC, "explicit-state BFS over the implementation (E2) for the model part, explicit-state BFS (E3) over real store instructions for the liquidation / auto-deleveraging part (two checker binaries, one merged report)",
            "Model part: after every successful increase/decrease the remaining position is tested with an independent liquidation predicate at the execution prices and around the price where it flips; a liquidation may succeed only on a position that was liquidatable and must close it. Program part: update_adl_state, auto_deleverage (1/4, 1/2, all) and liquidate on real positions with a configured ADL limit and minimum factor, five price sets: an executed ADL order requires the pnl-to-pool factor to have exceeded the limit, strictly lowers it and does not go below the minimum; a liquidation succeeds only for a liquidatable position and leaves nothing of it.",
            "as C04; svm-lite runtime trusted for the program part", "§10 C09"),
    "C10": ("mc-model", MC, "explicit-state BFS over the implementation (E2) with per-state open/close probes",
            "On every expanded state fresh positions of all four side/collateral kinds are opened and fully closed at once; value received (outputs + claimables) is compared with collateral value + 2 base units.",
            "as C04", "§4 C10"),
    "C11": ("mc-model", E1, "exhaustive product enumeration (E1) over positions, pools and an ascending price list",
            "pnl_value evaluated for every (side, size, tokens, cap, pool, other OI) x 14 ascending index prices x partial sizes; monotonicity, cap and proportional share decided; pool-level cap artefact listed as known finding. Second section: real positions opened and decreased through IncreasePosition / DecreasePosition (configurations x position kinds x price pairs x clock offsets x decrease shapes incl. partial decreases promoted to a full close): the realised pnl is the share of the size actually closed.",
            "long-token price fixed while the index price moves", "§4 C11"),
    "C12": ("mc-model", MC, "E1 product over funding parameters/OI/duration plus E2 BFS invariants on funding indices",
            "Rate bounds and payer side on the full product of parameter sets, stored factors, OI pairs, durations; funding and claimable indices monotone and pending funding computable in every reachable state of the history explorer.",
            "as C04", "§4 C12"),
    "C13": ("mc-model", MC, "explicit-state BFS over the implementation (E2), invariant on every state",
            "Cumulative borrowing factors monotone, total borrowing equals the per-position sum within one unit per position, pending borrowing fees compute in every reachable state, for exponent and kink models.",
            "as C04", "§4 C13"),
    "C14": ("mc-model", MC, "E1 product on the pending-distribution function plus E2 BFS over distribute/advance histories",
            "Distribution amount compared with min(rate*dt, excess over floor) on the full product; all distribute/advance sequences to depth 6/8 from pools above/at/below the floor keep the pool non-increasing and above the floor.",
            "alphabets only", "§4 C14"),
    "C15": ("mc-store", MC, "explicit-state BFS (E2) over delta sequences on the real program Pool and the SDK Pool against a single-total reference",
            "Every sequence of signed deltas (boundary magnitudes up to the i128/u128 limits, both sides) to the stated depth from boundary start totals is applied to the program's Pool (pure and impure) and to the SDK Pool on the same bytes; long/short split, total movement, failure-leaves-unchanged and cancel remainder are compared with a single u128 total.",
            "alphabets only", "§5 C15"),
    "C16": ("mc-store", E1, "exhaustive enumeration (E1) of the finite key space: write each key, read every key and every name-mapped accessor",
            "Every discriminant of every configuration enum is written with sentinels through the string/enum setters of the program Market/Store; all other keys must be unchanged and the accessor named by the key (program MarketConfig model accessors and the SDK MarketModel on the same bytes) must return the sentinel.",
            "name-derived mapping table is the oracle; values are sentinels, not all u128", "§5 C16"),
    "C17": ("mc-store", E1, "exhaustive enumeration (E1) of all config keys/flags of a freshly initialised market (pure and impure) against name-derived DEFAULT_* constants",
            "Market::init is executed under a stubbed clock for pure and impure token pairs; every key, flag, pool kind, amount and clock is compared with the documented default.",
            "defaults table derived from constant names", "§5 C17"),
    "C18": ("mc-store", MC, "explicit-state BFS (E2) over role operations on the real Store against a set-of-grants reference",
            "All sequences of enable/disable/grant/revoke/cluster-restart/update-restart-slot over 3 addresses x 3 roles to the stated depth, from empty and capacity-edge start states; has_role/has_admin_role answers and bytes-unchanged-on-failure are compared with the reference in every state.",
            "bounds: depth, 3 users, 3 roles", "§5 C18"),
    "C26": ("mc-utils", E1, "exhaustive product enumeration (E1) of price/decimals/token-decimals/precision against exact big-integer truncation",
            "Decimal::try_from_price / to_unit_price / with_unit_price / maximum, find_divisor_decimals / convert_to_u128_storage and the feed/pyth wrappers are executed on the full product of boundary and dense alphabets (all decimal settings 0..22 and beyond, prices at every power of ten and around the u32 limit at every scale); Ok values must equal the exact truncated value, errors are legitimate only when the exact value is unrepresentable.",
            "alphabets only", "§5 C26"),
    "C27": ("mc-utils", E1, "exhaustive product enumeration (E1) of status x policy x flags x timestamps x diffs against the statement evaluated in i128",
            "PriceFeedPrice::is_market_open is executed for every defined status and policy byte (thorough: all 256 x 256), every price-flag combination and boundary alphabets of current/report timestamps (i64 limits), last-update differences (seconds/nanoseconds) and timeouts (u32 limits).",
            "alphabets only", "§5 C27"),
    "C28": ("mc-utils", E1, "exhaustive enumeration (E1) of structure-aware bounded byte strings and boundary field values against ABI slice semantics and exact scaling",
            "decode_full_report on crafted offset/length words (with and without non-zero high bytes) x tail lengths and all truncations; decode on all 65536 schema ids x boundary lengths x fills; decode + from_chainlink_report on boundary bid/price/ask triples for every supported schema; decode_compressed_full_report on every byte string of length <= 2, truncations and byte flips of valid payloads; no panic, accepted blob equals the ABI slice, conversion preserves order and one common power of ten.",
            "field-level ABI decoding belongs to the external schema crate (exercised for panics only)", "§5 C28"),
    "C34": ("mc-utils", MC, "explicit-state BFS (E2) over map operations on instantiations of the real fixed_map! macro against a BTreeMap",
            "Every sequence of insert / insert-new / remove / get_mut-write / clear over capacity+2 adversarially ordered keys, small capacities to a fixpoint from the empty map and capacities 32/64/96/512 from prefilled capacity-edge states; all observers compared after every step; failed operations leave the bytes unchanged; panics are violations.",
            "macro instantiated in the checker crate with the programs' capacities", "§5 C34"),
    "C35": ("mc-store", E1, "exhaustive enumeration (E1) of structured strings through the helpers and every accepting constructor",
            "All prefix+fill+suffix strings over {a, NUL, 2-byte, 4-byte characters} of byte length 0..capacity+2 and a NUL at every position, through fixed_str_to_bytes/bytes_to_fixed_str (32, 64) and Store::init, enable_role->grant/has_role/revoke/disable_role, Market::init, token config and the real timelock initialize_executor instruction; accepted => read back unchanged and usable.",
            "string alphabet of four characters", "§5 C35"),
    "C36": ("mc-store", MC, "explicit-state BFS (E3) over real timelock/store instructions in the in-process runtime against a reference protocol",
            "All interleavings to the stated depth of create (valid/invalid shapes), approve, batched approve (also authenticated for a second role whose executor owns no buffer), cancel, execute, increase_delay by entitled and non-entitled signers, role revocation/re-grant and clock advances around the delay, executed through gmsol_timelock::entry with CPI role checks into gmsol_store::entry; outcome of every instruction compared with the protocol; executed instruction compared bit for bit with the buffered one via a recording probe program.",
            "svm-lite runtime trusted; timelock config account fabricated", "§5 C36"),
    "C42": ("mc-sdk", E1, "exhaustive enumeration (E1) of all small weighted market graphs against brute-force path enumeration",
            "Every weighted graph of the listed shapes (2-4 markets over 3-5 tokens, each direction unswappable or one of five ln-rates) x step limits 1-3 x both search modes x all (source, target): recommended paths validated edge by edge, reported rate recomputed from the path, optimality (absent negative cycles) compared with brute force; a completeness guard forbids returning nothing when the globally cheapest path fits the limit.",
            "graphs built through the verif_from_edges hook; rate estimation from market state not covered", "§5 C42"),
    "C43": ("mc-sdk", E1, "exhaustive product enumeration (E1) of boundary integers x decimals and crafted Decimals against exact big-integer rescaling",
            "All eight conversion functions over boundary u64/u128/i128 values x decimals 0..60 and beyond, and Decimal->integer over crafted (mantissa, scale, decimals): supported inputs round-trip exactly, other forward conversions only truncate, Decimal->integer is exact or an error, nothing panics.",
            "alphabets only; rounding of user decimals with excess fraction digits is by design and only counted", "§5 C43"),
    "C41": ("mc-utils", E1, "exhaustive enumeration (E1) of all short sequences of instruction groups x limits x flags against label bookkeeping and real serialization",
            "Every sequence of up to 3 (thorough 4) parallel groups from 16 shapes (incl. empty groups and data lengths around the compact-u16 limit) x instruction limits x size limits x payer-change flag x lookup table: after add+optimize the labelled instructions are neither dropped, duplicated nor reordered, atomic groups unsplit, merges only between mergeable groups, payer rule kept, limits respected and the size estimate is not below the bincode size of the built transaction.",
            "shapes and limits listed in the evidence", "§5 C41"),
    "C22": ("mc-store", MC, "explicit-state BFS (E3) over real store instructions in the in-process runtime, invariant after every successful instruction",
            "Two machines. (1) All interleavings to the stated depth of create/execute/close of deposits and withdrawals by owners, the keeper and a stranger, fee claims and keeper transfers, clock advances and feed re-publication over two markets sharing both vaults (one deposit swaps its long side along a path that ends in the deposit market itself), also from fabricated position-like start states (accrued fees, collateral close to the whole balance, backed collateral above the pools). (2) Real position orders (prepare/create/execute/close of market increase and decrease orders of two traders on both markets), market swap orders, shifts between the markets, liquidations (solvent and insolvent), fee claims, price sets and clock advances, from the empty world and from a state with both traders' positions open. After every successful instruction each market's recorded balances cover liquidity+impact+fees and collateral, the collateral-sum and open-interest pools equal the sums over the position accounts, and the markets sharing a vault do not record more than it holds.",
            "svm-lite runtime trusted; thorough tier bounded by the 40 GB memory cap (order machine depth 5, two slot alphabets); ADL and GLV actions are not in this alphabet (C09 program part, C45)", "§10 C22"),
    "C23": ("mc-store", MC, "explicit-state BFS (E3) over real store instructions in the in-process runtime against the action-lifecycle protocol",
            "Same two explorations as C22 with the full actor alphabet (owner, keeper, stranger) plus a third machine for GLV deposits and withdrawals: the action-state transition relation (Pending->Completed/Cancelled exactly once, terminal absorbing) for deposits, withdrawals, shifts, position and swap orders and GLV actions, who may execute/close/liquidate in which state, escrow contents returned on close (input funds to the owner, outputs to the receiver, also when they differ), consumed escrow on completion, execution-fee and rent refunds, and untouched markets/vaults/positions/escrow after a cancelled execution (unreachable minimum output, unacceptable price, expired request) are checked on every transition.",
            "thorough tier bounded by the 40 GB memory cap (order machine depth 5, two slot alphabets); ADL orders and GLV shifts are not under this relation; crafted account lists: one (a short-only deposit closed with the short mint in the unused long slot)", "§10 C23"),
    "C24": ("mc-store", E1, "exhaustive product enumeration (E1) of the real PriceValidator/SmallPrices against the statement in i128, plus exhaustive enumeration of feed-kind pairs through the real execute_deposit instruction",
            "Age/future rules over boundary clocks, timestamps, adjustments, max ages and future excesses at the i64/u64 limits; deviation rule and well-formedness through the validate_one + SmallPrices::from_price pipeline over dense prices, references, factors and multipliers; timestamp-range rule over pairs/triples of validated timestamps. Instruction level: execute_deposit over all pairs of eight feed kinds (good, stale, future, far from the other feed, wrong provider, wrong feed id, inverted, zero) x three operation kinds: executed only with two good feeds; the oracle account as left in memory on return (also of failed, uncommitted instructions) is byte-identical to a cleared oracle.",
            "svm-lite runtime trusted; Chainlink/Pyth feed parsing is C26/C28", "§10 C24"),
    "C25": ("mc-store", MC, "explicit-state BFS (E2) over PriceFeed::update sequences against a reference feed",
            "Every sequence of updates to the stated depth over timestamps around the stored one and the clock, ordered/inverted price triples, clock/slot steps, strict/idempotent mode and future excess; outcome, stored state, bytes unchanged on rejection, monotone timestamp and min<=price<=max in every state.",
            "alphabets and depth", "§5 C25"),
    "C29": ("mc-store", E1, "exhaustive product enumeration (E1) of try_adjust_price_with_max_deviation_factor composed with the acceptance pipeline",
            "Every (min, max) of a dense grid x reference (explicit or mid) x multiplier x deviation factor: an adjusted price that the validator and SmallPrices accept lies in reference +- deviation with 0 < min <= max; in-band bounds are untouched; out-of-band bounds are moved into the band whenever the band holds a representable value.",
            "factors have the token config's 10^12 granularity", "§5 C29"),
    "C30": ("mc-store", MC, "explicit-state BFS (E2) over GT operations on the real GtState/UserHeader/GtExchangeVault against a reference ledger",
            "Every sequence of mint/burn/exchange request/confirm/new vault/clock advance over three users and three rank tables to the stated depth: supply = sum of balances, total minted monotone, minting cost = floor-iterated growth of total minted only, rank = thresholds at or below balance, get_mint_amount = whole units at the current cost, window rules.",
            "failed operations are rolled back by the harness (transaction atomicity on chain)", "§5 C30"),
    "C31": ("mc-store", E1, "exhaustive enumeration (E1) of ranks x referral x factor tables on program and SDK over identical bytes",
            "Store::order_fee_discount_factor (program) and the SDK copy for every rank 0..17, referred or not, three rank tables, per-rank factors and referral discounts from {0,1,10%,50%,100%-1,100%} and beyond: range, monotonicity in referral, closed form within one unit, rejection above the maximum rank, equality of both implementations; the setter rejects factors above 100%.",
            "alphabets only", "§5 C31"),
    "C32": ("mc-store", E1, "exhaustive product enumeration (E1) of the builder-fee helpers against exact big-integer arithmetic plus explicit-state BFS (E3) over the real settle_builder_fee instruction",
            "compute/clamp/charge-on-increment/estimate-for-withdrawal over boundary and dense sizes x factors x min/max prices x increments x withdrawals x swap types: fee = ceil(floor(size*factor/UNIT)/price_min), split exact or refused, estimate = withdrawal + fee. Settlement histories on a real pending order from twenty (recorded, escrow) start states: repeated settlements by the right builder, another user and nobody, tokens arriving, further fees recorded: each settlement moves min(recorded, escrow) to the builder only, zeroes the record, and a builder never receives more than was ever recorded.",
            "no instruction attaches a builder yet (executions pass the constant factor 0): the record is attached through a visibility hook", "§10 C32"),
    "C20": ("mc-store", MC, "E1 matrices plus explicit-state BFS (E3-light) over real store instructions against the keeper permission policy",
            "Every MarketConfigKey and MarketConfigFlag x {not updatable, updatable} x {market keeper, config keeper, stranger} through update_market_config(_flag) and set_market_config_updatable; BFS over permission changes, updates by every actor, per-owner config buffers with updatable/mixed/empty entries, buffer application, clock advances across expiry and the admin disabling / re-enabling the config-keeper role; rejected calls leave the market account byte-identical.",
            "svm-lite runtime trusted; two keys and one flag in the history alphabet", "§5 C20"),
    "C21": ("mc-store", MC, "explicit-state BFS (E2) over revertible operations on a real Market account through RevertibleMarket, plus BFS (E3) over real deposit/withdrawal/shift instructions for the mint/burn deferral",
            "Every sequence of operations (begin, up to two writes with a full read after each, commit or abandon) to the stated depth for ten runs whose write alphabets together cover all pool kinds, the clocks and other-state fields: reads at begin equal storage, reads after writes equal the overlay, storage changes only at commit and then equals the overlay; state key = full account bytes. Program part: all interleavings to the stated depth of create/execute/close of deposits, withdrawals and shifts (half of them abandoned after their writes), clock advances and re-pricing: abandoned operations change no stored state, supply or holding and are invisible to every following operation (differential); committed ones equal the same operation on a plain in-memory market.",
            "operations cannot overlap (account borrow); mint/burn deferral exercised through real instructions, not a direct handle", "§5 C21, §10.2"),
    "C33": ("mc-store", MC, "explicit-state BFS (E3) over the real user/referral instructions against a reference relation",
            "All sequences of prepare_user, initialize_referral_code, set_referrer (also with a forged referrer account), transfer, cancel and accept by three users over two codes to the stated depth (the reference state space is closed); outcomes and account contents compared with the reference; write-once referrer, no self referral, exactly one holder per code and ownership moving only on acceptance are evaluated on the accounts after every step.",
            "svm-lite runtime trusted", "§5 C33"),
    "C38": ("mc-store", E1, "exhaustive product enumeration (E1) of the APY and reward functions against exact big-integer references plus explicit-state BFS (E3) over the real liquidity-provider program on the real store",
            "compute_time_weighted_apy over six gradients x stake starts x durations around every week boundary against the exact average of weekly buckets and a literal per-second sum; calculate_gt_reward_amount over boundary values x rates x integrals: formula, saturation, monotonicity, negative durations rejected. Stake/unstake histories (stake_gm with the pricing CPI, unstake of all / half / all but one / one / too much by owner and stranger, claim switch, three minimum stake values, clock advances, dust dropped into a vault): partial unstakes pay exactly the request and keep floor(value*remaining/staked); full exits (by amount or forced by the minimum stake value) sweep and close the vault and the position; with claims disabled only full-amount unstakes pass.",
            "durations bounded by 10^17 s; stake_glv and claim_gt are not explored", "§10 C38"),
    "C39": ("mc-store", MC, "explicit-state BFS (E2) over trade sequences on the real update_leaderboard, E1 on extend_competition_time, and explicit-state BFS (E3) over real orders executed by the store with the competition program as callback",
            "Every sequence of counted trades by seven traders with three or four volume increments to the stated depth: at most five distinct entries, sorted, latest volumes, filled with the top traders, excluded traders not above the last entry; extensions over end time/duration/cap/trigger time at the i64 limits never move the end earlier nor past max(old end, now + cap). End to end: increase/decrease orders of seven traders with the competition callback, clock advances inside/beyond the merge window and past the end time, late executions: the same board and end-time invariants on the stored accounts after every trade.",
            "agreement with a reference of the merge-window bookkeeping is counted, not required (not part of the statement); program part: thorough tier = wide alphabet to depth 4 plus the quick alphabet to depth 5 (memory cap)", "§10 C39"),
    "C19": ("mc-store", E1, "exhaustive enumeration (E1) of the instruction x signer matrix plus explicit-state BFS (E3) of authority/receiver hand-over histories, through the real program entrypoints in the in-process runtime",
            "Every probed privileged store instruction (named in the evidence) is executed with valid accounts by the entitled signer (passes authorisation) and by a stranger, the admin and the single-role holder of each of the other 13 roles (RESTART_ADMIN included, which is entitled only after a cluster restart) (must be rejected; rejected instructions commit nothing); the moving offices (store authority, fee receiver) are explored breadth first as nominate/accept histories by three actors to a fixpoint against a reference. Timelock instructions are covered by C36, market config updates by C20, execute/close by C23.",
            "claims only the instructions listed in the evidence (64: store administration, token map, oracle, markets incl. creation, GT, position-order execution and liquidation, execution of deposits/withdrawals/shifts, keeper maintenance of fee/ADL/closed state, creation of virtual inventories, GLV management, liquidity-provider administration, treasury configuration with role checks by CPI); GLV actions and shifts, joining/leaving virtual inventories, ADL execution, the remaining treasury instructions and competition administration are not probed", "§6 C19"),
    "C40": ("mc-store", E1, "exhaustive differential enumeration (E1) of program vs SDK on identical account bytes",
            "Sizes of every zero-copy account declared for the SDK; every model accessor of the program Market vs the SDK MarketModel over a family of market contents (all keys populated, closed x closed-params x every flag, all pools populated, pure market); swaps and fee-state updates on a real RevertibleMarket vs the SDK model under the same stubbed time; real deposit/withdrawal instructions vs the SDK simulation (amounts and resulting views); real increase/decrease order instructions on an A|A/B and a pure market, all four sides, four price moves, vs the SDK PositionModel (execution price, impact, pnl, output amounts, position after, removal, market view); every config key written with 0/1/MAX on a populated base for open/closed markets with and without closed-market parameters.",
            "clock fixed for the position section (the SDK model has no borrowing-state update); discount comparison is C31", "§10 C40"),
    "C44": ("mc-store", E1, "exhaustive enumeration (E1) of swap paths executed through real deposit instructions in the in-process runtime",
            "Every sequence of 0..3 markets out of five over three tokens (duplicates, non-chaining paths and paths through the deposit market included) x initial token x amounts as the swap path of a real create_deposit + execute_deposit: creation accepts exactly the duplicate-free chaining paths ending in the market's long token; after completion recorded balances and vaults move together, markets outside the path are untouched and every hop moved exactly the amounts of the C40-validated SDK swap in order; stored paths tampered to hold a duplicate (adjacent, or revisiting [p,q,p] where every hop chains) never complete. Withdrawals from the first market with every pair of (long-side, short-side) paths of length 0..2: recorded balances of every market move exactly as the withdrawal and both declared paths imply. Paths of eight, nine and ten hops over seventeen markets execute hop by hop as the reference, eleven hops are refused. SwapActionParams accessors over every (primary, secondary) length pair against the declared slices.",
            "paths of four to seven hops are not enumerated (three and fewer exhaustively, eight to eleven by depth-first selection); the deposit market carries fabricated, backed position collateral (slack above the pools); swap orders run in C22/C23", "§10 C44"),
    "C37": ("mc-store", E1, "exhaustive enumeration (E1) of factor setters and of claim orders executed through the real treasury instruction in the in-process runtime",
            "Config::set_gt_factor / set_buyback_factor over boundary factors from every reachable current value; the real complete_gt_exchange instruction (CPI into the store's close_gt_exchange, SPL transfers signed by the bank PDA) for all six claim orders of three claimants over a grid of one- and two-token bank balances and GT amounts: each claim = floor(balance*gt/remaining), never above holdings, at least the floor share of the original, recorded balance follows the vault, last claim drains, no double claim.",
            "bank / exchange / treasury config accounts fabricated through hooked state functions; deposits into the bank and confirmation through treasury instructions are not explored", "§5 C37"),
    "C45": ("mc-store", MC, "explicit-state BFS (E3) over real GLV deposit/withdrawal instructions against a big-integer pricing reference, plus exhaustive enumeration (E1) of GLV composition instructions and of the balance-cap function",
            "initialize_glv over every ordered selection of up to three of six markets and insert_glv_market of every market (accepted exactly for distinct markets with the GLV's tokens; stored markets re-read and compared); validate_market_token_balance over boundary caps/balances/pool values/supplies against the definition; breadth-first histories of GLV deposits (market/long/short/mixed), withdrawals, spread prices, caps and fabricated open interest through the real create/execute/close instructions: caps hold after every deposit, minted and paid amounts equal the reference (vault maximised for deposits, minimised for withdrawals), vaults back recorded balances, and ten deposit-then-withdraw round trips from every reached state never return more market tokens (zero-supply residue: known finding).",
            "GLV shifts and swap paths inside GLV actions are not explored; pool values of the reference come from the C40-validated SDK model; clock fixed", "§10 C45"),
}

NOT_YET = "no check built yet in this round (planned in DESIGN.md); not claimed"

def props():
    out = []
    with open(os.path.join(ROOT, "properties.jsonl")) as f:
        for line in f:
            if line.strip():
                out.append(json.loads(line)["id"])
    return out

def hook_commits():
    try:
        r = subprocess.run(["git", "-C", "/repo", "log", "--format=%H %s"], capture_output=True, text=True)
        return [l.split()[0] for l in r.stdout.splitlines() if "verif hook" in l]
    except Exception:
        return []

def main():
    checks = []
    for pid in props():
        if pid not in CHECKS:
            continue
        engine, level, technique, text, note, ref = CHECKS[pid]
        checks.append({
            "property_id": pid,
            "quick_cmd": f"./check {pid} --tier quick",
            "thorough_cmd": f"./check {pid} --tier thorough",
            "evidence_file": f"/verif/evidence/{pid}.json",
            "replay_cmd_template": f"./check {pid} --replay {{path}}",
            "engine": engine,
            "level_claimed": {"category": level, "text": text, "design_ref": ref},
            "level_note": note,
            "technique": technique,
        })
    na = [{"property_id": p, "reason": NA.get(p, NOT_YET)} for p in props() if p not in CHECKS]
    man = {
        "version": 1,
        "setup_cmd": "./check --setup",
        "hooks": {
            "guard": "--cfg gmsol_verif",
            "enable": "RUSTFLAGS=\"--cfg gmsol_verif\" (set by ./check and by mc/.cargo/config.toml); the checker crates under /verif/mc depend on the /repo crates by path, so every check rebuilds from /repo's working tree",
            "baseline_off_cmd": "cd /repo && cargo nextest run --workspace --no-fail-fast --test-threads 8 --offline || cargo test --workspace --no-fail-fast --offline",
            "source_commits": hook_commits(),
            "add_only": True,
        },
        "engines": [
            {"name": "mc-model", "path": "/verif/mc/mc-model", "serves_properties": [p for p, c in CHECKS.items() if c[0] == "mc-model"], "kind_free_text": "E1 product enumerator and E2 BFS history explorer driving the real generic market model (gmsol-model) through the harness's VMarket storage"},
            {"name": "mc-utils", "path": "/verif/mc/mc-utils", "serves_properties": [p for p, c in CHECKS.items() if c[0] == "mc-utils"], "kind_free_text": "E1/E2 over gmsol-utils, chainlink-datastreams, solana-utils"},
            {"name": "mc-store", "path": "/verif/mc/mc-store", "serves_properties": [p for p, c in CHECKS.items() if c[0] == "mc-store"], "kind_free_text": "E1/E2 over the store/treasury/timelock/competition/liquidity-provider state structs and E3 (svm-lite: in-process execution of the real Anchor entrypoints)"},
            {"name": "mc-sdk", "path": "/verif/mc/mc-sdk", "serves_properties": [p for p, c in CHECKS.items() if c[0] == "mc-sdk"], "kind_free_text": "E1 over SDK pure functions (market graph, decimal conversions)"},
        ],
        "checks": checks,
        "not_applicable": na,
        "notes": "All checks decide by exhaustive enumeration within the bounds stated in their evidence (E1 product enumeration, E2 explicit-state BFS over the implementation, E3 BFS over real program instructions in an in-process runtime). Known findings: /verif/known_findings.json.",
    }
    with open(os.path.join(ROOT, "MANIFEST.json"), "w") as f:
        json.dump(man, f, indent=1)
    print(f"MANIFEST.json: {len(checks)} checks, {len(na)} not claimed")

NA = {}

if __name__ == "__main__":
    main()
