#!/usr/bin/env python3
"""Regenerates /verif/MANIFEST.json from the table below (kept next to the checks so the
manifest is always valid and in step with what ./check can run)."""
import json, os, subprocess

ROOT = os.path.dirname(os.path.abspath(__file__))

E1 = "exploration"
MC = "model_checking"

# id: (engine, level, technique, level text, level note, design ref)
CHECKS = {
    "C01": ("mc-model", E1, "exhaustive product enumeration (E1) of the real helpers against big-integer reference arithmetic",
            "Every fixed-point helper (u64 and u128 instantiations, three scales) is executed on the full Cartesian product of boundary and dense operand alphabets and compared with exact big-integer results; exhaustive within the alphabets.",
            "operands outside the alphabets are not covered; non-integer exponents of checked_pow are documented as inconsistent and excluded", "§4 C01"),
}

NOT_YET = "no check built yet in this round (planned in DESIGN.md); not claimed"

def props():
    out = []
    with open(os.path.join(ROOT, "properties.jsonl")) as f:
        for line in f:
            if line.strip():
                out.append(json.loads(line)["id"])
    return out

def hook_commits():
    try:
        r = subprocess.run(["git", "-C", "/repo", "log", "--format=%H %s"], capture_output=True, text=True)
        return [l.split()[0] for l in r.stdout.splitlines() if "verif hook" in l]
    except Exception:
        return []

def main():
    checks = []
    for pid in props():
        if pid not in CHECKS:
            continue
        engine, level, technique, text, note, ref = CHECKS[pid]
        checks.append({
            "property_id": pid,
            "quick_cmd": f"./check {pid} --tier quick",
            "thorough_cmd": f"./check {pid} --tier thorough",
            "evidence_file": f"/verif/evidence/{pid}.json",
            "replay_cmd_template": f"./check {pid} --replay {{path}}",
            "engine": engine,
            "level_claimed": {"category": level, "text": text, "design_ref": ref},
            "level_note": note,
            "technique": technique,
        })
    na = [{"property_id": p, "reason": NA.get(p, NOT_YET)} for p in props() if p not in CHECKS]
    man = {
        "version": 1,
        "setup_cmd": "./check --setup",
        "hooks": {
            "guard": "--cfg gmsol_verif",
            "enable": "RUSTFLAGS=\"--cfg gmsol_verif\" (set by ./check and by mc/.cargo/config.toml); the checker crates under /verif/mc depend on the /repo crates by path, so every check rebuilds from /repo's working tree",
            "baseline_off_cmd": "cd /repo && cargo nextest run --workspace --no-fail-fast --test-threads 8 --offline || cargo test --workspace --no-fail-fast --offline",
            "source_commits": hook_commits(),
            "add_only": True,
        },
        "engines": [
            {"name": "mc-model", "path": "/verif/mc/mc-model", "serves_properties": [p for p, c in CHECKS.items() if c[0] == "mc-model"], "kind_free_text": "E1 product enumerator and E2 BFS history explorer driving the real generic market model (gmsol-model) through the harness's VMarket storage"},
            {"name": "mc-utils", "path": "/verif/mc/mc-utils", "serves_properties": [p for p, c in CHECKS.items() if c[0] == "mc-utils"], "kind_free_text": "E1/E2 over gmsol-utils, chainlink-datastreams, solana-utils"},
            {"name": "mc-store", "path": "/verif/mc/mc-store", "serves_properties": [p for p, c in CHECKS.items() if c[0] == "mc-store"], "kind_free_text": "E1/E2 over the store/treasury/timelock/competition/liquidity-provider state structs and E3 (svm-lite: in-process execution of the real Anchor entrypoints)"},
            {"name": "mc-sdk", "path": "/verif/mc/mc-sdk", "serves_properties": [p for p, c in CHECKS.items() if c[0] == "mc-sdk"], "kind_free_text": "E1 over SDK pure functions (market graph, decimal conversions)"},
        ],
        "checks": checks,
        "not_applicable": na,
        "notes": "All checks decide by exhaustive enumeration within the bounds stated in their evidence (E1 product enumeration, E2 explicit-state BFS over the implementation, E3 BFS over real program instructions in an in-process runtime). Known findings: /verif/known_findings.json.",
    }
    with open(os.path.join(ROOT, "MANIFEST.json"), "w") as f:
        json.dump(man, f, indent=1)
    print(f"MANIFEST.json: {len(checks)} checks, {len(na)} not claimed")

NA = {}

if __name__ == "__main__":
    main()
