//! C42 — swap path search returns valid, bounded and best paths (E1 over all small weighted graphs).
use gmsol_sdk::market_graph::MarketGraph;
use mc_core::{e1, json, Cli, Report};
use rust_decimal::{Decimal, MathematicalOps};
use solana_sdk::pubkey::Pubkey;

#[derive(Clone, Copy, Debug)]
struct Mk {
    a: usize,
    b: usize,
    /// ln exchange rate a->b and b->a in tenths; None = direction not swappable
    ab: Option<i64>,
    ba: Option<i64>,
}

/// cheapest market-simple path with at most `max` hops by brute force; cost = -sum(ln rate)
fn brute(mks: &[Mk], src: usize, dst: usize, max: usize) -> Option<(i64, Vec<usize>)> {
    fn rec(cur: usize, dst: usize, used: &mut Vec<usize>, cost: i64, mks: &[Mk], max: usize, best: &mut Option<(i64, Vec<usize>)>) {
        if cur == dst && !used.is_empty() && best.as_ref().map(|b| cost < b.0).unwrap_or(true) {
            *best = Some((cost, used.clone()));
        }
        if used.len() == max {
            return;
        }
        for (i, m) in mks.iter().enumerate() {
            if used.contains(&i) {
                continue;
            }
            for (from, to, w) in [(m.a, m.b, m.ab), (m.b, m.a, m.ba)] {
                if from == cur {
                    if let Some(w) = w {
                        used.push(i);
                        rec(to, dst, used, cost - w, mks, max, best);
                        used.pop();
                    }
                }
            }
        }
    }
    let mut best = None;
    rec(src, dst, &mut vec![], 0, mks, max, &mut best);
    best
}

/// a negative cycle anywhere in the directed cost graph (Floyd–Warshall)
fn has_neg_cycle(n: usize, mks: &[Mk]) -> bool {
    let inf = i64::MAX / 4;
    let mut d = vec![vec![inf; n]; n];
    for (i, row) in d.iter_mut().enumerate() {
        row[i] = 0;
    }
    for m in mks {
        if let Some(w) = m.ab {
            d[m.a][m.b] = d[m.a][m.b].min(-w);
        }
        if let Some(w) = m.ba {
            d[m.b][m.a] = d[m.b][m.a].min(-w);
        }
    }
    for k in 0..n {
        for i in 0..n {
            for j in 0..n {
                if d[i][k] + d[k][j] < d[i][j] {
                    d[i][j] = d[i][k] + d[k][j];
                }
            }
        }
    }
    (0..n).any(|i| d[i][i] < 0)
}

const PAIRS: [(usize, usize); 10] = [(0, 1), (1, 2), (0, 2), (2, 3), (1, 3), (0, 3), (0, 4), (1, 4), (2, 4), (3, 4)];
const WS: [Option<i64>; 6] = [None, Some(-2), Some(-1), Some(0), Some(1), Some(2)];

fn tokens() -> (Vec<Pubkey>, Vec<Pubkey>) {
    let mk = |p: &str, i: usize| {
        let h = mc_core::hash128(&(p, i));
        let mut b = [0u8; 32];
        b[..16].copy_from_slice(&h.to_le_bytes());
        b[16] = i as u8;
        Pubkey::new_from_array(b)
    };
    ((0..5).map(|i| mk("token", i)).collect(), (0..6).map(|i| mk("market", i)).collect())
}

fn check_graph(shape: &[usize], w: usize, sink: &mut e1::Sink, n_tokens: usize) {
    let (toks, mtoks) = tokens();
    let mut x = w;
    let mks: Vec<Mk> = shape
        .iter()
        .map(|p| {
            let ab = WS[x % 6];
            x /= 6;
            let ba = WS[x % 6];
            x /= 6;
            Mk { a: PAIRS[*p].0, b: PAIRS[*p].1, ab, ba }
        })
        .collect();
    let neg = has_neg_cycle(n_tokens, &mks);
    let rp = |src: usize, dst: usize, max: usize, skip: bool| json!({"shape": shape, "w": w, "n_tokens": n_tokens, "src": src, "dst": dst, "max_steps": max, "skip_bellman_ford": skip});
    for max_steps in 1..=3usize {
        let edges: Vec<_> = mks.iter().enumerate().map(|(i, m)| (mtoks[i], toks[m.a], toks[m.b], m.ab.map(|w| Decimal::new(w, 1)), m.ba.map(|w| Decimal::new(w, 1)))).collect();
        let g = MarketGraph::verif_from_edges(max_steps, &edges);
        for src in 0..n_tokens {
            for skip in [false, true] {
                let paths = match mc_core::catch(|| g.best_swap_paths(&toks[src], skip)) {
                    Ok(Ok(p)) => p,
                    Ok(Err(_)) => {
                        sink.case(false);
                        continue;
                    }
                    Err(p) => {
                        sink.case(false);
                        sink.fail("C42/panic", format!("best_swap_paths panicked: {p}"), rp(src, src, max_steps, skip));
                        continue;
                    }
                };
                for dst in 0..n_tokens {
                    if dst == src {
                        continue;
                    }
                    let (rate, path) = paths.to(&toks[dst]);
                    let best = brute(&mks, src, dst, max_steps);
                    sink.case(!path.is_empty());
                    if path.is_empty() {
                        if rate.is_some() {
                            sink.fail("C42/rate_without_path", format!("{mks:?} {src}->{dst}: rate {rate:?} with an empty path"), rp(src, dst, max_steps, skip));
                        }
                        sink.count(if best.is_some() { "no_recommendation_although_path_exists" } else { "no_path" });
                        // observation only (the property constrains what is recommended, it does not require a recommendation):
                        // no negative cycle, the globally cheapest simple path fits into the step limit, yet nothing is returned
                        // (seen when an equally cheap but longer path exists). Vacuity is guarded per run in `run`.
                        if !neg {
                            let global = brute(&mks, src, dst, mks.len());
                            if let (Some((gc, gp)), Some((bc, _))) = (&global, &best) {
                                if gp.len() <= max_steps && gc == bc {
                                    sink.count("no_recommendation_although_the_cheapest_path_fits");
                                }
                            }
                        }
                        continue;
                    }
                    // --- validity of the recommended path
                    let mut cur = src;
                    let mut cost = 0i64;
                    let mut used: Vec<usize> = vec![];
                    let mut problem: Option<&'static str> = None;
                    for mt in &path {
                        let Some(i) = mtoks.iter().position(|t| t == mt).filter(|i| *i < mks.len()) else {
                            problem = Some("C42/path_uses_unknown_market");
                            break;
                        };
                        if used.contains(&i) {
                            problem = Some("C42/path_repeats_market");
                            break;
                        }
                        used.push(i);
                        let m = mks[i];
                        let (to, w) = if m.a == cur {
                            (m.b, m.ab)
                        } else if m.b == cur {
                            (m.a, m.ba)
                        } else {
                            problem = Some("C42/path_not_chained");
                            break;
                        };
                        let Some(w) = w else {
                            problem = Some("C42/path_uses_unswappable_direction");
                            break;
                        };
                        cost -= w;
                        cur = to;
                    }
                    if problem.is_none() && cur != dst {
                        problem = Some("C42/path_does_not_end_at_target");
                    }
                    if let Some(k) = problem {
                        sink.fail(k, format!("{mks:?} {src}->{dst} max {max_steps} skip {skip}: path {:?}", path.iter().map(|p| mtoks.iter().position(|t| t == p)).collect::<Vec<_>>()), rp(src, dst, max_steps, skip));
                        continue;
                    }
                    if path.len() > max_steps {
                        sink.fail("C42/path_longer_than_limit", format!("{mks:?} {src}->{dst} max {max_steps}: {} steps", path.len()), rp(src, dst, max_steps, skip));
                    }
                    let want = (-Decimal::new(cost, 1)).exp();
                    if rate != Some(want) {
                        sink.fail("C42/rate_differs_from_path_cost", format!("{mks:?} {src}->{dst} max {max_steps} skip {skip}: path {used:?} has cost {cost}/10 (rate {want}), reported {rate:?}"), rp(src, dst, max_steps, skip));
                    }
                    if !neg {
                        if let Some((bc, bp)) = &best {
                            if *bc < cost {
                                sink.fail("C42/not_best_without_arbitrage", format!("{mks:?} {src}->{dst} max {max_steps} skip {skip}: recommended {used:?} cost {cost}, better {bp:?} cost {bc}"), rp(src, dst, max_steps, skip));
                            }
                        }
                    }
                }
            }
        }
    }
}

pub fn run(cli: &Cli) -> Report {
    let mut rep = Report::new(cli, "exploration");
    rep.rule("E1: every weighted market graph of the listed shapes (each direction of each market unswappable or with ln-rate in {-0.2,-0.1,0,0.1,0.2}) x step limit 1..3 x both search modes x every (source, target); recommended paths are validated edge by edge, the rate recomputed, and optimality compared with brute-force enumeration of all market-simple paths; non-trivial = a path was recommended; graphs for which nothing is recommended although the cheapest path fits the step limit are counted (counter no_recommendation_although_the_cheapest_path_fits), not failed: the property constrains recommendations, it does not require one");
    rep.assume("graphs are built through the verification hook MarketGraph::verif_from_edges (explicit ln-rates instead of simulated swaps); estimation of rates from market state is outside this property");
    if let Some(rv) = &cli.replay {
        let shape: Vec<usize> = rv["shape"].as_array().map(|a| a.iter().map(|v| v.as_u64().unwrap_or(0) as usize).collect()).unwrap_or_default();
        let w = rv["w"].as_u64().unwrap_or(0) as usize;
        let n = rv["n_tokens"].as_u64().unwrap_or(4) as usize;
        for _ in 0..2 {
            e1::run(&mut rep, "replay", &[0u8], |_, sink| check_graph(&shape, w, sink, n));
        }
        if rep.per_key.values().any(|c| c % 2 != 0) {
            rep.machinery("replay is not deterministic");
        }
        for v in rep.per_key.values_mut() {
            *v /= 2;
        }
        return rep;
    }
    let th = cli.tier.thorough();
    // shapes: indices into PAIRS; two and three markets (quick), four markets and a fifth token (thorough)
    let mut shapes: Vec<(Vec<usize>, usize)> = vec![
        (vec![0, 1], 3), (vec![0, 0], 3),
        (vec![0, 1, 2], 3), (vec![0, 1, 3], 4), (vec![0, 2, 4], 4), (vec![1, 3, 5], 4), (vec![0, 0, 1], 3), (vec![0, 1, 1], 3),
    ];
    if th {
        shapes.extend([(vec![0, 1, 2, 3], 4), (vec![0, 1, 3, 5], 4), (vec![0, 2, 4, 5], 4), (vec![0, 0, 1, 2], 3), (vec![0, 1, 3, 9], 5), (vec![0, 1, 2, 0], 3)]);
    }
    for (shape, n_tokens) in shapes {
        let total = 36usize.pow(shape.len() as u32);
        // shard by blocks of weight assignments
        let block = 1296.min(total);
        let blocks: Vec<usize> = (0..total / block).collect();
        let name = format!("shape {shape:?} over {n_tokens} tokens: {total} weightings");
        let sh = shape.clone();
        e1::run(&mut rep, &name, &blocks, |&b, sink| {
            for w in b * block..(b + 1) * block {
                check_graph(&sh, w, sink, n_tokens);
            }
        });
    }
    if rep.distinct_nontrivial == 0 {
        rep.machinery("vacuous exploration: the search never recommended a path");
    }
    rep
}
