//! C43 — SDK amount/value <-> Decimal conversions round-trip, never panic, never silently rescale (E1).
use gmsol_sdk::utils::fixed::*;
use mc_core::{alpha, big::*, e1, json, Cli, Report};
use rust_decimal::Decimal;

const MAX_REPR: u128 = (1u128 << 96) - 1;

fn pow10(k: u32) -> BigInt {
    BigInt::from(10u8).pow(k)
}

/// exact value of a Decimal times 10^d as a rational (num, den)
fn scaled(dec: &Decimal, d: u32) -> (BigInt, BigInt) {
    let m = BigInt::from(dec.mantissa());
    let s = dec.scale();
    if d >= s {
        (m * pow10(d - s), BigInt::one())
    } else {
        (m, pow10(s - d))
    }
}

fn digits(v: u128) -> u32 {
    if v == 0 { 1 } else { v.ilog10() + 1 }
}

/// forward conversion of an unsigned integer: exact when supported, otherwise truncation only
fn check_forward(name: &str, v: u128, d: u8, got: Option<Decimal>, must_be_exact: bool, sink: &mut e1::Sink, rp: &dyn Fn() -> serde_json::Value) {
    match got {
        None => {
            if must_be_exact {
                sink.fail(&format!("C43/{name}/supported_value_rejected"), format!("{name}({v},{d}) = None"), rp());
            }
        }
        Some(dec) => {
            let (num, den) = scaled(&dec, d as u32);
            // dec * 10^d must be an integer not above v, and differ from v by less than the truncation granularity
            let lhs = &num; // compare num/den with v: num <= v*den
            let vden = BigInt::from(v) * &den;
            if *lhs > vden {
                sink.fail(&format!("C43/{name}/rounded_up_or_scaled"), format!("{name}({v},{d}) = {dec} exceeds the exact value"), rp());
                return;
            }
            if must_be_exact {
                if *lhs != vden {
                    sink.fail(&format!("C43/{name}/supported_value_not_exact"), format!("{name}({v},{d}) = {dec}"), rp());
                }
            } else {
                // truncation only: the dropped part is smaller than one unit of the last kept digit, and no more
                // digits are dropped than needed to fit 28 significant digits / scale 28
                let needed = digits(v).saturating_sub(28).max((d as u32).saturating_sub(28));
                if dec.is_zero() {
                    // a zero result carries no scale: it is a truncation iff everything had to be dropped
                    if v != 0 && BigInt::from(v) >= pow10(needed) {
                        sink.fail(&format!("C43/{name}/not_a_truncation"), format!("{name}({v},{d}) = 0 although only {needed} digits need to be dropped"), rp());
                    }
                    return;
                }
                let kept_unit_exp = (d as u32).saturating_sub(dec.scale()); // 10^this is the granularity in integer units
                let diff = (&vden - lhs) / &den;
                if diff >= pow10(kept_unit_exp) {
                    sink.fail(&format!("C43/{name}/not_a_truncation"), format!("{name}({v},{d}) = {dec}: differs from the exact value by {diff} >= 10^{kept_unit_exp}"), rp());
                }
                let needed = digits(v).saturating_sub(28).max((d as u32).saturating_sub(28));
                if kept_unit_exp > needed + 1 {
                    sink.fail(&format!("C43/{name}/excess_truncation"), format!("{name}({v},{d}) = {dec}: dropped {kept_unit_exp} digits, {needed} suffice"), rp());
                }
            }
        }
    }
}

fn check_value(v: u128, d: u8, sink: &mut e1::Sink) {
    let rp = || json!({"v": v.to_string(), "d": d});
    let supported = v <= MAX_REPR && d <= 28;
    // ---- unsigned value
    match mc_core::catch(|| unsigned_fixed_to_decimal(v, d)) {
        Err(p) => {
            sink.case(false);
            sink.fail("C43/unsigned_fixed_to_decimal/panic", format!("unsigned_fixed_to_decimal({v},{d}) panicked: {p}"), rp());
        }
        Ok(got) => {
            sink.case(got.is_some());
            check_forward("unsigned_fixed_to_decimal", v, d, got, supported, sink, &rp);
            if let Some(dec) = got {
                match mc_core::catch(|| decimal_to_value(dec, d).ok()) {
                    Err(p) => sink.fail("C43/decimal_to_value/panic", format!("decimal_to_value({dec},{d}) panicked: {p}"), rp()),
                    Ok(back) => {
                        if supported && back != Some(v) {
                            sink.fail("C43/value_round_trip", format!("{v} with {d} decimals -> {dec} -> {back:?}"), rp());
                        }
                        if let Some(b) = back {
                            let (num, den) = scaled(&dec, d as u32);
                            if den != BigInt::one() || num != BigInt::from(b) {
                                sink.fail("C43/decimal_to_value/not_exact", format!("decimal_to_value({dec},{d}) = {b}, exact {num}/{den}"), rp());
                            }
                        }
                    }
                }
            }
        }
    }
    // ---- signed value (both signs)
    if v <= i128::MAX as u128 + 1 {
        for neg in [false, true] {
            let s: i128 = if neg { (v as i128).wrapping_neg() } else if v <= i128::MAX as u128 { v as i128 } else { continue };
            match mc_core::catch(|| signed_fixed_to_decimal(s, d)) {
                Err(p) => sink.fail("C43/signed_fixed_to_decimal/panic", format!("signed_fixed_to_decimal({s},{d}) panicked: {p}"), rp()),
                Ok(got) => {
                    sink.case(got.is_some());
                    let mag = got.map(|g| g.abs());
                    if let Some(g) = got {
                        if !g.is_zero() && g.is_sign_negative() != (s < 0) {
                            sink.fail("C43/signed_fixed_to_decimal/wrong_sign", format!("signed_fixed_to_decimal({s},{d}) = {g}"), rp());
                        }
                    }
                    check_forward("signed_fixed_to_decimal", s.unsigned_abs(), d, mag, supported, sink, &rp);
                    if let (Some(dec), true) = (got, supported) {
                        match mc_core::catch(|| decimal_to_signed_value(dec, d).ok()) {
                            Err(p) => sink.fail("C43/decimal_to_signed_value/panic", format!("panicked: {p}"), rp()),
                            Ok(back) => {
                                if back != Some(s) {
                                    sink.fail("C43/signed_value_round_trip", format!("{s} with {d} decimals -> {dec} -> {back:?}"), rp());
                                }
                            }
                        }
                    }
                }
            }
        }
    }
    // ---- amounts (u64 / i64)
    if v <= u64::MAX as u128 {
        let a = v as u64;
        match mc_core::catch(|| unsigned_amount_to_decimal(a, d)) {
            Err(p) => sink.fail("C43/unsigned_amount_to_decimal/panic", format!("unsigned_amount_to_decimal({a},{d}) panicked: {p}"), rp()),
            Ok(dec) => {
                sink.case(true);
                check_forward("unsigned_amount_to_decimal", v, d, Some(dec), d <= 28, sink, &rp);
                if d <= 28 {
                    match mc_core::catch(|| decimal_to_amount(dec, d).ok()) {
                        Err(p) => sink.fail("C43/decimal_to_amount/panic", format!("panicked: {p}"), rp()),
                        Ok(back) => {
                            if back != Some(a) {
                                sink.fail("C43/amount_round_trip", format!("{a} with {d} decimals -> {dec} -> {back:?}"), rp());
                            }
                        }
                    }
                }
            }
        }
        if v <= i64::MAX as u128 + 1 {
            for s in [a as i64, (a as i64).wrapping_neg()] {
                match mc_core::catch(|| signed_amount_to_decimal(s, d)) {
                    Err(p) => sink.fail("C43/signed_amount_to_decimal/panic", format!("signed_amount_to_decimal({s},{d}) panicked: {p}"), rp()),
                    Ok(dec) => {
                        sink.case(true);
                        if !dec.is_zero() && dec.is_sign_negative() != (s < 0) {
                            sink.fail("C43/signed_amount_to_decimal/wrong_sign", format!("signed_amount_to_decimal({s},{d}) = {dec}"), rp());
                        }
                        check_forward("signed_amount_to_decimal", s.unsigned_abs() as u128, d, Some(dec.abs()), d <= 28, sink, &rp);
                    }
                }
            }
        }
    }
}

/// Decimal -> integer on crafted decimals: the result is the exactly rescaled value or an error
fn check_back(mantissa: i128, scale: u32, d: u8, sink: &mut e1::Sink) {
    let rp = || json!({"mantissa": mantissa.to_string(), "scale": scale, "d": d});
    let Ok(dec) = Decimal::try_from_i128_with_scale(mantissa, scale) else {
        return;
    };
    let (num, den) = scaled(&dec, d as u32);
    let integral = den == BigInt::one() || (&num % &den).is_zero();
    let exact = if integral { Some(&num / &den) } else { None };
    let r = mc_core::catch(|| (decimal_to_signed_value(dec, d).ok(), decimal_to_value(dec, d).ok(), decimal_to_amount(dec, d).ok()));
    let (sv, uv, am) = match r {
        Err(p) => {
            sink.case(false);
            sink.fail("C43/decimal_to_integer/panic", format!("conversion of {dec} to {d} decimals panicked: {p}"), rp());
            return;
        }
        Ok(t) => t,
    };
    sink.case(sv.is_some());
    match &exact {
        Some(e) => {
            for (name, got, fits) in [
                ("decimal_to_signed_value", sv.map(BigInt::from), fits_signed(e, 128).is_some()),
                ("decimal_to_value", uv.map(BigInt::from), !e.is_negative() && fits_signed(e, 128).is_some()),
                ("decimal_to_amount", am.map(BigInt::from), !e.is_negative() && e.bits() <= 64),
            ] {
                match got {
                    Some(g) if g == *e => {}
                    Some(g) => sink.fail(&format!("C43/{name}/wrong_value"), format!("{name}({dec},{d}) = {g}, exact {e}"), rp()),
                    None => {
                        if fits && d <= 28 {
                            sink.fail(&format!("C43/{name}/representable_rejected"), format!("{name}({dec},{d}) failed, exact {e} fits"), rp());
                        }
                    }
                }
            }
        }
        None => {
            // more fractional digits than the target keeps: the SDK rounds user input to the target precision
            // (observation, counted in the evidence); a result that is off by one unit or more is a violation
            sink.count("input_with_excess_fraction_digits");
            if let Some(g) = sv {
                let lo = &num / &den - BigInt::one();
                let hi = &num / &den + BigInt::one();
                if BigInt::from(g) < lo || BigInt::from(g) > hi {
                    sink.fail("C43/decimal_to_signed_value/wrong_value", format!("decimal_to_signed_value({dec},{d}) = {g}, exact {num}/{den}"), rp());
                }
            }
        }
    }
}

pub fn run(cli: &Cli) -> Report {
    let mut rep = Report::new(cli, "exploration");
    rep.rule("E1: all eight conversion functions over boundary integers (u64/u128/i128 limits, every power of ten +-1, the 96-bit mantissa limit) x decimals 0..=60 and 255, plus Decimal->integer on crafted (mantissa, scale, decimals) triples; supported inputs (<= 96 bits, <= 28 decimals) must round-trip exactly, other forward conversions may only truncate, Decimal->integer returns the exactly rescaled integer or an error; panics are violations; non-trivial = a value was returned");
    rep.assume("forward conversion above 96 bits / 28 decimals is documented as lossy (truncating); Decimal inputs with more fraction digits than the target are rounded by design and only counted");
    if let Some(rv) = &cli.replay {
        for _ in 0..2 {
            e1::run(&mut rep, "replay", &[0u8], |_, sink| {
                if let Some(v) = rv["v"].as_str() {
                    check_value(v.parse().unwrap_or(0), rv["d"].as_u64().unwrap_or(0) as u8, sink);
                } else {
                    check_back(rv["mantissa"].as_str().and_then(|s| s.parse().ok()).unwrap_or(0), rv["scale"].as_u64().unwrap_or(0) as u32, rv["d"].as_u64().unwrap_or(0) as u8, sink);
                }
            });
        }
        if rep.per_key.values().any(|c| c % 2 != 0) {
            rep.machinery("replay is not deterministic");
        }
        for v in rep.per_key.values_mut() {
            *v /= 2;
        }
        return rep;
    }
    let th = cli.tier.thorough();
    let mut vals: Vec<u128> = alpha::boundary(128, &[], &[]);
    for k in 0..=38u32 {
        let p = 10u128.pow(k);
        vals.extend([p - 1, p, p + 1, p.saturating_mul(7) / 3, p.saturating_mul(9)]);
    }
    vals.extend([MAX_REPR - 1, MAX_REPR, MAX_REPR + 1, i128::MAX as u128, i128::MAX as u128 + 1, i64::MAX as u128, i64::MAX as u128 + 1]);
    vals.extend(cli.extras(43, 16, 0, u128::MAX));
    vals.extend(cli.extras(44, 16, 0, 1u128 << 96));
    vals.extend(cli.extras(45, 16, 0, 1u128 << 64));
    if th {
        vals.extend(0..=2_000u128);
        vals.extend(cli.extras(46, 2_000, 0, u128::MAX));
        vals.extend(cli.extras(47, 2_000, 0, 1u128 << 96));
    } else {
        vals.extend(0..=100u128);
    }
    vals.sort();
    vals.dedup();
    let decs: Vec<u8> = (0u8..=60).chain([64, 128, 254, 255]).collect();
    e1::run(&mut rep, "integer -> Decimal -> integer", &vals, |&v, sink| {
        for &d in &decs {
            check_value(v, d, sink);
        }
    });
    // value helpers at the market scale (documented to never fail)
    e1::run(&mut rep, "value helpers (20 decimals)", &vals, |&v, sink| {
        for r in [mc_core::catch(|| unsigned_value_to_decimal(v)).map(|_| ()), mc_core::catch(|| signed_value_to_decimal(v as i128)).map(|_| ()), mc_core::catch(|| signed_value_to_decimal((v as i128).wrapping_neg())).map(|_| ())] {
            sink.case(r.is_ok());
            if let Err(p) = r {
                sink.fail("C43/value_to_decimal/panic", format!("value helper panicked on {v}: {p}"), json!({"v": v.to_string(), "d": 20}));
            }
        }
    });
    // crafted decimals
    let mut mants: Vec<i128> = vec![0, 1, -1, 5, 10, 15, 99, 100, 1_234_567_891, i64::MAX as i128, u64::MAX as i128, u64::MAX as i128 + 1, MAX_REPR as i128, -(MAX_REPR as i128), (MAX_REPR / 10) as i128, 1_000_000_000_000_000_000_000_000_000];
    for k in [1u32, 5, 9, 18, 19, 20, 27, 28] {
        mants.extend([10i128.pow(k), 10i128.pow(k) + 1, 10i128.pow(k) - 1, 3 * 10i128.pow(k)]);
    }
    mants.extend(cli.extras(48, if th { 200 } else { 12 }, 0, 1u128 << 96).into_iter().map(|x| x as i128));
    let mants = alpha::dedup(&mants);
    e1::run(&mut rep, "Decimal -> integer on crafted decimals", &mants, |&m, sink| {
        for scale in 0..=28u32 {
            for &d in &decs {
                check_back(m, scale, d, sink);
            }
        }
    });
    rep
}
