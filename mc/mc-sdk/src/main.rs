fn main() {}
