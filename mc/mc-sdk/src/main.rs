//! Checker binary for the properties anchored in the SDK's pure functions (C42, C43).
mod c42;
mod c43;

use mc_core::{Cli, Report};

fn main() {
    let cli = Cli::parse();
    mc_core::quiet_panics();
    let rep: Report = match cli.property.as_str() {
        "C42" => c42::run(&cli),
        "C43" => c43::run(&cli),
        other => {
            eprintln!("unknown property {other}");
            std::process::exit(2)
        }
    };
    std::process::exit(rep.finish(&cli));
}
