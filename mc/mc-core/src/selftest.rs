//! Engine self-test: a toy machine with a known reachable-state count and a planted bug at
//! a known depth, plus an E1 product with a known number of cases.
use crate::e2::{self, Machine, StepOut};
use crate::{Cli, Report, Tier};
use serde_json::json;

struct Toy {
    acts: Vec<u8>,
    bug_at: Option<(u8, u8)>,
}

impl Machine for Toy {
    type State = (u8, u8);
    type Action = u8;
    fn actions(&self) -> &[u8] {
        &self.acts
    }
    fn key(&self, s: &(u8, u8)) -> u128 {
        crate::hash128(s)
    }
    fn step(&self, s: &(u8, u8), a: &u8, out: &mut StepOut) -> (u8, u8) {
        // two counters modulo 5; action 0 increments x, 1 increments y, 2 swaps
        let n = match a {
            0 => ((s.0 + 1) % 5, s.1),
            1 => (s.0, (s.1 + 1) % 5),
            _ => (s.1, s.0),
        };
        out.label = "ok";
        if Some(n) == self.bug_at {
            out.fail("toy/bug", format!("reached {n:?}"));
        }
        n
    }
}

/// Returns Err(description) if the engines misbehave.
pub fn run() -> Result<(), String> {
    let cli = Cli { property: "SELFTEST".into(), tier: Tier::Quick, seed: 0, out: None, replay: None };
    // 1. full reachability: 25 states, 75 transitions per complete layer
    let mut rep = Report::new(&cli, "model_checking");
    let toy = Toy { acts: vec![0, 1, 2], bug_at: None };
    let o = e2::explore(&mut rep, "toy", &toy, vec![(0, 0)], &e2::Config { depth: 12, max_states: 1000 }, json!(null));
    if o.states != 25 {
        return Err(format!("toy machine: expected 25 states, got {}", o.states));
    }
    if rep.violations_total() != 0 {
        return Err("toy machine: spurious violation".into());
    }
    // 2. planted bug at (2,1): shortest path has 3 actions
    let mut rep = Report::new(&cli, "model_checking");
    let toy = Toy { acts: vec![0, 1, 2], bug_at: Some((2, 1)) };
    e2::explore(&mut rep, "toy", &toy, vec![(0, 0)], &e2::Config { depth: 12, max_states: 1000 }, json!(null));
    let v = rep.violations.first().ok_or("toy machine: planted bug not found")?;
    let path = v.replay["path"].as_array().unwrap();
    if path.len() != 3 {
        return Err(format!("toy machine: counter-example is not shortest: {path:?}"));
    }
    let again = e2::replay(&toy, &[(0, 0)], &v.replay);
    if again.len() != 1 {
        return Err("toy machine: replay does not reproduce".into());
    }
    // 3. state cap is a machinery error
    let mut rep = Report::new(&cli, "model_checking");
    e2::explore(&mut rep, "toy", &toy, vec![(0, 0)], &e2::Config { depth: 12, max_states: 10 }, json!(null));
    if rep.machinery_error.is_none() {
        return Err("state cap not reported".into());
    }
    // 4. E1: 10x10x10 product, 100 multiples of ten-sum
    let mut rep = Report::new(&cli, "exploration");
    let first: Vec<u32> = (0..10).collect();
    crate::e1::run(&mut rep, "prod", &first, |a, sink| {
        for b in 0..10u32 {
            for c in 0..10u32 {
                sink.case((a + b + c) % 10 == 0);
                if (*a, b, c) == (9, 9, 9) {
                    sink.fail("toy/e1", "planted".into(), json!([a, b, c]));
                }
            }
        }
    });
    if rep.evaluations != 1000 || rep.distinct_nontrivial != 100 || rep.violations_total() != 1 {
        return Err(format!("E1 counts wrong: {} {} {}", rep.evaluations, rep.distinct_nontrivial, rep.violations_total()));
    }
    Ok(())
}
