//! Ordered, simplest-first value alphabets.

/// Sort-free de-duplication that keeps the first occurrence (simplest-first order).
pub fn dedup<T: PartialEq + Clone>(v: &[T]) -> Vec<T> {
    let mut out: Vec<T> = Vec::with_capacity(v.len());
    for x in v {
        if !out.contains(x) {
            out.push(x.clone());
        }
    }
    out
}

/// Boundary alphabet `B(w)` for an unsigned integer of `bits` width: small values, powers of
/// ten around the given scales, powers of two around the usual limb boundaries, and the top
/// of the range. `scales` lists decimal exponents k for which 10^k-1, 10^k, 10^k+1 are added.
pub fn boundary(bits: u32, scales: &[u32], extras: &[u128]) -> Vec<u128> {
    let max: u128 = if bits >= 128 { u128::MAX } else { (1u128 << bits) - 1 };
    let mut v: Vec<u128> = vec![0, 1, 2, 3, 5, 7, 10];
    for &k in scales {
        if let Some(p) = 10u128.checked_pow(k) {
            v.extend([p - 1, p, p.saturating_add(1)]);
        }
    }
    v.extend(extras.iter().copied());
    for k in [8u32, 16, 31, 32, 33, 63, 64, 65, 95, 96, 127] {
        if k < bits {
            let p = 1u128 << k;
            v.extend([p - 1, p, p + 1]);
        }
    }
    v.extend([max / 2, max / 2 + 1, max - 1, max]);
    let v: Vec<u128> = v.into_iter().filter(|x| *x <= max).collect();
    dedup(&v)
}

/// A shorter boundary alphabet (for high-arity products).
pub fn boundary_small(bits: u32, unit: u128, extras: &[u128]) -> Vec<u128> {
    let max: u128 = if bits >= 128 { u128::MAX } else { (1u128 << bits) - 1 };
    let mut v = vec![0u128, 1, 2, 7, unit.saturating_sub(1), unit, unit.saturating_add(1), unit.saturating_mul(3)];
    v.extend(extras.iter().copied());
    if bits > 64 {
        v.extend([u64::MAX as u128, u64::MAX as u128 + 1]);
    }
    v.extend([max / 2, max - 1, max]);
    let v: Vec<u128> = v.into_iter().filter(|x| *x <= max).collect();
    dedup(&v)
}

/// Dense alphabet `0..=n`.
pub fn dense(n: u128) -> Vec<u128> {
    (0..=n).collect()
}

/// Signed mirror: every value and its negation (as i128, clamped at the type limits).
pub fn signed(vals: &[u128], bits: u32) -> Vec<i128> {
    let max: i128 = if bits >= 128 { i128::MAX } else { (1i128 << (bits - 1)) - 1 };
    let min: i128 = if bits >= 128 { i128::MIN } else { -(1i128 << (bits - 1)) };
    let mut out = vec![];
    for &v in vals {
        let p = if v > max as u128 { max } else { v as i128 };
        out.push(p);
        out.push(-p);
    }
    out.extend([max, min, min + 1]);
    dedup(&out)
}
