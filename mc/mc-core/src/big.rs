//! Big-integer reference arithmetic (never the type under test).
pub use num_bigint::{BigInt, BigUint, Sign};
pub use num_integer::Integer;
pub use num_traits::{One, Signed, ToPrimitive, Zero};

pub fn bu(v: u128) -> BigUint {
    BigUint::from(v)
}
pub fn bi(v: i128) -> BigInt {
    BigInt::from(v)
}

/// floor(a*b/c); None when c == 0
pub fn mul_div_floor(a: u128, b: u128, c: u128) -> Option<BigUint> {
    if c == 0 {
        return None;
    }
    Some(bu(a) * bu(b) / bu(c))
}

/// ceil(a*b/c); None when c == 0
pub fn mul_div_ceil(a: u128, b: u128, c: u128) -> Option<BigUint> {
    if c == 0 {
        return None;
    }
    let p = bu(a) * bu(b);
    let (q, r) = p.div_rem(&bu(c));
    Some(if r.is_zero() { q } else { q + 1u32 })
}

pub fn fits(v: &BigUint, bits: u32) -> Option<u128> {
    if v.bits() <= bits as u64 {
        v.to_u128()
    } else {
        None
    }
}

/// fits in a signed integer of `bits` width
pub fn fits_signed(v: &BigInt, bits: u32) -> Option<i128> {
    let max = (BigInt::one() << (bits - 1)) - 1;
    let min = -(BigInt::one() << (bits - 1));
    if *v <= max && *v >= min {
        v.to_i128()
    } else {
        None
    }
}
