//! E1 — exhaustive product enumerator. The caller shards the product by its first
//! coordinate; every shard enumerates the remaining coordinates in lexicographic order and
//! reports into a `Sink`. Shards run on worker threads and are merged in shard order, so
//! counts and the retained counter-examples are reproducible.
use serde_json::{json, Value};
use std::collections::BTreeMap;
use std::sync::atomic::{AtomicUsize, Ordering};
use std::sync::Mutex;

use crate::report::{Report, Violation};

#[derive(Default)]
pub struct Sink {
    pub evaluations: u64,
    pub nontrivial: u64,
    pub violations: Vec<Violation>,
    pub per_key: BTreeMap<String, u64>,
    pub samples: Vec<Value>,
    /// named counters (outcome histograms, failure classes seen, ...)
    pub counters: BTreeMap<String, u64>,
}

impl Sink {
    /// one evaluated case; `nontrivial` by the rule the checker states in the evidence
    #[inline]
    pub fn case(&mut self, nontrivial: bool) {
        self.evaluations += 1;
        if nontrivial {
            self.nontrivial += 1;
        }
    }
    pub fn fail(&mut self, key: &str, detail: String, replay: Value) {
        let n = self.per_key.entry(key.to_string()).or_insert(0);
        *n += 1;
        if *n <= 3 {
            self.violations.push(Violation::new(key, detail, replay));
        }
    }
    /// like `fail` but the (possibly expensive) detail/replay are built only when retained
    pub fn fail_with(&mut self, key: &str, f: impl FnOnce() -> (String, Value)) {
        let n = self.per_key.entry(key.to_string()).or_insert(0);
        *n += 1;
        if *n <= 3 {
            let (d, r) = f();
            self.violations.push(Violation::new(key, d, r));
        }
    }
    pub fn sample(&mut self, f: impl FnOnce() -> Value) {
        if self.samples.len() < 2 {
            self.samples.push(f());
        }
    }
    #[inline]
    pub fn count(&mut self, name: &str) {
        if let Some(c) = self.counters.get_mut(name) {
            *c += 1;
        } else {
            self.counters.insert(name.to_string(), 1);
        }
    }
    pub fn merge(&mut self, o: Sink) {
        self.evaluations += o.evaluations;
        self.nontrivial += o.nontrivial;
        for v in o.violations {
            self.violations.push(v);
        }
        for (k, n) in o.per_key {
            *self.per_key.entry(k).or_insert(0) += n;
        }
        for s in o.samples {
            if self.samples.len() < 4 {
                self.samples.push(s);
            }
        }
        for (k, n) in o.counters {
            *self.counters.entry(k).or_insert(0) += n;
        }
    }
}

/// Run `f` once per element of `first` (in parallel), merge, and fold into the report under
/// the section `name`. Returns the merged counters for callers that post-process them.
pub fn run<A: Sync + std::fmt::Debug>(rep: &mut Report, name: &str, first: &[A], f: impl Fn(&A, &mut Sink) + Sync) -> BTreeMap<String, u64> {
    let n = first.len();
    let slots: Vec<Mutex<Option<Result<Sink, String>>>> = (0..n).map(|_| Mutex::new(None)).collect();
    let next = AtomicUsize::new(0);
    let workers = crate::workers().min(n.max(1));
    std::thread::scope(|s| {
        for _ in 0..workers {
            s.spawn(|| loop {
                let i = next.fetch_add(1, Ordering::Relaxed);
                if i >= n {
                    break;
                }
                let r = crate::catch(|| {
                    let mut sink = Sink::default();
                    f(&first[i], &mut sink);
                    sink
                });
                *slots[i].lock().unwrap() = Some(r);
            });
        }
    });
    let mut total = Sink::default();
    for (i, slot) in slots.into_iter().enumerate() {
        match slot.into_inner().unwrap() {
            Some(Ok(s)) => total.merge(s),
            Some(Err(p)) => rep.machinery(format!("{name}: harness panic in shard {i}: {p}")),
            None => rep.machinery(format!("{name}: shard {i} did not run")),
        }
    }
    rep.evaluations += total.evaluations;
    rep.distinct_nontrivial += total.nontrivial;
    // retain per key the first three in shard order
    let mut kept: BTreeMap<String, u64> = BTreeMap::new();
    for v in total.violations {
        let k = kept.entry(v.key.clone()).or_insert(0);
        *k += 1;
        if *k <= 3 {
            rep.violations.push(v);
        }
    }
    for (k, c) in &total.per_key {
        *rep.per_key.entry(k.clone()).or_insert(0) += *c;
    }
    if total.samples.is_empty() && total.evaluations > 0 {
        // no tuple was sampled by the checker: show the first and last values of the sharding coordinate
        // (every shard enumerates the full product of the remaining coordinates)
        for a in [first.first(), first.last()].into_iter().flatten() {
            let mut d = format!("{a:?}");
            d.truncate(300);
            total.samples.push(json!({ "first_coordinate": d, "note": "full product of the remaining coordinates enumerated under this value" }));
        }
    }
    for s in total.samples {
        rep.sample(json!({ "section": name, "case": s }));
    }
    rep.section(
        name,
        json!({
            "evaluations": total.evaluations,
            "distinct_nontrivial": total.nontrivial,
            "counters": total.counters,
            "violations": total.per_key,
        }),
    );
    total.counters
}
