//! Shared machinery of the model-checking harness: report/evidence data, the E1 product
//! enumerator, the E2 breadth-first history explorer, integer alphabets and big-integer
//! oracle helpers.
pub mod alpha;
pub mod big;
pub mod cli;
pub mod e1;
pub mod e2;
pub mod report;
pub mod selftest;

pub use cli::{Cli, Tier};
pub use report::{Report, Violation};
pub use serde_json::{json, Value};

use std::hash::{Hash, Hasher};

/// 128-bit state key built from two independently keyed SipHash runs.
pub fn hash128<T: Hash + ?Sized>(v: &T) -> u128 {
    #[allow(deprecated)]
    let mut a = std::hash::SipHasher::new_with_keys(0x6d63_2d63_6f72_6531, 0x0123_4567_89ab_cdef);
    #[allow(deprecated)]
    let mut b = std::hash::SipHasher::new_with_keys(0xfedc_ba98_7654_3210, 0x6d63_2d63_6f72_6532);
    v.hash(&mut a);
    v.hash(&mut b);
    ((a.finish() as u128) << 64) | b.finish() as u128
}

/// Number of worker threads.
pub fn workers() -> usize {
    std::env::var("MC_THREADS")
        .ok()
        .and_then(|s| s.parse().ok())
        .unwrap_or_else(|| std::thread::available_parallelism().map(|n| n.get()).unwrap_or(4))
        .max(1)
}

/// Redirect the process's stdout (fd 1) to /dev/null and return a writer on the original
/// stdout. Program code prints through `msg!` (println! on the host) and would otherwise
/// flood the log.
pub fn silence_stdout() -> std::fs::File {
    use std::os::fd::FromRawFd;
    unsafe {
        let saved = libc::dup(1);
        let devnull = libc::open(b"/dev/null\0".as_ptr() as *const libc::c_char, libc::O_WRONLY);
        libc::dup2(devnull, 1);
        libc::close(devnull);
        std::fs::File::from_raw_fd(saved)
    }
}

/// Run `f`, converting a panic into `Err(message)`.
pub fn catch<R>(f: impl FnOnce() -> R) -> Result<R, String> {
    std::panic::catch_unwind(std::panic::AssertUnwindSafe(f)).map_err(|p| {
        p.downcast_ref::<String>()
            .cloned()
            .or_else(|| p.downcast_ref::<&str>().map(|s| s.to_string()))
            .unwrap_or_else(|| "panic".to_string())
    })
}

/// Install a panic hook that prints nothing (subjects are expected to be probed for panics).
pub fn quiet_panics() {
    std::panic::set_hook(Box::new(|info| {
        // worker threads probe subjects for panics; only harness panics on the main thread are printed
        if std::thread::current().name() == Some("main") {
            eprintln!("harness panic: {info}");
        }
    }));
}
