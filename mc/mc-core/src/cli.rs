//! Command line shared by all checker binaries:
//! `<bin> <PROPERTY> [--tier quick|thorough] [--seed N] [--out report.json] [--replay file]`
use serde_json::Value;

#[derive(Clone, Copy, Debug, PartialEq, Eq)]
pub enum Tier {
    Quick,
    Thorough,
}

impl Tier {
    pub fn as_str(&self) -> &'static str {
        match self {
            Tier::Quick => "quick",
            Tier::Thorough => "thorough",
        }
    }
    pub fn thorough(&self) -> bool {
        *self == Tier::Thorough
    }
    /// pick by tier
    pub fn pick<T>(&self, quick: T, thorough: T) -> T {
        match self {
            Tier::Quick => quick,
            Tier::Thorough => thorough,
        }
    }
}

#[derive(Clone, Debug)]
pub struct Cli {
    pub property: String,
    pub tier: Tier,
    pub seed: u64,
    pub out: Option<String>,
    /// the `replay` value of a recorded violation
    pub replay: Option<Value>,
}

impl Cli {
    pub fn parse() -> Self {
        let mut args = std::env::args().skip(1);
        let property = args.next().expect("usage: <bin> <PROPERTY> [--tier t] [--seed n] [--out f] [--replay f]");
        let mut cli = Cli { property, tier: Tier::Quick, seed: 0, out: None, replay: None };
        while let Some(a) = args.next() {
            match a.as_str() {
                "--tier" => {
                    cli.tier = match args.next().as_deref() {
                        Some("thorough") => Tier::Thorough,
                        _ => Tier::Quick,
                    }
                }
                "--seed" => cli.seed = args.next().and_then(|s| s.parse().ok()).unwrap_or(0),
                "--out" => cli.out = args.next(),
                "--replay" => {
                    let p = args.next().expect("--replay <file>");
                    let text = std::fs::read_to_string(&p).expect("read replay file");
                    let v: Value = serde_json::from_str(&text).expect("replay file is JSON");
                    // accept either the bare replay value or the wrapper written by ./check
                    cli.replay = Some(v.get("replay").cloned().unwrap_or(v));
                }
                other => panic!("unknown argument {other}"),
            }
        }
        cli
    }

    /// Seed-derived extra values in `[lo, hi)`; deterministic per (seed, stream).
    pub fn extras(&self, stream: u64, n: usize, lo: u128, hi: u128) -> Vec<u128> {
        let mut x = self.seed.wrapping_mul(0x9e37_79b9_7f4a_7c15) ^ stream.wrapping_mul(0xbf58_476d_1ce4_e5b9) ^ 0x94d0_49bb_1331_11eb;
        let mut out = vec![];
        if hi <= lo {
            return out;
        }
        for _ in 0..n {
            // splitmix64 twice -> 128 bits
            let mut next = || {
                x = x.wrapping_add(0x9e37_79b9_7f4a_7c15);
                let mut z = x;
                z = (z ^ (z >> 30)).wrapping_mul(0xbf58_476d_1ce4_e5b9);
                z = (z ^ (z >> 27)).wrapping_mul(0x94d0_49bb_1331_11eb);
                z ^ (z >> 31)
            };
            let v = ((next() as u128) << 64) | next() as u128;
            out.push(lo + v % (hi - lo));
        }
        out
    }
}
