//! The report a checker binary writes; `/verif/check` turns it into the evidence file.
use serde_json::{json, Map, Value};
use std::collections::BTreeMap;
use std::time::Instant;

use crate::cli::Cli;

/// One violating case. `key` names the class (call site + input class) used to match
/// entries of `known_findings.json`; `replay` is whatever the checker needs to re-run it.
#[derive(Clone, Debug)]
pub struct Violation {
    pub key: String,
    pub detail: String,
    pub replay: Value,
}

impl Violation {
    pub fn new(key: impl Into<String>, detail: impl Into<String>, replay: Value) -> Self {
        Self { key: key.into(), detail: detail.into(), replay }
    }
}

pub struct Report {
    pub property: String,
    pub tier: String,
    pub seed: u64,
    /// `model_checking` (E2/E3) or `exploration` (E1).
    pub level: &'static str,
    pub evaluations: u64,
    pub distinct_nontrivial: u64,
    pub states: u64,
    pub transitions: u64,
    pub traces: u64,
    pub rule: String,
    pub samples: Vec<Value>,
    pub exhaustive: bool,
    pub extra: Map<String, Value>,
    pub assumptions: Vec<String>,
    /// first few violations per key
    pub violations: Vec<Violation>,
    pub per_key: BTreeMap<String, u64>,
    pub machinery_error: Option<String>,
    pub sections: Vec<Value>,
    start: Instant,
}

const KEEP_PER_KEY: u64 = 3;

impl Report {
    pub fn new(cli: &Cli, level: &'static str) -> Self {
        Self {
            property: cli.property.clone(),
            tier: cli.tier.as_str().to_string(),
            seed: cli.seed,
            level,
            evaluations: 0,
            distinct_nontrivial: 0,
            states: 0,
            transitions: 0,
            traces: 0,
            rule: String::new(),
            samples: vec![],
            exhaustive: true,
            extra: Map::new(),
            assumptions: vec![],
            violations: vec![],
            per_key: BTreeMap::new(),
            machinery_error: None,
            sections: vec![],
            start: Instant::now(),
        }
    }

    pub fn violation(&mut self, v: Violation) {
        let n = self.per_key.entry(v.key.clone()).or_insert(0);
        *n += 1;
        if *n <= KEEP_PER_KEY {
            self.violations.push(v);
        }
    }

    pub fn violations_total(&self) -> u64 {
        self.per_key.values().sum()
    }

    pub fn sample(&mut self, v: Value) {
        if self.samples.len() < 12 {
            self.samples.push(v);
        }
    }

    pub fn rule(&mut self, s: &str) {
        if !self.rule.is_empty() {
            self.rule.push_str(" | ");
        }
        self.rule.push_str(s);
    }

    pub fn assume(&mut self, s: &str) {
        self.assumptions.push(s.to_string());
    }

    /// Record a named sub-exploration (its own counts are kept under `sections`).
    pub fn section(&mut self, name: &str, v: Value) {
        self.sections.push(json!({ "name": name, "coverage": v }));
    }

    pub fn machinery(&mut self, msg: impl Into<String>) {
        let m = msg.into();
        if self.machinery_error.is_none() {
            self.machinery_error = Some(m);
        }
        self.exhaustive = false;
    }

    pub fn to_json(&self) -> Value {
        let mut cov = Map::new();
        cov.insert("evaluations".into(), json!(self.evaluations));
        cov.insert("distinct_nontrivial".into(), json!(self.distinct_nontrivial));
        cov.insert("rule".into(), json!(self.rule));
        cov.insert("samples".into(), json!(self.samples));
        cov.insert("exhaustive".into(), json!(self.exhaustive && self.machinery_error.is_none()));
        if self.level == "model_checking" {
            cov.insert("states".into(), json!(self.states));
            cov.insert("transitions".into(), json!(self.transitions));
            cov.insert("traces_validated_against_impl".into(), json!(self.traces));
        }
        if !self.sections.is_empty() {
            cov.insert("sections".into(), json!(self.sections));
        }
        for (k, v) in &self.extra {
            cov.insert(k.clone(), v.clone());
        }
        json!({
            "property_id": self.property,
            "tier": self.tier,
            "seed": self.seed,
            "level": self.level,
            "coverage": Value::Object(cov),
            "assumptions": self.assumptions,
            "wall_s": self.start.elapsed().as_secs_f64(),
            "violations": self.violations_total(),
            "violation_classes": self.per_key,
            "violation_cases": self.violations.iter().map(|v| json!({"key": v.key, "detail": v.detail, "replay": v.replay})).collect::<Vec<_>>(),
            "machinery_error": self.machinery_error,
        })
    }

    /// Write the report to the path given on the command line and return the process exit code
    /// (0 nothing found, 1 violations, 2 machinery error). The driver re-classifies violations
    /// against the known-findings file.
    pub fn finish(self, cli: &Cli) -> i32 {
        let v = self.to_json();
        let text = serde_json::to_string_pretty(&v).unwrap();
        if let Some(p) = &cli.out {
            std::fs::write(p, text).expect("write report");
        } else {
            eprintln!("{text}");
        }
        if self.machinery_error.is_some() {
            2
        } else if self.violations_total() > 0 {
            1
        } else {
            0
        }
    }
}
