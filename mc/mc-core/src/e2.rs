//! E2 — explicit-state breadth-first exploration of a `Machine` whose transitions execute
//! the real implementation. Layers are expanded in parallel and merged in frontier order, so
//! the numbers of states/transitions and the retained counter-examples are reproducible.
//! Counter-examples are shortest by construction (BFS) and are reported as the list of
//! action indices from a start state, which `replay` re-executes without the explorer.
use serde_json::{json, Value};
use std::collections::{BTreeMap, HashSet};

use crate::report::{Report, Violation};

/// What one transition produced besides the successor state.
#[derive(Default)]
pub struct StepOut {
    /// outcome label for the per-action histogram ("ok", "err", "noop", ...)
    pub label: &'static str,
    /// (key, detail) of every property violation observed on this transition
    pub violations: Vec<(String, String)>,
    /// do not expand the successor (e.g. absorbing or out-of-scope states)
    pub prune: bool,
    /// cases evaluated by per-state probes run inside this transition (E1 over reachable states)
    pub probe_cases: u64,
    /// of which non-trivial by the checker's rule
    pub probe_nontrivial: u64,
    /// named counters (probe outcome classes)
    pub counters: Vec<(&'static str, u64)>,
}

impl StepOut {
    pub fn fail(&mut self, key: &str, detail: String) {
        self.violations.push((key.to_string(), detail));
    }
    pub fn count(&mut self, name: &'static str, n: u64) {
        if let Some(e) = self.counters.iter_mut().find(|e| e.0 == name) {
            e.1 += n;
        } else {
            self.counters.push((name, n));
        }
    }
}

pub trait Machine: Sync {
    type State: Clone + Send + Sync;
    type Action: Clone + Send + Sync + std::fmt::Debug;
    fn actions(&self) -> &[Self::Action];
    /// canonical 128-bit key; two states are merged iff their keys are equal
    fn key(&self, s: &Self::State) -> u128;
    fn step(&self, s: &Self::State, a: &Self::Action, out: &mut StepOut) -> Self::State;
    /// invariant evaluated on start states (successors are checked inside `step`)
    fn check_start(&self, _s: &Self::State, _out: &mut StepOut) {}
    fn action_name(&self, a: &Self::Action) -> String {
        let d = format!("{a:?}");
        d.split(|c| c == '(' || c == '{' || c == ' ').next().unwrap_or("").to_string()
    }
}

pub struct Config {
    pub depth: usize,
    /// hard cap on stored states; hitting it is a machinery error, not a verdict
    pub max_states: usize,
}

pub struct Outcome {
    pub states: u64,
    pub transitions: u64,
    pub depth_completed: usize,
    pub per_layer: Vec<u64>,
    pub histogram: BTreeMap<String, u64>,
    pub probe_cases: u64,
    pub probe_nontrivial: u64,
    pub counters: BTreeMap<String, u64>,
}

struct Cand<S> {
    key: u128,
    state: S,
    parent: u32,
    action: u16,
}

struct ChunkOut<S> {
    cands: Vec<Cand<S>>,
    transitions: u64,
    hist: BTreeMap<(u16, &'static str), u64>,
    viols: Vec<(u32, u16, String, String)>,
    probe_cases: u64,
    probe_nontrivial: u64,
    counters: BTreeMap<&'static str, u64>,
}

fn path_of(parents: &[(u32, u16)], mut id: u32) -> (usize, Vec<u16>) {
    let mut p = vec![];
    while parents[id as usize].0 != u32::MAX {
        p.push(parents[id as usize].1);
        id = parents[id as usize].0;
    }
    p.reverse();
    (parents[id as usize].1 as usize, p)
}

/// Explore from `starts` to `cfg.depth`, folding counts and violations into `rep` under
/// section `name`. `replay_ctx` is copied into every replay value (e.g. the configuration id)
/// so that `replay` can rebuild the same machine.
pub fn explore<M: Machine>(rep: &mut Report, name: &str, m: &M, starts: Vec<M::State>, cfg: &Config, replay_ctx: Value) -> Outcome {
    let acts = m.actions();
    assert!(acts.len() < u16::MAX as usize);
    let mut seen: HashSet<u128> = HashSet::new();
    // parents[id] = (parent id, action idx); for a start state (u32::MAX, start idx)
    let mut parents: Vec<(u32, u16)> = vec![];
    let mut frontier: Vec<(u32, M::State)> = vec![];
    let mut hist: BTreeMap<(u16, &'static str), u64> = BTreeMap::new();
    let mut transitions = 0u64;
    let (mut probe_cases, mut probe_nontrivial) = (0u64, 0u64);
    let mut counters: BTreeMap<String, u64> = BTreeMap::new();
    let mut per_layer = vec![];
    let mut kept: BTreeMap<String, u64> = BTreeMap::new();
    let mut record = |rep: &mut Report, parents: &[(u32, u16)], parent: u32, action: Option<u16>, key: String, detail: String| {
        *rep.per_key.entry(key.clone()).or_insert(0) += 1;
        let k = kept.entry(key.clone()).or_insert(0);
        *k += 1;
        if *k <= 3 {
            let (start, mut path) = path_of(parents, parent);
            if let Some(a) = action {
                path.push(a);
            }
            let described: Vec<String> = path.iter().map(|i| format!("{:?}", acts[*i as usize])).collect();
            rep.violations.push(Violation::new(
                key,
                format!("{detail} | start {start} path {described:?}"),
                json!({ "section": name, "ctx": replay_ctx, "start": start, "path": path }),
            ));
        }
    };
    for (i, s) in starts.into_iter().enumerate() {
        let k = m.key(&s);
        if seen.insert(k) {
            let id = parents.len() as u32;
            parents.push((u32::MAX, i as u16));
            let mut out = StepOut::default();
            m.check_start(&s, &mut out);
            for (key, detail) in out.violations {
                record(rep, &parents, id, None, key, detail);
            }
            frontier.push((id, s));
        }
    }
    per_layer.push(frontier.len() as u64);
    let mut depth_completed = 0;
    let mut capped = false;
    for _layer in 0..cfg.depth {
        if frontier.is_empty() {
            break;
        }
        let workers = crate::workers();
        let chunk = (frontier.len() + workers * 4 - 1) / (workers * 4);
        let chunks: Vec<&[(u32, M::State)]> = frontier.chunks(chunk.max(1)).collect();
        let seen_ref = &seen;
        let results: Vec<Result<ChunkOut<M::State>, String>> = par_map(&chunks, |c| {
            let mut o = ChunkOut { cands: vec![], transitions: 0, hist: BTreeMap::new(), viols: vec![], probe_cases: 0, probe_nontrivial: 0, counters: BTreeMap::new() };
            let mut local: HashSet<u128> = HashSet::new();
            for (id, s) in c.iter() {
                for (ai, a) in acts.iter().enumerate() {
                    let mut out = StepOut::default();
                    let n = m.step(s, a, &mut out);
                    o.transitions += 1;
                    *o.hist.entry((ai as u16, out.label)).or_insert(0) += 1;
                    o.probe_cases += out.probe_cases;
                    o.probe_nontrivial += out.probe_nontrivial;
                    for (k, n) in out.counters.drain(..) {
                        *o.counters.entry(k).or_insert(0) += n;
                    }
                    for (key, detail) in out.violations.drain(..) {
                        o.viols.push((*id, ai as u16, key, detail));
                    }
                    if out.prune {
                        continue;
                    }
                    let k = m.key(&n);
                    if !seen_ref.contains(&k) && local.insert(k) {
                        o.cands.push(Cand { key: k, state: n, parent: *id, action: ai as u16 });
                    }
                }
            }
            o
        });
        let mut next: Vec<(u32, M::State)> = vec![];
        for r in results {
            match r {
                Ok(o) => {
                    transitions += o.transitions;
                    probe_cases += o.probe_cases;
                    probe_nontrivial += o.probe_nontrivial;
                    for (k, n) in o.counters {
                        *counters.entry(k.to_string()).or_insert(0) += n;
                    }
                    for (k, v) in o.hist {
                        *hist.entry(k).or_insert(0) += v;
                    }
                    for (p, a, key, detail) in o.viols {
                        record(rep, &parents, p, Some(a), key, detail);
                    }
                    for c in o.cands {
                        if seen.insert(c.key) {
                            if parents.len() >= cfg.max_states {
                                capped = true;
                                continue;
                            }
                            let id = parents.len() as u32;
                            parents.push((c.parent, c.action));
                            next.push((id, c.state));
                        }
                    }
                }
                Err(p) => rep.machinery(format!("{name}: harness panic during expansion: {p}")),
            }
        }
        if capped {
            rep.machinery(format!("{name}: state cap {} reached at depth {}", cfg.max_states, depth_completed + 1));
            break;
        }
        depth_completed += 1;
        per_layer.push(next.len() as u64);
        frontier = next;
    }
    let states = parents.len() as u64;
    rep.states += states;
    rep.transitions += transitions;
    rep.traces += transitions;
    rep.evaluations += transitions + probe_cases;
    rep.distinct_nontrivial += states + probe_nontrivial;
    let mut histogram = BTreeMap::new();
    for ((ai, label), n) in &hist {
        *histogram.entry(format!("{}:{}", m.action_name(&acts[*ai as usize]), label)).or_insert(0) += *n;
    }
    // shortest and longest sample paths
    if !parents.is_empty() {
        for id in [parents.len().min(2) - 1, parents.len() - 1] {
            let (start, path) = path_of(&parents, id as u32);
            let described: Vec<String> = path.iter().map(|i| format!("{:?}", acts[*i as usize])).collect();
            rep.sample(json!({ "section": name, "start": start, "path": described }));
        }
    }
    rep.section(
        name,
        json!({
            "states": states, "transitions": transitions, "depth": depth_completed, "states_per_layer": per_layer,
            "actions": acts.len(), "outcomes": histogram,
            "probe_cases": probe_cases, "probe_nontrivial": probe_nontrivial, "counters": counters,
        }),
    );
    Outcome { states, transitions, depth_completed, per_layer, histogram, probe_cases, probe_nontrivial, counters }
}

/// Re-execute a recorded path; returns the violations (key, detail) seen along it.
pub fn replay<M: Machine>(m: &M, starts: &[M::State], replay: &Value) -> Vec<(String, String)> {
    let start = replay["start"].as_u64().unwrap_or(0) as usize;
    let path: Vec<usize> = replay["path"].as_array().map(|a| a.iter().map(|v| v.as_u64().unwrap() as usize).collect()).unwrap_or_default();
    let mut s = starts[start].clone();
    let mut all = vec![];
    let mut out = StepOut::default();
    m.check_start(&s, &mut out);
    all.extend(out.violations);
    for ai in path {
        let mut out = StepOut::default();
        s = m.step(&s, &m.actions()[ai], &mut out);
        all.extend(out.violations);
    }
    all
}

/// Standard replay driver: run the path twice, require identical observations, fold into `rep`.
pub fn replay_into<M: Machine>(rep: &mut Report, m: &M, starts: &[M::State], rv: &Value) {
    let a = replay(m, starts, rv);
    let b = replay(m, starts, rv);
    if a != b {
        rep.machinery("replay is not deterministic: two runs of the same path disagree");
    }
    rep.states += 1;
    rep.transitions += rv["path"].as_array().map(|p| p.len() as u64).unwrap_or(0).max(1);
    rep.traces += 1;
    rep.evaluations += 1;
    rep.distinct_nontrivial += 2;
    rep.sample(rv.clone());
    for (k, d) in a {
        rep.violation(Violation::new(k, d, rv.clone()));
    }
}

pub fn par_map<T: Sync, R: Send>(items: &[T], f: impl Fn(&T) -> R + Sync) -> Vec<Result<R, String>> {
    use std::sync::atomic::{AtomicUsize, Ordering};
    use std::sync::Mutex;
    let n = items.len();
    let slots: Vec<Mutex<Option<Result<R, String>>>> = (0..n).map(|_| Mutex::new(None)).collect();
    let next = AtomicUsize::new(0);
    let workers = crate::workers().min(n.max(1));
    std::thread::scope(|s| {
        for _ in 0..workers {
            s.spawn(|| loop {
                let i = next.fetch_add(1, Ordering::Relaxed);
                if i >= n {
                    break;
                }
                let r = crate::catch(|| f(&items[i]));
                *slots[i].lock().unwrap() = Some(r);
            });
        }
    });
    slots.into_iter().map(|s| s.into_inner().unwrap().unwrap_or_else(|| Err("not run".into()))).collect()
}
