//! C40 — the SDK market model agrees with the on-chain program (E1 differential on identical
//! account bytes: layouts, every accessor, swap / fee-state execution, deposit and withdrawal
//! instructions against the SDK simulation).
use std::sync::Arc;

use anchor_lang::prelude::*;
use gmsol_model::{
    price::{Price, Prices},
    BaseMarketMut, BorrowingFeeMarketMutExt, LiquidityMarketMutExt, MarketAction, PerpMarketMutExt, PositionImpactMarketMutExt, SwapMarketMutExt,
};
use gmsol_programs::gmsol_store::accounts as sdk;
use gmsol_programs::model::MarketModel;
use gmsol_store::states as prog;
use gmsol_store::states::Market;
use mc_core::{e1, json, Cli, Report};

use crate::cfgkeys::all_params;
use crate::svm::Db;
use crate::world::{self, ata, token_amount, MarketKeys, W};

fn sdk_market(bytes: &[u8]) -> sdk::Market {
    bytemuck::pod_read_unaligned(&bytes[8..8 + std::mem::size_of::<sdk::Market>()])
}

pub(crate) fn model_of(db: &Db, m: &MarketKeys) -> MarketModel {
    let acc = db.get(&m.market);
    MarketModel::from_parts(Arc::new(sdk_market(&acc.data)), world::mint_supply(db, &m.market_token))
}

pub(crate) fn set_now(ts: i64) {
    W::set_time(ts);
    gmsol_programs::model::clock_verif::set_now(Some(ts));
}

fn layouts(rep: &mut Report) {
    macro_rules! sizes {
        ($($name:ident),*) => { vec![$((stringify!($name), std::mem::size_of::<prog::$name>(), std::mem::size_of::<sdk::$name>())),*] };
    }
    let pairs: Vec<(&str, usize, usize)> = sizes!(Market, Store, Position, Order, Deposit, Withdrawal, Shift, Glv, GlvDeposit, GlvWithdrawal, GlvShift, UserHeader, Oracle, PriceFeed, TokenMapHeader);
    let mut extra: Vec<(&str, usize, usize)> = vec![
        ("ReferralCodeV2", std::mem::size_of::<prog::user::ReferralCodeV2>(), std::mem::size_of::<sdk::ReferralCodeV2>()),
        ("GtExchange", std::mem::size_of::<prog::gt::GtExchange>(), std::mem::size_of::<sdk::GtExchange>()),
        ("GtExchangeVault", std::mem::size_of::<prog::gt::GtExchangeVault>(), std::mem::size_of::<sdk::GtExchangeVault>()),
    ];
    extra.extend(pairs);
    e1::run(rep, "declared account layouts: sizes", &extra, |(name, p, s), sink| {
        sink.case(true);
        if p != s {
            sink.fail("C40/layout_size_differs", format!("{name}: program {p} bytes, SDK {s} bytes"), json!({"account": name}));
        }
    });
}

/// every accessor of both views on the same bytes
fn compare_views(bytes: &[u8], supply: u64, what: &str, sink: &mut e1::Sink) {
    let p: Market = bytemuck::pod_read_unaligned(&bytes[8..8 + std::mem::size_of::<Market>()]);
    let s = MarketModel::from_parts(Arc::new(sdk_market(bytes)), supply);
    let (pv, sv) = (all_params(&p), all_params(&s));
    sink.case(true);
    for ((n, a), (_, b)) in pv.iter().zip(sv.iter()) {
        if a != b {
            sink.fail("C40/accessor_differs", format!("{what}: {n}: program {a:?}, SDK {b:?}"), json!({"what": what, "accessor": n}));
        }
    }
    // flags and meta
    let checks: Vec<(&str, bool, bool)> = vec![("is_pure", p.is_pure(), s.is_pure())];
    for (n, a, b) in checks {
        if a != b {
            sink.fail("C40/flag_differs", format!("{what}: {n}: program {a}, SDK {b}"), json!({"what": what, "flag": n}));
        }
    }
    let (pm, sm) = (p.meta(), &s.meta);
    if pm.market_token_mint != sm.market_token_mint || pm.index_token_mint != sm.index_token_mint || pm.long_token_mint != sm.long_token_mint || pm.short_token_mint != sm.short_token_mint {
        sink.fail("C40/meta_differs", format!("{what}: token mints differ"), json!({"what": what}));
    }
}

/// a family of market account contents: real markets from the world, every config key populated,
/// closed / closed-params flags, pools populated through a real RevertibleMarket, a pure market
fn family(w: &W, db: &Db) -> Vec<(String, Vec<u8>, u64)> {
    use gmsol_model::{Bank as _, PerpMarketMut as _, Pool as _};
    use strum::IntoEnumIterator;
    let mut out = vec![];
    let supply = world::mint_supply(db, &w.m1.market_token);
    let base = db.get(&w.m1.market).data;
    out.push(("seeded market".to_string(), base.clone(), supply));
    out.push(("second market".to_string(), db.get(&w.m2.market).data, world::mint_supply(db, &w.m2.market_token)));
    let edit = |f: &dyn Fn(&mut Market)| -> Vec<u8> {
        let mut m: Market = bytemuck::pod_read_unaligned(&base[8..8 + std::mem::size_of::<Market>()]);
        f(&mut m);
        let mut b = base.clone();
        b[8..8 + std::mem::size_of::<Market>()].copy_from_slice(bytemuck::bytes_of(&m));
        b
    };
    let populate = |m: &mut Market| {
        for (i, k) in prog::market::config::MarketConfigKey::iter().enumerate() {
            if let Ok(v) = m.get_config_mut(&k.to_string()) {
                *v = 1_000_003 + 7 * i as u128;
            }
        }
    };
    out.push(("all keys populated".into(), edit(&|m| populate(m)), supply));
    for closed in [false, true] {
        for params in [false, true] {
            for (fi, flag) in prog::market::config::MarketConfigFlag::iter().enumerate() {
                out.push((
                    format!("populated, closed {closed}, closed params {params}, flag {flag} set"),
                    edit(&|m| {
                        populate(m);
                        m.set_flag(gmsol_utils::market::MarketFlag::Closed, closed);
                        let _ = m.set_config_flag("enable_market_closed_params", params);
                        let _ = m.set_config_flag(&flag.to_string(), true);
                        let _ = fi;
                    }),
                    supply,
                ));
            }
        }
    }
    // every key in turn written with 0 ("unset": several parameters fall back to another key), 1 and MAX on the populated
    // base, for open / closed markets with and without the closed-market parameter set
    for closed in [false, true] {
        for params in [false, true] {
            for (ki, key) in prog::market::config::MarketConfigKey::iter().enumerate() {
                for (vi, value) in [0u128, 1, u128::MAX].into_iter().enumerate() {
                    // MAX only for the closed-parameter market (keeps the quick tier small)
                    if vi == 2 && !(closed && params) {
                        continue;
                    }
                    out.push((
                        format!("populated, closed {closed}, closed params {params}, key {key} = {value}"),
                        edit(&|m| {
                            populate(m);
                            m.set_flag(gmsol_utils::market::MarketFlag::Closed, closed);
                            let _ = m.set_config_flag("enable_market_closed_params", params);
                            if let Ok(v) = m.get_config_mut(&key.to_string()) {
                                *v = value;
                            }
                            let _ = ki;
                        }),
                        supply,
                    ));
                }
            }
        }
    }
    // pools populated with distinct values through the revertible market
    let mut d2 = db.clone();
    w.edit_market(&mut d2, &w.m1, |rm| {
        let mut k: i128 = 11;
        macro_rules! bump {
            ($p:expr) => {{ let p = $p.unwrap(); k += 13; p.apply_delta_to_long_amount(&k).unwrap(); k += 13; p.apply_delta_to_short_amount(&k).unwrap(); }};
        }
        use gmsol_model::{BaseMarketMut as _, BorrowingFeeMarketMut as _, PositionImpactMarketMut as _, SwapMarketMut as _};
        bump!(rm.liquidity_pool_mut());
        bump!(rm.claimable_fee_pool_mut());
        bump!(rm.swap_impact_pool_mut());
        bump!(rm.open_interest_pool_mut(true));
        bump!(rm.open_interest_pool_mut(false));
        bump!(rm.open_interest_in_tokens_pool_mut(true));
        bump!(rm.open_interest_in_tokens_pool_mut(false));
        bump!(rm.position_impact_pool_mut());
        bump!(rm.borrowing_factor_pool_mut());
        bump!(rm.funding_amount_per_size_pool_mut(true));
        bump!(rm.funding_amount_per_size_pool_mut(false));
        bump!(rm.claimable_funding_amount_per_size_pool_mut(true));
        bump!(rm.claimable_funding_amount_per_size_pool_mut(false));
        bump!(rm.collateral_sum_pool_mut(true));
        bump!(rm.collateral_sum_pool_mut(false));
        bump!(rm.total_borrowing_pool_mut());
        *rm.funding_factor_per_second_mut() = -12345;
        rm.record_transferred_in_by_token(&w.a, &77).unwrap();
    });
    out.push(("all pools populated".into(), d2.get(&w.m1.market).data, supply));
    // a pure market (long token == short token), fabricated with the public init
    let mut pure: Box<Market> = Box::new(Market::default());
    pure.init(254, w.store, "pure", w.m1.market_token, w.a, w.a, w.a, true).expect("pure market init");
    let mut pb = base.clone();
    pb[8..8 + std::mem::size_of::<Market>()].copy_from_slice(bytemuck::bytes_of(&*pure));
    out.push(("pure market".into(), pb, 0));
    out
}

fn unit_prices(w: &W, db: &Db) -> Prices<u128> {
    // the prices the program derives from the custom feeds: Decimal::try_from_price with the token config (6 decimals, precision 4)
    let get = |feed: &Pubkey| -> Price<u128> {
        let f: prog::PriceFeed = db.pod(feed).expect("feed");
        let p = f.price();
        let conv = |v: u128| gmsol_utils::price::Decimal::try_from_price(v, 8, 6, 4).expect("price").to_unit_price();
        Price { min: conv(*p.min_price()), max: conv(*p.max_price()) }
    };
    let (a, b) = (get(&w.feed_a), get(&w.feed_b));
    Prices { index_token_price: a, long_token_price: a, short_token_price: b }
}

pub fn run(cli: &Cli) -> Report {
    let mut rep = Report::new(cli, "exploration");
    rep.rule("E1 differential on identical account bytes: (a) sizes of every zero-copy account type declared for the SDK against the program's; (b) every model accessor (all config keys through their named parameters, flags, every pool side, balances, clocks-independent state) of the program Market and of the SDK MarketModel over a family of market contents (real markets, all keys populated, closed x closed-params x every config flag, all pools populated through a real RevertibleMarket, a pure market); (c) swaps (both directions x amounts) and fee-state updates executed on a real RevertibleMarket and on the SDK model with the same stubbed time (at, after and before the clocks stored in the market), comparing reports, the resulting views and the clocks; (d) real create/execute deposit and withdrawal instructions against the SDK's simulated deposit/withdrawal: minted/paid amounts and resulting market views; non-trivial = both sides produced a result that was compared");
    rep.assume("position increase/decrease differential needs the program's revertible position (not hooked) and is not covered; the order fee discount comparison is C31");
    if let Some(rv) = &cli.replay {
        rep.sample(json!({"note": "closed-form case: re-run the quick tier", "case": rv}));
        rep.evaluations = 1;
        return rep;
    }
    let th = cli.tier.thorough();
    let (mut db, w) = world::build();
    set_now(1_000);
    let seed = [9u8; 32];
    for m in [w.m1.clone(), w.m2.clone()] {
        w.create_deposit(&mut db, &m, w.user2, seed, 5_000_000, 60_000_000, 0, w.user2).expect("seed create");
        w.execute_deposit(&mut db, &m, w.user2, seed, w.keeper, true).expect("seed execute");
        w.close_deposit(&mut db, &m, w.user2, seed, w.user2).expect("seed close");
    }
    layouts(&mut rep);
    let fam = family(&w, &db);
    e1::run(&mut rep, "accessors on identical bytes", &fam, |(name, bytes, supply), sink| compare_views(bytes, *supply, name, sink));

    // (c) swaps and fee-state updates on RevertibleMarket vs MarketModel
    let prices = unit_prices(&w, &db);
    let mut amounts: Vec<u64> = vec![0, 1, 1_000, 123_457, 1_000_000, 4_999_999, 50_000_000, u64::MAX];
    if th {
        amounts.extend((1..40).map(|k| k * 77_773));
    }
    // (a negative offset = the observer's time is behind the clocks stored in the market: nothing has passed and the clocks stay)
    let variants: Vec<(bool, i64)> = vec![(true, 0), (false, 0), (true, 3_600), (false, 86_400), (true, -5), (false, -400)];
    e1::run(&mut rep, "swap and fee-state differential", &variants, |&(long_in, dt), sink| {
        for &amount in &amounts {
            let mut d = db.clone();
            set_now(1_000 + dt);
            let mut model = model_of(&d, &w.m1);
            // SDK side
            let sdk_res = mc_core::catch(|| -> std::result::Result<(u128, u128), String> {
                // (the SDK model has no borrowing-state update; the funding update and impact distribution are shared)
                model.distribute_position_impact().and_then(|a| a.execute()).map_err(|e| e.to_string())?;
                model.update_funding(&prices).and_then(|a| a.execute()).map_err(|e| e.to_string())?;
                let r = model.swap(long_in, amount as u128, prices).and_then(|a| a.execute()).map_err(|e| e.to_string())?;
                Ok((*r.token_out_amount(), *r.price_impact_amount()))
            });
            // program side
            let mut prog_res: Option<std::result::Result<(u128, u128), String>> = None;
            w.edit_market(&mut d, &w.m1, |rm| {
                prog_res = Some((|| {
                    rm.distribute_position_impact().and_then(|a| a.execute()).map_err(|e| e.to_string())?;
                    rm.update_funding(&prices).and_then(|a| a.execute()).map_err(|e| e.to_string())?;
                    let r = rm.swap(long_in, amount as u128, prices).and_then(|a| a.execute()).map_err(|e| e.to_string())?;
                    Ok((*r.token_out_amount(), *r.price_impact_amount()))
                })());
            });
            let rp = || json!({"long_in": long_in, "amount": amount, "dt": dt});
            let (Ok(s), Some(p)) = (sdk_res, prog_res) else {
                sink.case(false);
                sink.fail("C40/panic", "the SDK simulation panicked".into(), rp());
                continue;
            };
            sink.case(s.is_ok() && p.is_ok());
            match (&p, &s) {
                (Ok(a), Ok(b)) if a == b => {
                    // resulting state: the program view of the committed account vs the SDK model
                    let after: Market = w.market(&d, &w.m1);
                    let (pv, sv) = (all_params(&after), all_params(&model));
                    for ((n, x), (_, y)) in pv.iter().zip(sv.iter()) {
                        if x != y {
                            sink.fail("C40/state_after_execution_differs", format!("swap(long_in {long_in}, {amount}) after {dt}s: {n}: program {x:?}, SDK {y:?}"), rp());
                        }
                    }
                    // the clocks both sides advanced (impact distribution and funding; the SDK model has no borrowing update)
                    let pc = [after.clock(gmsol_model::ClockKind::PriceImpactDistribution), after.clock(gmsol_model::ClockKind::Funding)];
                    let sc = [Some(model.state.clocks.price_impact_distribution), Some(model.state.clocks.funding)];
                    if pc != sc {
                        sink.fail("C40/state_after_execution_differs", format!("swap(long_in {long_in}, {amount}) after {dt}s: clocks (impact distribution, funding): program {pc:?}, SDK {sc:?}"), rp());
                    }
                }
                (Err(_), Err(_)) => {}
                _ => sink.fail("C40/execution_result_differs", format!("swap(long_in {long_in}, {amount}) after {dt}s: program {p:?}, SDK {s:?}"), rp()),
            }
        }
    });

    // (d) deposit / withdrawal instructions vs SDK simulation
    let deposits: Vec<(u64, u64)> = if th { vec![(1_000_000, 0), (0, 12_000_000), (1, 1), (777_777, 3_333_333), (50_000_000, 1), (0, 1), (123, 45_678_901)] } else { vec![(1_000_000, 0), (0, 12_000_000), (777_777, 3_333_333), (1, 1)] };
    e1::run(&mut rep, "deposit and withdrawal instructions vs SDK simulation", &deposits, |&(la, sa), sink| {
        let mut d = db.clone();
        set_now(1_000);
        let n = [3u8; 32];
        let rp = || json!({"long": la, "short": sa});
        let mut model = model_of(&d, &w.m1);
        let sim = mc_core::catch(|| model.deposit(la as u128, sa as u128, prices).and_then(|a| a.execute()).map(|r| *r.minted()).map_err(|e| e.to_string()));
        if w.create_deposit(&mut d, &w.m1, w.user, n, la, sa, 0, w.user).is_err() {
            sink.case(false);
            return;
        }
        let executed = w.execute_deposit(&mut d, &w.m1, w.user, n, w.keeper, true);
        let minted = token_amount(&d, &ata(&w.deposit_pda(&w.user, &n), &w.m1.market_token));
        sink.case(executed.is_ok());
        match (executed.is_ok(), sim) {
            (true, Ok(Ok(m))) => {
                if m != minted as u128 {
                    sink.fail("C40/execution_result_differs", format!("deposit ({la},{sa}): program minted {minted}, SDK simulated {m}"), rp());
                }
                let after: Market = w.market(&d, &w.m1);
                for ((name, x), (_, y)) in all_params(&after).iter().zip(all_params(&model).iter()) {
                    if x != y {
                        sink.fail("C40/state_after_execution_differs", format!("deposit ({la},{sa}): {name}: program {x:?}, SDK {y:?}"), rp());
                    }
                }
            }
            (false, Ok(Err(_))) => {}
            (p, s) => sink.fail("C40/execution_result_differs", format!("deposit ({la},{sa}): program ok={p}, SDK {s:?}"), rp()),
        }
        // withdraw half of what the user now holds
        if executed.is_ok() {
            let _ = w.close_deposit(&mut d, &w.m1, w.user, n, w.user);
            let gm = token_amount(&d, &ata(&w.user, &w.m1.market_token));
            let amount = gm / 2;
            if amount == 0 {
                return;
            }
            let mut model = model_of(&d, &w.m1);
            let sim = mc_core::catch(|| model.withdraw(amount as u128, prices).and_then(|a| a.execute()).map(|r| (*r.long_token_output(), *r.short_token_output())).map_err(|e| e.to_string()));
            if w.create_withdrawal(&mut d, &w.m1, w.user, n, amount, 0, 0, w.user).is_err() {
                return;
            }
            let r = w.execute_withdrawal(&mut d, &w.m1, w.user, n, w.keeper, true);
            let acc = w.withdrawal_pda(&w.user, &n);
            let out = (token_amount(&d, &ata(&acc, &w.a)) as u128, token_amount(&d, &ata(&acc, &w.b)) as u128);
            sink.case(r.is_ok());
            match (r.is_ok(), sim) {
                (true, Ok(Ok(s))) => {
                    if s != out {
                        sink.fail("C40/execution_result_differs", format!("withdrawal of {amount}: program paid {out:?}, SDK simulated {s:?}"), rp());
                    }
                    let after: Market = w.market(&d, &w.m1);
                    for ((name, x), (_, y)) in all_params(&after).iter().zip(all_params(&model).iter()) {
                        if x != y {
                            sink.fail("C40/state_after_execution_differs", format!("withdrawal of {amount}: {name}: program {x:?}, SDK {y:?}"), rp());
                        }
                    }
                }
                (false, Ok(Err(_))) => {}
                (p, s) => sink.fail("C40/execution_result_differs", format!("withdrawal of {amount}: program ok={p}, SDK {s:?}"), rp()),
            }
        }
    });
    positions(&mut rep, &db, &w, th);
    gmsol_programs::model::clock_verif::set_now(None);
    rep
}

/// the fields of a position state that the model owns (timestamps, slots and trade ids are set by the program around it)
fn pos_fields(s: &sdk_types::PositionState) -> [(&'static str, u128); 7] {
    [
        ("size_in_usd", s.size_in_usd),
        ("size_in_tokens", s.size_in_tokens),
        ("collateral_amount", s.collateral_amount),
        ("borrowing_factor", s.borrowing_factor),
        ("funding_fee_amount_per_size", s.funding_fee_amount_per_size),
        ("long_token_claimable_funding_amount_per_size", s.long_token_claimable_funding_amount_per_size),
        ("short_token_claimable_funding_amount_per_size", s.short_token_claimable_funding_amount_per_size),
    ]
}

use gmsol_programs::gmsol_store::types as sdk_types;

/// (e) position increase / decrease through the real order instructions against the SDK `PositionModel`
fn positions(rep: &mut Report, db0: &Db, w: &W, th: bool) {
    use crate::orders::Side;
    use gmsol_model::action::decrease_position::{DecreasePositionFlags, DecreasePositionSwapType};
    use gmsol_model::PositionMutExt;
    use gmsol_programs::model::PositionModel;
    use gmsol_store::events::TradeData;
    let mut db = db0.clone();
    set_now(1_000);
    // a pure market (both sides in token B) beside the A/B market; liquidity, user and keeper preparation
    let pure = w.add_market(&mut db, w.a, w.b, w.b, "A/USD[B-B]");
    let seed = [8u8; 32];
    for (m, la, sa) in [(&w.m1, 400_000_000u64, 5_000_000_000u64), (&pure, 3_000_000_000, 3_000_000_000)] {
        w.create_deposit(&mut db, m, w.user2, seed, la, sa, 0, w.user2).expect("seed create");
        w.execute_deposit(&mut db, m, w.user2, seed, w.keeper, true).expect("seed execute");
        w.close_deposit(&mut db, m, w.user2, seed, w.user2).expect("seed close");
    }
    w.prepare_user(&mut db, w.user).expect("prepare_user");
    w.prepare_event_buffer(&mut db, w.keeper, 0).expect("event buffer");
    let unit = 10u128.pow(20);
    let mut cases: Vec<(usize, Side, u64, u128, usize)> = vec![];
    // (market, side, collateral, size, price move)
    let moves: Vec<usize> = if th { vec![0, 1, 2, 3] } else { vec![1, 2] };
    for mi in 0..2usize {
        for is_long in [true, false] {
            for collateral_long in [true, false] {
                for &mv in &moves {
                    // collateral worth 100..120 USD, 3x leverage
                    let side = Side { is_long, collateral_long };
                    let collateral = if mi == 0 && collateral_long { 10_000_000 } else { 120_000_000 };
                    cases.push((mi, side, collateral, 300 * unit, mv));
                    if th {
                        cases.push((mi, side, collateral, 777 * unit / 10, mv));
                    }
                }
            }
        }
    }
    // price of A after the position was opened at 12: unchanged, up (also with a spread), down
    const MOVES: [(u128, u128); 4] = [(12_0000_0000, 12_0000_0000), (13_0000_0000, 13_2000_0000), (11_0000_0000, 11_1000_0000), (12_5000_0000, 12_5000_0000)];
    let counters = e1::run(rep, "position orders vs SDK PositionModel", &cases, |&(mi, side, collateral, size, mv), sink| {
        let m = if mi == 0 { w.m1.clone() } else { pure.clone() };
        let mut d = db.clone();
        set_now(1_000);
        w.set_feeds(&mut d, 1_000, (12_0000_0000, 12_0000_0000), (1_0000_0000, 1_0000_0000));
        let rp = || json!({"section": "positions", "market": if mi == 0 { "A|A/B" } else { "A|B/B (pure)" }, "is_long": side.is_long, "collateral_long": side.collateral_long, "collateral": collateral, "size": size.to_string(), "move": mv});
        let prices_of = |d: &Db| -> Prices<u128> {
            let p = unit_prices(w, d);
            if mi == 0 { p } else { Prices { index_token_price: p.index_token_price, long_token_price: p.short_token_price, short_token_price: p.short_token_price } }
        };
        if w.prepare_position(&mut d, &m, w.user, side).is_err() {
            sink.case(false);
            sink.count("position_not_preparable");
            return;
        }
        let pos_key = w.position_pda(&w.user, &m, side);
        let sdk_pos = |d: &Db| -> Option<sdk::Position> { d.accounts.get(&pos_key).filter(|a| a.data.len() >= 8 + std::mem::size_of::<sdk::Position>()).map(|a| bytemuck::pod_read_unaligned(&a.data[8..8 + std::mem::size_of::<sdk::Position>()])) };
        let sdk_order = |d: &Db, n: &[u8; 32]| -> sdk::Order { let a = d.get(&w.order_pda(&w.user, n)); bytemuck::pod_read_unaligned(&a.data[8..8 + std::mem::size_of::<sdk::Order>()]) };
        let event = |d: &Db| -> TradeData { d.pod(&w.event_pda(&w.keeper, 0)).expect("event buffer") };
        let compare_market = |d: &Db, model: &MarketModel, what: &str, sink: &mut e1::Sink| {
            let after: Market = w.market(d, &m);
            for ((name, x), (_, y)) in all_params(&after).iter().zip(all_params(model).iter()) {
                if x != y {
                    sink.fail("C40/state_after_execution_differs", format!("{what}: market {name}: program {x:?}, SDK {y:?}"), rp());
                }
            }
        };
        // ---- increase
        let n1 = [0x31u8; 32];
        if let Err(e) = w.create_increase(&mut d, &m, w.user, n1, side, collateral, size) {
            sink.case(false);
            sink.count("increase_not_created");
            let _ = e;
            return;
        }
        let prices = prices_of(&d);
        let acceptable = sdk_order(&d, &n1).params.acceptable_price;
        let model = model_of(&d, &m);
        let Some(p0) = sdk_pos(&d) else { sink.fail("C40/machinery_position_unreadable", "position account".into(), rp()); return };
        let sim = mc_core::catch(|| -> std::result::Result<(PositionModel, u128, i128), String> {
            let mut pm = PositionModel::new(model, Arc::new(p0)).map_err(|e| e.to_string())?;
            let r = pm.increase(prices, collateral as u128, size, Some(acceptable)).and_then(|a| a.execute()).map_err(|e| e.to_string())?;
            Ok((pm, *r.execution().execution_price(), *r.execution().price_impact_value()))
        });
        let executed = w.execute_increase(&mut d, &m, w.user, n1, side, w.keeper, true);
        sink.case(executed.is_ok());
        match (&executed, sim) {
            (Ok(()), Ok(Ok((pm, exec_price, impact)))) => {
                sink.count("increase_compared");
                let ev = event(&d);
                if ev.execution_price != exec_price || ev.price_impact_value != impact {
                    sink.fail("C40/execution_result_differs", format!("increase: program execution price {} impact {}, SDK {exec_price} {impact}", ev.execution_price, ev.price_impact_value), rp());
                }
                let Some(p1) = sdk_pos(&d) else { sink.fail("C40/machinery_position_unreadable", "position after increase".into(), rp()); return };
                for ((name, x), (_, y)) in pos_fields(&p1.state).iter().zip(pos_fields(&pm.position().state).iter()) {
                    if x != y {
                        sink.fail("C40/position_after_execution_differs", format!("increase: {name}: program {x}, SDK {y}"), rp());
                    }
                }
                compare_market(&d, pm.market_model(), "increase", sink);
            }
            (Err(_), Ok(Err(_))) => {
                sink.count("increase_rejected_by_both");
                return;
            }
            (p, s) => {
                sink.fail("C40/execution_result_differs", format!("increase: program {p:?}, SDK {:?}", s.map(|r| r.map(|_| "ok"))), rp());
                return;
            }
        }
        // ---- price move, then a partial and a full decrease
        w.set_feeds(&mut d, 1_000, MOVES[mv], (1_0000_0000, 1_0000_0000));
        for (k, (dsize, withdraw)) in [(size / 3, 1_000u64), (size - size / 3, 0u64)].iter().enumerate() {
            let n = [0x40 + k as u8; 32];
            if w.create_decrease(&mut d, &m, w.user, n, side, *withdraw, *dsize).is_err() {
                sink.count("decrease_not_created");
                return;
            }
            let prices = prices_of(&d);
            let acceptable = sdk_order(&d, &n).params.acceptable_price;
            let model = model_of(&d, &m);
            let Some(p0) = sdk_pos(&d) else { return };
            let sim = mc_core::catch(|| -> std::result::Result<(PositionModel, [u128; 4], [i128; 3], bool), String> {
                let mut pm = PositionModel::new(model, Arc::new(p0)).map_err(|e| e.to_string())?;
                let r = pm
                    .decrease(prices, *dsize, Some(acceptable), *withdraw as u128, DecreasePositionFlags { is_insolvent_close_allowed: false, is_liquidation_order: false, is_cap_size_delta_usd_allowed: false })
                    .map(|a| a.set_swap(DecreasePositionSwapType::NoSwap))
                    .and_then(|a| a.execute())
                    .map_err(|e| e.to_string())?;
                let out = [*r.output_amounts().output_amount(), *r.output_amounts().secondary_output_amount(), *r.execution_price(), *r.price_impact_diff()];
                let signed = [*r.price_impact_value(), *r.pnl().pnl(), *r.pnl().uncapped_pnl()];
                Ok((pm, out, signed, r.should_remove()))
            });
            let executed = w.execute_decrease(&mut d, &m, w.user, n, side, w.keeper, true);
            sink.case(executed.is_ok());
            match (&executed, sim) {
                (Ok(()), Ok(Ok((pm, out, signed, removed)))) => {
                    sink.count("decrease_compared");
                    let ev = event(&d);
                    let got = [ev.output_amounts.output_amount, ev.output_amounts.secondary_output_amount, ev.execution_price, ev.price_impact_diff];
                    let got_signed = [ev.price_impact_value, ev.pnl.pnl, ev.pnl.uncapped_pnl];
                    if got != out || got_signed != signed {
                        sink.fail("C40/execution_result_differs", format!("decrease {k}: program (output, secondary output, execution price, impact diff) = {got:?}, (impact, pnl, uncapped pnl) = {got_signed:?}; SDK {out:?} {signed:?}"), rp());
                    }
                    if out[1] != 0 {
                        sink.count("decrease_with_secondary_output");
                    }
                    let after = sdk_pos(&d);
                    if removed != after.is_none() {
                        sink.fail("C40/execution_result_differs", format!("decrease {k}: SDK should_remove {removed}, program position account present {}", after.is_some()), rp());
                    }
                    // the state after: from the account, or from the event buffer when the account was removed
                    let prog_state: [(&str, u128); 7] = match &after {
                        Some(p) => pos_fields(&p.state),
                        None => {
                            let s = &ev.after;
                            [("size_in_usd", s.size_in_usd), ("size_in_tokens", s.size_in_tokens), ("collateral_amount", s.collateral_amount), ("borrowing_factor", s.borrowing_factor), ("funding_fee_amount_per_size", s.funding_fee_amount_per_size), ("long_token_claimable_funding_amount_per_size", s.long_token_claimable_funding_amount_per_size), ("short_token_claimable_funding_amount_per_size", s.short_token_claimable_funding_amount_per_size)]
                        }
                    };
                    for ((name, x), (_, y)) in prog_state.iter().zip(pos_fields(&pm.position().state).iter()) {
                        if x != y {
                            sink.fail("C40/position_after_execution_differs", format!("decrease {k}: {name}: program {x}, SDK {y}"), rp());
                        }
                    }
                    compare_market(&d, pm.market_model(), "decrease", sink);
                    if after.is_none() {
                        return;
                    }
                }
                (Err(_), Ok(Err(e))) => {
                    sink.count("decrease_rejected_by_both");
                    if std::env::var_os("SVM_LOG").is_some() {
                        eprintln!("decrease {k} rejected by both: {e} | {}", rp());
                    }
                    return;
                }
                (p, s) => {
                    sink.fail("C40/execution_result_differs", format!("decrease {k}: program {p:?}, SDK {:?}", s.map(|r| r.map(|_| "ok"))), rp());
                    return;
                }
            }
        }
    });
    for k in ["increase_compared", "decrease_compared", "decrease_with_secondary_output"] {
        if counters.get(k).copied().unwrap_or(0) == 0 {
            rep.machinery(format!("vacuous position section: {k} never occurred"));
        }
    }
}
