//! C33 — referral relationships are write-once, never self- or mutually referential, and a code
//! has exactly one owner that changes only on acceptance (E3: BFS over the real user instructions).
use anchor_lang::prelude::*;
use gmsol_store::states::user::{ReferralCodeV2, UserHeader};
use gmsol_store::states::Seed;
use mc_core::{
    e2::{self, Machine, StepOut},
    json, Cli, Report,
};
use solana_program::instruction::Instruction;

use crate::svm::{process, Acc, Db, TxError};
use crate::world::{self, ix, sys, W};

const NU: usize = 3;
const NC: usize = 2;

#[derive(Clone, Copy, Debug)]
enum Act {
    Prepare(usize),
    InitCode(usize, usize),
    SetReferrer(usize, usize),
    /// signer, code, receiver
    Transfer(usize, usize, usize),
    Cancel(usize, usize),
    Accept(usize, usize),
    /// set_referrer with a referrer account that does not own the code
    SetReferrerForged(usize, usize, usize),
}

#[derive(Clone, Copy, Debug, PartialEq, Eq, Hash, Default)]
struct Code {
    owner: usize,
    next: usize,
}

#[derive(Clone, Debug, PartialEq, Eq, Hash, Default)]
struct Ref {
    prepared: [bool; NU],
    referrer: [Option<usize>; NU],
    code_of: [Option<usize>; NU],
    codes: [Option<Code>; NC],
}

#[derive(Clone)]
struct St {
    db: Db,
    r: Ref,
}

struct Refs {
    w: W,
    users: [Pubkey; NU],
    acts: Vec<Act>,
}

impl Refs {
    fn user_pda(&self, u: usize) -> Pubkey {
        Pubkey::find_program_address(&[UserHeader::SEED, self.w.store.as_ref(), self.users[u].as_ref()], &self.w.pid).0
    }
    fn code_bytes(c: usize) -> [u8; 8] {
        [b'C', b'O', b'D', b'E', 0, 0, 0, 1 + c as u8]
    }
    fn code_pda(&self, c: usize) -> Pubkey {
        Pubkey::find_program_address(&[ReferralCodeV2::SEED, self.w.store.as_ref(), &Self::code_bytes(c)], &self.w.pid).0
    }
    fn instruction(&self, r: &Ref, a: &Act) -> (Instruction, Pubkey) {
        let w = &self.w;
        match *a {
            Act::Prepare(u) => (ix(w.pid, gmsol_store::accounts::PrepareUser { owner: self.users[u], store: w.store, user: self.user_pda(u), system_program: sys() }, gmsol_store::instruction::PrepareUser {}), self.users[u]),
            Act::InitCode(u, c) => (
                ix(w.pid, gmsol_store::accounts::InitializeReferralCode { owner: self.users[u], store: w.store, referral_code: self.code_pda(c), user: self.user_pda(u), system_program: sys() }, gmsol_store::instruction::InitializeReferralCode { code: Self::code_bytes(c) }),
                self.users[u],
            ),
            Act::SetReferrer(u, c) => {
                // the client resolves the referrer from the code's current owner
                let owner = r.codes[c].map(|k| k.owner).unwrap_or((u + 1) % NU);
                (ix(w.pid, gmsol_store::accounts::SetReferrer { owner: self.users[u], store: w.store, user: self.user_pda(u), referral_code: self.code_pda(c), referrer_user: self.user_pda(owner) }, gmsol_store::instruction::SetReferrer { code: Self::code_bytes(c) }), self.users[u])
            }
            Act::SetReferrerForged(u, c, fake) => (ix(w.pid, gmsol_store::accounts::SetReferrer { owner: self.users[u], store: w.store, user: self.user_pda(u), referral_code: self.code_pda(c), referrer_user: self.user_pda(fake) }, gmsol_store::instruction::SetReferrer { code: Self::code_bytes(c) }), self.users[u]),
            Act::Transfer(u, c, v) => (ix(w.pid, gmsol_store::accounts::TransferReferralCode { owner: self.users[u], store: w.store, user: self.user_pda(u), referral_code: self.code_pda(c), receiver_user: self.user_pda(v) }, gmsol_store::instruction::TransferReferralCode {}), self.users[u]),
            Act::Cancel(u, c) => (ix(w.pid, gmsol_store::accounts::CancelReferralCodeTransfer { owner: self.users[u], store: w.store, user: self.user_pda(u), referral_code: self.code_pda(c) }, gmsol_store::instruction::CancelReferralCodeTransfer {}), self.users[u]),
            Act::Accept(v, c) => {
                let owner = r.codes[c].map(|k| k.owner).unwrap_or((v + 1) % NU);
                (ix(w.pid, gmsol_store::accounts::AcceptReferralCode { next_owner: self.users[v], store: w.store, user: self.user_pda(owner), referral_code: self.code_pda(c), receiver_user: self.user_pda(v) }, gmsol_store::instruction::AcceptReferralCode {}), self.users[v])
            }
        }
    }

    /// the reference relation: Some(new state) if the action is allowed
    fn apply(&self, r: &Ref, a: &Act) -> Option<Ref> {
        let mut n = r.clone();
        match *a {
            Act::Prepare(u) => {
                // prepare_user is idempotent
                n.prepared[u] = true;
            }
            Act::InitCode(u, c) => {
                if !r.prepared[u] || r.codes[c].is_some() || r.code_of[u].is_some() {
                    return None;
                }
                n.codes[c] = Some(Code { owner: u, next: u });
                n.code_of[u] = Some(c);
            }
            Act::SetReferrer(u, c) => {
                let code = r.codes[c]?;
                let o = code.owner;
                if !r.prepared[u] || o == u || r.referrer[o] == Some(u) || r.referrer[u].is_some() || r.code_of[o] != Some(c) {
                    return None;
                }
                n.referrer[u] = Some(o);
            }
            Act::SetReferrerForged(u, c, fake) => {
                // allowed only if the "forged" referrer happens to be the real owner
                let code = r.codes[c]?;
                if fake != code.owner {
                    return None;
                }
                return self.apply(r, &Act::SetReferrer(u, c));
            }
            Act::Transfer(u, c, v) => {
                let code = r.codes[c]?;
                if code.owner != u || r.code_of[u] != Some(c) || !r.prepared[v] || v == u || r.code_of[v].is_some() || code.next == v {
                    return None;
                }
                n.codes[c] = Some(Code { owner: u, next: v });
            }
            Act::Cancel(u, c) => {
                let code = r.codes[c]?;
                if code.owner != u || r.code_of[u] != Some(c) || code.next == u {
                    return None;
                }
                n.codes[c] = Some(Code { owner: u, next: u });
            }
            Act::Accept(v, c) => {
                let code = r.codes[c]?;
                let o = code.owner;
                if !r.prepared[v] || v == o || r.code_of[v].is_some() || code.next != v {
                    return None;
                }
                n.codes[c] = Some(Code { owner: v, next: v });
                n.code_of[v] = Some(c);
                n.code_of[o] = None;
            }
        }
        Some(n)
    }

    fn observe(&self, db: &Db) -> Ref {
        let mut r = Ref::default();
        let idx = |k: &Pubkey| self.users.iter().position(|u| u == k);
        for u in 0..NU {
            if let Some(h) = db.pod::<UserHeader>(&self.user_pda(u)).filter(|_| db.exists(&self.user_pda(u))) {
                r.prepared[u] = h.is_initialized();
                r.referrer[u] = h.referral().referrer().and_then(idx);
                r.code_of[u] = h.referral().code().and_then(|c| (0..NC).find(|i| self.code_pda(*i) == *c));
            }
        }
        for c in 0..NC {
            if db.exists(&self.code_pda(c)) {
                if let Some(code) = db.pod::<ReferralCodeV2>(&self.code_pda(c)) {
                    r.codes[c] = Some(Code { owner: idx(&code.owner).unwrap_or(usize::MAX), next: idx(code.next_owner()).unwrap_or(usize::MAX) });
                }
            }
        }
        r
    }
}

impl Machine for Refs {
    type State = St;
    type Action = Act;
    fn actions(&self) -> &[Act] {
        &self.acts
    }
    fn key(&self, s: &St) -> u128 {
        mc_core::hash128(&s.r)
    }
    fn step(&self, s: &St, a: &Act, out: &mut StepOut) -> St {
        let mut n = s.clone();
        W::set_time(1_000);
        let (i, signer) = self.instruction(&s.r, a);
        let res = process(&mut n.db, &i, &[signer]);
        let want = self.apply(&s.r, a);
        out.label = if res.is_ok() { "ok" } else { "err" };
        if let Err(e) = &res {
            if e.is_panic() || matches!(e, TxError::Runtime(_)) {
                out.fail("C33/panic_or_runtime_violation", format!("{a:?}: {e:?}"));
            }
        }
        if res.is_ok() != want.is_some() {
            let key = match (a, res.is_ok()) {
                (Act::SetReferrer(..) | Act::SetReferrerForged(..), true) => "C33/referrer_set_against_the_rules",
                (Act::Accept(..), true) => "C33/code_ownership_moved_without_valid_acceptance",
                (Act::Transfer(..) | Act::Cancel(..), true) => "C33/code_transfer_by_non_owner",
                (_, true) => "C33/invalid_operation_accepted",
                (_, false) => "C33/valid_operation_rejected",
            };
            out.fail(key, format!("{a:?} returned {res:?}, reference {:?}", s.r));
            out.prune = true;
        }
        if let Some(w) = want {
            n.r = w;
        }
        let seen = self.observe(&n.db);
        if res.is_ok() && seen != n.r {
            out.fail("C33/state_differs_from_reference", format!("{a:?}: on chain {seen:?}, reference {:?}", n.r));
        }
        // the statement's invariants, evaluated on the chain state itself
        for u in 0..NU {
            if seen.referrer[u] == Some(u) {
                out.fail("C33/self_referral", format!("{a:?}: user {u} refers themselves"));
            }
            if let (Some(old), new) = (s.r.referrer[u], seen.referrer[u]) {
                if new != Some(old) {
                    out.fail("C33/referrer_changed", format!("{a:?}: user {u} referrer {old} -> {new:?}"));
                }
            }
        }
        for c in 0..NC {
            if let Some(code) = seen.codes[c] {
                let holders: Vec<usize> = (0..NU).filter(|u| seen.code_of[*u] == Some(c)).collect();
                if holders != vec![code.owner] {
                    out.fail("C33/code_not_owned_by_exactly_one_user", format!("{a:?}: code {c} owner {} but held by {holders:?}", code.owner));
                }
                if let Some(before) = s.r.codes[c] {
                    if before.owner != code.owner && !(matches!(a, Act::Accept(v, cc) if *cc == c && *v == code.owner) && before.next == code.owner) {
                        out.fail("C33/code_ownership_moved_without_valid_acceptance", format!("{a:?}: code {c} owner {} -> {}", before.owner, code.owner));
                    }
                }
            }
        }
        n
    }
}

pub fn run(cli: &Cli) -> Report {
    let mut rep = Report::new(cli, "model_checking");
    rep.rule("E3: breadth-first exploration of the real user instructions (prepare_user, initialize_referral_code, set_referrer — also with a forged referrer account —, transfer_referral_code, cancel_referral_code_transfer, accept_referral_code) by three users over two codes through gmsol_store::entry; outcome and resulting accounts compared with a reference relation; write-once referrer, no self referral, exactly one holder per code and ownership moves only on acceptance by the proposed owner are evaluated on the account contents after every step; the state space is closed (explored to a fixpoint or the stated depth)");
    rep.assume("svm-lite runtime trusted");
    let (mut db, w) = world::build();
    let users = [w.user, w.user2, w.stranger];
    for u in users {
        db.set(u, Acc::wallet(100_000_000_000));
    }
    let mut acts = vec![];
    for u in 0..NU {
        acts.push(Act::Prepare(u));
        for c in 0..NC {
            acts.extend([Act::InitCode(u, c), Act::SetReferrer(u, c), Act::Cancel(u, c), Act::Accept(u, c)]);
            for v in 0..NU {
                if v != u {
                    acts.push(Act::Transfer(u, c, v));
                }
            }
        }
    }
    acts.push(Act::Transfer(0, 0, 0));
    acts.extend([Act::SetReferrerForged(0, 0, 2), Act::SetReferrerForged(1, 0, 2), Act::SetReferrerForged(2, 1, 0)]);
    let m = Refs { w, users, acts };
    let start = St { db, r: Ref::default() };
    if let Some(rv) = &cli.replay {
        e2::replay_into(&mut rep, &m, &[start], rv);
        return rep;
    }
    let depth = if cli.tier.thorough() { 9 } else { 6 };
    let o = e2::explore(&mut rep, "referral instructions", &m, vec![start], &e2::Config { depth, max_states: 5_000_000 }, json!({}));
    for needed in ["SetReferrer:ok", "SetReferrer:err", "Accept:ok", "Accept:err", "Transfer:ok", "Transfer:err", "Cancel:ok", "InitCode:ok", "InitCode:err"] {
        if o.histogram.get(needed).copied().unwrap_or(0) == 0 {
            rep.machinery(format!("vacuous exploration: outcome {needed} never occurred"));
        }
    }
    rep
}
