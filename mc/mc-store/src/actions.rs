//! C22 (vault solvency after every instruction) and C23 (action lifecycle: exactly-once
//! completion/cancellation, owner/keeper close rules, escrow goes home) — E3: breadth-first
//! exploration of real store instructions (create/execute/close of deposits and withdrawals by
//! owners, the keeper and a stranger) over two markets that share both vaults.
use anchor_lang::prelude::*;
use gmsol_model::{Balance, PoolKind};
use gmsol_store::states::common::action::Action;
use gmsol_store::states::{Deposit, Market, Withdrawal};
use gmsol_utils::action::ActionState;
use mc_core::{
    e2::{self, Machine, StepOut},
    json, Cli, Report,
};

use crate::svm::{Db, TxError};
use crate::world::{self, ata, token_amount, MarketKeys, W};

pub const P22: u32 = 1;
pub const P23: u32 = 2;

#[derive(Clone, Copy, Debug, PartialEq, Eq, Hash)]
enum Who {
    Owner,
    Keeper,
    Stranger,
}

#[derive(Clone, Copy, Debug)]
enum Act {
    Create(usize),
    Exec(usize, Who),
    Close(usize, Who),
    /// close with a crafted account list (the unused long-token slot of a short-only deposit names the short mint)
    CloseCrafted(usize, Who),
    Adv(i64),
    Refresh,
    /// publish feeds with a wider spread / higher index price at the current time
    Reprice,
    /// claim the accrued fees of a market's long/short token (by the fee receiver or a stranger)
    ClaimFees(usize, bool, Who),
    /// keeper transfer into a market's recorded balance
    TransferIn(usize, bool, u64),
}

#[derive(Clone, Copy, Debug, PartialEq, Eq, Hash)]
enum Phase {
    Absent,
    Pending,
    Completed,
    Cancelled,
}

/// owner's holdings right before the action was created
#[derive(Clone, Copy, Debug, PartialEq, Eq, Hash, Default)]
struct Snapshot {
    a: u64,
    b: u64,
    gm: u64,
    lamports: u64,
    /// escrowed amounts (A, B, GM)
    escrow: (u64, u64, u64),
    executed_by_keeper: bool,
}

#[derive(Clone)]
struct St {
    db: Db,
    now: i64,
    phase: [Phase; 7],
    snap: [Snapshot; 7],
}

struct Slot {
    is_deposit: bool,
    market: usize,
    owner: Pubkey,
    nonce: [u8; 32],
    /// deposit: (A, B) amounts; withdrawal: unused
    amounts: (u64, u64),
    /// unreachable minimum output => the execution fails softly
    unreachable_min: bool,
    /// minimum output of a deposit whose reachability depends on the published prices
    /// (0 = none): such an action can be cancelled at one price and would succeed at another
    price_dependent_min: u64,
    /// the long-side amount is swapped along [market 2, market 1] (out of and back into the deposit market's long token)
    long_path: bool,
    /// a deposit without a long side at all (no long token / escrow accounts)
    short_only: bool,
}

struct Life {
    w: W,
    acts: Vec<Act>,
    slots: Vec<Slot>,
    props: u32,
}

fn market_view(w: &W, db: &Db, m: &MarketKeys) -> Vec<u128> {
    let mk: Market = w.market(db, m);
    let mut v = vec![];
    for kind in [
        PoolKind::Primary, PoolKind::SwapImpact, PoolKind::ClaimableFee, PoolKind::OpenInterestForLong, PoolKind::OpenInterestForShort, PoolKind::OpenInterestInTokensForLong, PoolKind::OpenInterestInTokensForShort,
        PoolKind::PositionImpact, PoolKind::BorrowingFactor, PoolKind::FundingAmountPerSizeForLong, PoolKind::FundingAmountPerSizeForShort, PoolKind::ClaimableFundingAmountPerSizeForLong, PoolKind::ClaimableFundingAmountPerSizeForShort,
        PoolKind::CollateralSumForLong, PoolKind::CollateralSumForShort, PoolKind::TotalBorrowing,
    ] {
        if let Some(p) = mk.pool(kind) {
            v.push(p.long_amount().unwrap_or(u128::MAX));
            v.push(p.short_amount().unwrap_or(u128::MAX));
        }
    }
    v.push(mk.state().long_token_balance_raw() as u128);
    v.push(mk.state().short_token_balance_raw() as u128);
    v.push(mk.state().funding_factor_per_second() as u128);
    v.push(mk.state().trade_count() as u128);
    v.push(world::mint_supply(db, &m.market_token) as u128);
    v
}

impl Life {
    fn markets(&self) -> [&MarketKeys; 2] {
        [&self.w.m1, &self.w.m2]
    }
    fn path_of(&self, s: &Slot) -> Vec<MarketKeys> {
        if s.long_path { vec![self.w.m2.clone(), self.w.m1.clone()] } else { vec![] }
    }
    fn key_of(&self, s: &Slot, who: Who) -> Pubkey {
        match who {
            Who::Owner => s.owner,
            Who::Keeper => self.w.keeper,
            Who::Stranger => self.w.stranger,
        }
    }
    fn action_account(&self, s: &Slot) -> Pubkey {
        if s.is_deposit { self.w.deposit_pda(&s.owner, &s.nonce) } else { self.w.withdrawal_pda(&s.owner, &s.nonce) }
    }
    fn phase_on_chain(&self, db: &Db, s: &Slot) -> Phase {
        let k = self.action_account(s);
        if !db.exists(&k) {
            return Phase::Absent;
        }
        let st = if s.is_deposit { db.pod::<Deposit>(&k).and_then(|d| d.header().action_state().ok()) } else { db.pod::<Withdrawal>(&k).and_then(|d| d.header().action_state().ok()) };
        match st {
            Some(ActionState::Pending) => Phase::Pending,
            Some(ActionState::Completed) => Phase::Completed,
            Some(ActionState::Cancelled) => Phase::Cancelled,
            _ => Phase::Absent,
        }
    }
    fn holdings(&self, db: &Db, s: &Slot) -> (u64, u64, u64, u64) {
        let m = self.markets()[s.market];
        (token_amount(db, &ata(&s.owner, &self.w.a)), token_amount(db, &ata(&s.owner, &self.w.b)), token_amount(db, &ata(&s.owner, &m.market_token)), db.get(&s.owner).lamports)
    }
    fn escrow(&self, db: &Db, s: &Slot) -> (u64, u64, u64) {
        let m = self.markets()[s.market];
        let acc = self.action_account(s);
        (token_amount(db, &ata(&acc, &self.w.a)), token_amount(db, &ata(&acc, &self.w.b)), token_amount(db, &ata(&acc, &m.market_token)))
    }

    /// C22: recorded balances cover pools and collateral; markets sharing a vault never exceed it
    fn solvency(&self, db: &Db, out: &mut StepOut) {
        let mut recorded = [0u128; 2];
        for m in self.markets() {
            let mk: Market = self.w.market(db, m);
            let pool = |k: PoolKind| mk.pool(k).map(|p| (p.long_amount().unwrap_or(u128::MAX), p.short_amount().unwrap_or(u128::MAX))).unwrap_or((0, 0));
            let (liq, imp, fee) = (pool(PoolKind::Primary), pool(PoolKind::SwapImpact), pool(PoolKind::ClaimableFee));
            let (cl, cs) = (pool(PoolKind::CollateralSumForLong), pool(PoolKind::CollateralSumForShort));
            let bal = [mk.state().long_token_balance_raw() as u128, mk.state().short_token_balance_raw() as u128];
            let pools = [liq.0 + imp.0 + fee.0, liq.1 + imp.1 + fee.1];
            let coll = [cl.0 + cs.0, cl.1 + cs.1];
            for t in 0..2 {
                if bal[t] < pools[t] {
                    out.fail("C22/recorded_balance_below_pools", format!("market {} token {t}: balance {} < liquidity+impact+fees {}", m.market, bal[t], pools[t]));
                }
                if bal[t] < coll[t] {
                    out.fail("C22/recorded_balance_below_collateral", format!("market {} token {t}: balance {} < collateral {}", m.market, bal[t], coll[t]));
                }
                recorded[t] += bal[t];
            }
        }
        for (t, mint) in [self.w.a, self.w.b].iter().enumerate() {
            let vault = token_amount(db, &self.w.vault(mint)) as u128;
            if recorded[t] > vault {
                out.fail("C22/recorded_balances_exceed_vault", format!("token {t}: markets record {} but the vault holds {vault}", recorded[t]));
            }
        }
    }
}

impl Machine for Life {
    type State = St;
    type Action = Act;
    fn actions(&self) -> &[Act] {
        &self.acts
    }
    fn key(&self, s: &St) -> u128 {
        use std::hash::Hasher;
        let mut h = std::collections::hash_map::DefaultHasher::new();
        s.db.hash_into(&mut h);
        mc_core::hash128(&(h.finish(), s.now, s.phase, s.snap))
    }
    fn check_start(&self, s: &St, out: &mut StepOut) {
        self.solvency(&s.db, out);
    }
    fn step(&self, s: &St, a: &Act, out: &mut StepOut) -> St {
        // a crafted close is judged exactly like a close: whatever account list the program accepts, the escrow goes home
        let (a, crafted) = match *a {
            Act::CloseCrafted(i, who) => (Act::Close(i, who), true),
            x => (x, false),
        };
        let a = &a;
        let mut n = s.clone();
        W::set_time(s.now);
        let w = &self.w;
        let on23 = self.props & P23 != 0;
        let views_before: Vec<Vec<u128>> = self.markets().iter().map(|m| market_view(w, &s.db, m)).collect();
        let vaults_before = (token_amount(&s.db, &w.vault(&w.a)), token_amount(&s.db, &w.vault(&w.b)));
        let res: Option<std::result::Result<(), TxError>> = match *a {
            Act::Create(i) => {
                let sl = &self.slots[i];
                let m = self.markets()[sl.market];
                let before = self.holdings(&s.db, sl);
                let r = if sl.is_deposit {
                    W::with_short_only(sl.short_only as u8, || W::with_long_path(self.path_of(sl), || w.create_deposit(&mut n.db, m, sl.owner, sl.nonce, sl.amounts.0, sl.amounts.1, if sl.unreachable_min { u64::MAX } else { sl.price_dependent_min }, sl.owner)))
                } else {
                    let amount = before.2 / 2;
                    w.create_withdrawal(&mut n.db, m, sl.owner, sl.nonce, amount, if sl.unreachable_min { u64::MAX } else { 0 }, 0, sl.owner)
                };
                if r.is_ok() {
                    n.snap[i] = Snapshot { a: before.0, b: before.1, gm: before.2, lamports: before.3, escrow: self.escrow(&n.db, sl), executed_by_keeper: false };
                }
                Some(r)
            }
            Act::Exec(i, who) => {
                let sl = &self.slots[i];
                let m = self.markets()[sl.market];
                let by = self.key_of(sl, who);
                Some(if sl.is_deposit { W::with_short_only(sl.short_only as u8, || W::with_long_path(self.path_of(sl), || w.execute_deposit(&mut n.db, m, sl.owner, sl.nonce, by, false))) } else { w.execute_withdrawal(&mut n.db, m, sl.owner, sl.nonce, by, false) })
            }
            Act::Close(i, who) => {
                let sl = &self.slots[i];
                let m = self.markets()[sl.market];
                let by = self.key_of(sl, who);
                Some(if sl.is_deposit { W::with_short_only(if crafted && sl.short_only { 2 } else { sl.short_only as u8 }, || w.close_deposit(&mut n.db, m, sl.owner, sl.nonce, by)) } else { w.close_withdrawal(&mut n.db, m, sl.owner, sl.nonce, by) })
            }
            Act::CloseCrafted(..) => unreachable!("normalised to Close above"),
            Act::Adv(dt) => {
                n.now += dt;
                None
            }
            Act::Refresh => {
                w.set_feeds(&mut n.db, s.now, (12_0000_0000, 12_0000_0000), (1_0000_0000, 1_0000_0000));
                None
            }
            Act::ClaimFees(mi, is_long, who) => {
                let m = self.markets()[mi];
                let by = match who { Who::Owner => w.admin, Who::Keeper => w.keeper, Who::Stranger => w.stranger };
                Some(w.claim_fees(&mut n.db, m, if is_long { w.a } else { w.b }, by))
            }
            Act::TransferIn(mi, is_long, amount) => {
                let m = self.markets()[mi];
                Some(w.market_transfer_in(&mut n.db, m, if is_long { w.a } else { w.b }, amount, w.keeper))
            }
            Act::Reprice => {
                w.set_feeds(&mut n.db, s.now, (12_9000_0000, 13_1000_0000), (9990_0000, 1_0010_0000));
                None
            }
        };
        let Some(res) = res else {
            out.label = "env";
            return n;
        };
        out.label = if res.is_ok() { "ok" } else { "err" };
        if let Err(e) = &res {
            if e.is_panic() {
                // an abort is a failed transaction: nothing is committed (the property allows executions that fail hard)
                out.count("instructions_aborted_by_a_panic", 1);
            }
            if matches!(e, TxError::Runtime(_)) {
                out.fail("C23/runtime_rule_violated", format!("{a:?}: {e:?}"));
            }
        }
        // refresh the reference phases from the chain and check the transition relation for every slot
        for (i, sl) in self.slots.iter().enumerate() {
            let (old, new) = (s.phase[i], self.phase_on_chain(&n.db, sl));
            n.phase[i] = new;
            if !on23 {
                continue;
            }
            let touched = matches!(*a, Act::Create(j) | Act::Exec(j, _) | Act::Close(j, _) if j == i);
            let legal = match (old, new) {
                (x, y) if x == y => true,
                (Phase::Absent, Phase::Pending) => matches!(a, Act::Create(_)) && touched,
                (Phase::Pending, Phase::Completed) | (Phase::Pending, Phase::Cancelled) => matches!(a, Act::Exec(_, Who::Keeper)) && touched,
                (_, Phase::Absent) => matches!(a, Act::Close(..)) && touched,
                _ => false,
            };
            if !legal {
                out.fail("C23/illegal_state_transition", format!("{a:?}: slot {i} moved {old:?} -> {new:?}"));
            }
        }
        if on23 {
            match *a {
                Act::Create(i) => {
                    if res.is_ok() != (s.phase[i] == Phase::Absent && (self.slots[i].is_deposit || self.holdings(&s.db, &self.slots[i]).2 / 2 > 0)) {
                        out.fail("C23/create_outcome", format!("{a:?} returned {res:?} in phase {:?}", s.phase[i]));
                    }
                }
                Act::Exec(i, who) => {
                    let sl = &self.slots[i];
                    if who != Who::Keeper && res.is_ok() {
                        out.fail("C23/executed_by_non_keeper", format!("{a:?} succeeded"));
                    }
                    if s.phase[i] != Phase::Pending && res.is_ok() {
                        out.fail("C23/executed_twice_or_absent", format!("{a:?} succeeded in phase {:?}", s.phase[i]));
                    }
                    if res.is_ok() {
                        // at most the declared execution fee leaves the action account
                        let acc = self.action_account(sl);
                        let (l0, l1) = (s.db.get(&acc).lamports, n.db.get(&acc).lamports);
                        if l1 + 5_000 < l0 {
                            out.fail("C23/more_than_the_execution_fee_charged", format!("{a:?}: action account lamports {l0} -> {l1}"));
                        }
                    }
                    if res.is_ok() && who == Who::Keeper {
                        n.snap[i].executed_by_keeper = true;
                        if sl.unreachable_min && n.phase[i] != Phase::Cancelled {
                            out.fail("C23/unreachable_minimum_not_cancelled", format!("{a:?}: phase {:?}", n.phase[i]));
                        }
                        if n.phase[i] == Phase::Cancelled {
                            // a failed execution touches no market and returns the escrow
                            let views_after: Vec<Vec<u128>> = self.markets().iter().map(|m| market_view(w, &n.db, m)).collect();
                            if views_after != views_before {
                                out.fail("C23/cancelled_execution_touched_a_market", format!("{a:?}: market state before {views_before:?} after {views_after:?}"));
                            }
                            if (token_amount(&n.db, &w.vault(&w.a)), token_amount(&n.db, &w.vault(&w.b))) != vaults_before {
                                out.fail("C23/cancelled_execution_moved_vault_tokens", format!("{a:?}"));
                            }
                            if self.escrow(&n.db, sl) != s.snap[i].escrow {
                                out.fail("C23/cancelled_execution_did_not_restore_escrow", format!("{a:?}: escrow {:?}, at creation {:?}", self.escrow(&n.db, sl), s.snap[i].escrow));
                            }
                        }
                    }
                    // completeness guard: fresh prices published after creation, reachable minimum => must complete
                    if who == Who::Keeper && s.phase[i] == Phase::Pending && !sl.unreachable_min && sl.price_dependent_min == 0 && res.is_ok() && n.phase[i] != Phase::Completed {
                        out.count("reachable_action_cancelled", 1);
                    }
                }
                Act::Close(i, who) => {
                    let sl = &self.slots[i];
                    let expect = s.phase[i] != Phase::Absent && match who { Who::Owner => true, Who::Keeper => s.phase[i] != Phase::Pending, Who::Stranger => false };
                    if res.is_ok() != expect {
                        let key = if res.is_ok() { if who == Who::Stranger { "C23/closed_by_stranger" } else { "C23/pending_action_closed_by_keeper" } } else { "C23/legitimate_close_rejected" };
                        out.fail(key, format!("{a:?} in phase {:?} returned {res:?}", s.phase[i]));
                    }
                    if res.is_ok() {
                        let (before, after) = (self.holdings(&s.db, sl), self.holdings(&n.db, sl));
                        let snap = s.snap[i];
                        let esc = self.escrow(&s.db, sl);
                        // whatever the escrow holds at close goes to the owner, nothing else moves
                        if (after.0, after.1, after.2) != (before.0 + esc.0, before.1 + esc.1, before.2 + esc.2) {
                            out.fail("C23/escrow_not_returned", format!("{a:?} ({:?}): owner held {before:?}, escrow {esc:?}, owner now holds {after:?}", s.phase[i]));
                        }
                        match s.phase[i] {
                            Phase::Pending | Phase::Cancelled => {
                                // a pending or cancelled action still holds exactly what was escrowed at creation
                                if esc != snap.escrow {
                                    out.fail("C23/escrow_not_returned", format!("{a:?} ({:?}): escrow at close {esc:?}, at creation {:?}", s.phase[i], snap.escrow));
                                }
                            }
                            Phase::Completed => {
                                // a completed action has consumed what was escrowed and holds only its output
                                let consumed = if sl.is_deposit { esc.0 == 0 && esc.1 == 0 && esc.2 > 0 } else { esc.2 == 0 && (esc.0 > 0 || esc.1 > 0) };
                                if !consumed {
                                    out.fail("C23/completed_action_escrow_wrong", format!("{a:?}: escrow at close {esc:?}, at creation {:?}", snap.escrow));
                                }
                            }
                            Phase::Absent => {}
                        }
                        // rent and the unused execution fee held by the action account return to the owner
                        let action_lamports = s.db.get(&self.action_account(sl)).lamports;
                        let new_atas = [ata(&sl.owner, &self.w.a), ata(&sl.owner, &self.w.b), ata(&sl.owner, &self.markets()[sl.market].market_token)].iter().filter(|k| !s.db.exists(k) && n.db.exists(k)).count() as u64;
                        if (after.3 as i128) < before.3 as i128 + action_lamports as i128 - (new_atas * 2_039_280) as i128 {
                            out.fail("C23/execution_fee_not_refunded", format!("{a:?}: owner lamports {} -> {}, the action account held {action_lamports}", before.3, after.3));
                        }
                        if self.escrow(&n.db, sl) != (0, 0, 0) {
                            out.fail("C23/tokens_left_in_escrow_after_close", format!("{a:?}: {:?}", self.escrow(&n.db, sl)));
                        }
                    }
                }
                _ => {}
            }
        }
        if res.is_ok() && self.props & P22 != 0 {
            self.solvency(&n.db, out);
        }
        n
    }
}

pub fn run(cli: &Cli) -> Report {
    let mut rep = Report::new(cli, "model_checking");
    let props = if cli.property == "C22" { P22 } else { P23 };
    rep.rule("E3: breadth-first exploration of real store instructions in the in-process runtime: create/execute/close of two deposits (one with an unreachable minimum output, in the second market) and two withdrawals (one with an unreachable minimum) by the owner, the order keeper and a stranger, clock advances past the feed heartbeat, feed re-publication at the same or moved prices; two markets share both vaults. After every instruction: the action-state transition relation, authorisation outcomes, escrow/payout/fee accounting against a snapshot taken at creation, untouched markets after a cancelled execution (C23); recorded balances against pools, collateral and the shared vault balances (C22). Second machine (same engine): market increase / decrease orders of two traders on both markets (one order with an unacceptable price, one decrease with a collateral withdrawal), created / executed / closed by owner, keeper and stranger, four price sets (two adverse enough to liquidate either trader), clock advances past request expiration, liquidations by keeper and stranger, fee claims; C23 relation and escrow accounting as above for orders, a cancelled execution touches no market, vault or position; C22 additionally compares the collateral-sum and open-interest pools with the sums over the position accounts. Third machine (C23): GLV deposits and withdrawals (one of each with an unreachable minimum) created / executed / closed by owner, keeper and stranger, request expiration");
    rep.assume("svm-lite runtime trusted; the store account, SPL accounts and custom price feeds are fabricated, everything else is created by the programs' own instructions; shifts and GLV actions are not part of this exploration (GLV pricing histories: C45)");
    let th = cli.tier.thorough();
    let (mut db, w) = world::build();
    // seed liquidity so that withdrawals and the second market have something to act on
    let seed = [9u8; 32];
    for (m, who) in [(w.m1.clone(), w.user2), (w.m2.clone(), w.user2)] {
        w.create_deposit(&mut db, &m, who, seed, 5_000_000, 60_000_000, 0, who).expect("seed create");
        w.execute_deposit(&mut db, &m, who, seed, w.keeper, true).expect("seed execute");
        w.close_deposit(&mut db, &m, who, seed, who).expect("seed close");
    }
    // the owner of the withdrawal slots holds market tokens of market 1
    w.create_deposit(&mut db, &w.m1.clone(), w.user, seed, 1_000_000, 12_000_000, 0, w.user).expect("seed create");
    w.execute_deposit(&mut db, &w.m1.clone(), w.user, seed, w.keeper, true).expect("seed execute");
    w.close_deposit(&mut db, &w.m1.clone(), w.user, seed, w.user).expect("seed close");
    // a deposit of the stable token only mints fewer market tokens when the index price is higher:
    // probe both published price sets and put the minimum output between the two results
    let probe = |reprice: bool| -> u64 {
        let mut d = db.clone();
        W::set_time(1_000);
        if reprice {
            w.set_feeds(&mut d, 1_000, (12_9000_0000, 13_1000_0000), (9990_0000, 1_0010_0000));
        }
        let n = [7u8; 32];
        w.create_deposit(&mut d, &w.m1.clone(), w.user2, n, 0, 12_000_000, 0, w.user2).expect("probe create");
        w.execute_deposit(&mut d, &w.m1.clone(), w.user2, n, w.keeper, true).expect("probe execute");
        token_amount(&d, &ata(&w.deposit_pda(&w.user2, &n), &w.m1.market_token))
    };
    let (mint_a, mint_b) = (probe(false), probe(true));
    assert!(mint_a != mint_b && mint_a > 0 && mint_b > 0, "price-dependent minimum needs two different mint amounts ({mint_a}, {mint_b})");
    let price_dependent_min = mint_a.min(mint_b) + (mint_a.abs_diff(mint_b) + 1) / 2;
    let slots = vec![
        Slot { is_deposit: true, market: 0, owner: w.user, nonce: [1; 32], amounts: (1_000_000, 12_000_000), unreachable_min: false, price_dependent_min: 0, long_path: false, short_only: false },
        Slot { is_deposit: true, market: 0, owner: w.user2, nonce: [5; 32], amounts: (0, 12_000_000), unreachable_min: false, price_dependent_min, long_path: false, short_only: false },
        Slot { is_deposit: false, market: 0, owner: w.user, nonce: [3; 32], amounts: (0, 0), unreachable_min: false, price_dependent_min: 0, long_path: false, short_only: false },
        Slot { is_deposit: true, market: 1, owner: w.user2, nonce: [2; 32], amounts: (500_000, 0), unreachable_min: true, price_dependent_min: 0, long_path: false, short_only: false },
        Slot { is_deposit: false, market: 0, owner: w.user2, nonce: [4; 32], amounts: (0, 0), unreachable_min: true, price_dependent_min: 0, long_path: false, short_only: false },
        // the long side travels out of and back into the deposit market's long token: [market 2, market 1] (the last hop is the
        // deposit market itself)
        Slot { is_deposit: true, market: 0, owner: w.user2, nonce: [6; 32], amounts: (700_000, 0), unreachable_min: false, price_dependent_min: 0, long_path: true, short_only: false },
        // a deposit without a long side (no long token or escrow accounts); it can also be closed with a crafted account list
        Slot { is_deposit: true, market: 0, owner: w.user, nonce: [7; 32], amounts: (0, 9_000_000), unreachable_min: false, price_dependent_min: 0, long_path: false, short_only: true },
    ];
    // slot alphabets: the quick tier explores one, the thorough tier two (all seven slots together do not fit: every state
    // carries a copy of the ledger)
    let alphabets: Vec<Vec<usize>> = if th { vec![(0..5).collect(), vec![0, 5, 6]] } else if props == P22 { vec![vec![0, 1, 2, 5]] } else { vec![vec![0, 1, 2, 6]] };
    let acts_of = |used: &Vec<usize>, extra: &Vec<Act>| -> Vec<Act> {
        let mut acts = vec![];
        if used.contains(&6) {
            acts.extend([Act::CloseCrafted(6, Who::Owner), Act::CloseCrafted(6, Who::Keeper), Act::CloseCrafted(6, Who::Stranger)]);
        }
        for &i in used {
            acts.extend([Act::Create(i), Act::Exec(i, Who::Keeper), Act::Exec(i, Who::Stranger), Act::Close(i, Who::Owner), Act::Close(i, Who::Keeper), Act::Close(i, Who::Stranger)]);
        }
        acts.extend([Act::Adv(30), Act::Adv(100), Act::Refresh, Act::Reprice]);
        acts.extend(extra.iter().copied());
        acts
    };
    let mut acts: Vec<Act> = vec![];
    let mut starts = vec![St { db: db.clone(), now: 1_000, phase: [Phase::Absent; 7], snap: [Snapshot::default(); 7] }];
    if props == P22 {
        // fee claims and keeper transfers, and start states that position activity would leave behind
        // (collateral sums, accrued fees, funding already paid out), fabricated through a real RevertibleMarket
        acts.extend([
            Act::ClaimFees(0, true, Who::Owner), Act::ClaimFees(0, false, Who::Owner), Act::ClaimFees(1, true, Who::Owner), Act::ClaimFees(0, true, Who::Stranger),
            Act::TransferIn(0, true, 1_000), Act::TransferIn(1, false, 7),
        ]);
        for k in [w.keeper, w.admin] {
            db.set(ata(&k, &w.a), world::token_acc(w.a, k, 1_000_000_000));
            db.set(ata(&k, &w.b), world::token_acc(w.b, k, 1_000_000_000));
        }
        starts[0].db = db.clone();
        for variant in 0..4u8 {
            use gmsol_model::{Bank as _, BaseMarketMut as _, PerpMarketMut as _, Pool as _, PoolExt as _};
            let mut d = db.clone();
            for (mi, m) in [w.m1.clone(), w.m2.clone()].iter().enumerate() {
                let mk: Market = w.market(&d, m);
                let bal = [mk.state().long_token_balance_raw() as i128, mk.state().short_token_balance_raw() as i128];
                let fee: i128 = 400_000 + 1_000 * mi as i128;
                // variant 0: fees accrued, exactly backed (no slack over the pools)
                // variant 1: collateral close to the whole recorded balance: claiming the fees would eat into it
                // variant 2: as 1 on the short token, collateral split over both sides
                let (fee_side_long, coll): (bool, i128) = match variant {
                    // variant 3: as 0, plus position collateral in the short token that is backed by recorded balance and vault
                    // (what real positions leave behind): slack above the pools
                    0 | 3 => (true, 0),
                    1 => (true, bal[0] + fee - 20_000),
                    _ => (false, bal[1] + fee - 1),
                };
                w.edit_market(&mut d, m, |rm| {
                    let token = if fee_side_long { w.a } else { w.b };
                    if fee_side_long {
                        rm.claimable_fee_pool_mut().unwrap().apply_delta_to_long_amount(&fee).unwrap();
                    } else {
                        rm.claimable_fee_pool_mut().unwrap().apply_delta_to_short_amount(&fee).unwrap();
                    }
                    rm.record_transferred_in_by_token(&token, &(fee as u64)).unwrap();
                    if coll > 0 {
                        let (a, b) = (coll / 2, coll - coll / 2);
                        if fee_side_long {
                            rm.collateral_sum_pool_mut(true).unwrap().apply_delta_to_long_amount(&a).unwrap();
                            rm.collateral_sum_pool_mut(false).unwrap().apply_delta_to_long_amount(&b).unwrap();
                        } else {
                            rm.collateral_sum_pool_mut(true).unwrap().apply_delta_to_short_amount(&a).unwrap();
                            rm.collateral_sum_pool_mut(false).unwrap().apply_delta_to_short_amount(&b).unwrap();
                        }
                    }
                });
                // the fee tokens sit in the shared vault
                let token = if fee_side_long { w.a } else { w.b };
                let v = w.vault(&token);
                let amount = token_amount(&d, &v) + fee as u64;
                d.set(v, world::token_acc(token, w.store, amount));
                if variant == 3 {
                    let backed: u64 = 40_000_000;
                    w.edit_market(&mut d, m, |rm| {
                        rm.collateral_sum_pool_mut(true).unwrap().apply_delta_to_short_amount(&(backed as i128)).unwrap();
                        rm.record_transferred_in_by_token(&w.b, &backed).unwrap();
                    });
                    let v = w.vault(&w.b);
                    let amount = token_amount(&d, &v) + backed;
                    d.set(v, world::token_acc(w.b, w.store, amount));
                }
            }
            starts.push(St { db: d, now: 1_000, phase: [Phase::Absent; 7], snap: [Snapshot::default(); 7] });
        }
    }
    let extra = acts;
    let mut life = Life { w, acts: acts_of(&alphabets[0], &extra), slots, props };
    if let Some(rv) = &cli.replay {
        if rv["ctx"]["machine"] == "glvlife" {
            crate::glvchk::lifecycle(&mut rep, cli);
            return rep;
        }
        if rv["ctx"]["machine"] == "perp" {
            crate::perp::run_section(&mut rep, cli, if props == P22 { crate::perp::P22 } else { crate::perp::P23 });
            return rep;
        }
        let k = rv["ctx"]["alphabet"].as_u64().unwrap_or(0) as usize;
        life.acts = acts_of(&alphabets[k.min(alphabets.len() - 1)], &extra);
        let sel: Vec<St> = if th && starts.len() > 4 { if k == 0 { starts[..4].to_vec() } else { vec![starts[0].clone(), starts[4].clone()] } } else { starts.clone() };
        e2::replay_into(&mut rep, &life, &sel, rv);
        return rep;
    }
    let depth = if th { 6 } else { 5 };
    for (k, used) in alphabets.iter().enumerate() {
        life.acts = acts_of(used, &extra);
        let name = if k == 0 { "deposit/withdrawal lifecycles over two markets".to_string() } else { format!("deposit/withdrawal lifecycles over two markets (slot alphabet {used:?})") };
        // thorough tier: the first alphabet starts from the states it always had, the second from the empty world and the
        // backed-collateral state (the last start state of the C22 family); replays index into the same selection
        let sel: Vec<St> = if th && starts.len() > 4 { if k == 0 { starts[..4].to_vec() } else { vec![starts[0].clone(), starts[4].clone()] } } else { starts.clone() };
        let o = e2::explore(&mut rep, &name, &life, sel, &e2::Config { depth, max_states: 5_000_000 }, json!({"thorough": th, "alphabet": k}));
        for needed in ["Create:ok", "Exec:ok", "Exec:err", "Close:ok", "Close:err"] {
            if o.histogram.get(needed).copied().unwrap_or(0) == 0 {
                rep.machinery(format!("vacuous exploration: outcome {needed} never occurred"));
            }
        }
    }
    // position orders, liquidations and fee claims with real positions (second machine)
    crate::perp::run_section(&mut rep, cli, if props == P22 { crate::perp::P22 } else { crate::perp::P23 });
    if props == P23 {
        // GLV deposits and withdrawals under the same lifecycle relation (third machine)
        crate::glvchk::lifecycle(&mut rep, cli);
    }
    rep
}
