//! C37 — treasury factors stay valid and GT buyback payouts are proportional (E1 on the factor
//! setters; E3: the real `complete_gt_exchange` instruction of the treasury program — with its CPI
//! into the store's `close_gt_exchange` and SPL token transfers — for every claim order of three
//! claimants over a grid of bank balances and GT amounts).
use anchor_lang::prelude::*;
use gmsol_store::states::gt::{GtExchange, GtExchangeVault};
use gmsol_store::states::{Seed, Store, UserHeader};
use gmsol_store::verif as hv;
use gmsol_treasury::states::{Config, GtBank, TreasuryVaultConfig};
use gmsol_treasury::verif as tv;
use mc_core::{big::*, e1, json, Cli, Report};

use crate::svm::{addr, meta, process, register, Acc, Db};
use crate::world::{self, ata, ix, token_acc, token_amount, zc, W};

const UNIT: u128 = gmsol_store::constants::MARKET_USD_UNIT;

fn setters(rep: &mut Report, cli: &Cli) {
    let mut factors: Vec<u128> = vec![0, 1, UNIT / 2, UNIT - 1, UNIT, UNIT + 1, 2 * UNIT, u128::MAX / 2, u128::MAX];
    factors.extend(cli.extras(37, 4, 0, 2 * UNIT));
    e1::run(rep, "factor setters", &factors, |&current, sink| {
        for which in 0..2 {
            for &next in &factors {
                let mut c: Config = bytemuck::Zeroable::zeroed();
                // reach `current` first (only possible when it is itself a valid factor)
                let set = |c: &mut Config, f: u128| if which == 0 { tv::config_set_gt_factor(c, f) } else { tv::config_set_buyback_factor(c, f) };
                let get = |c: &Config| if which == 0 { c.gt_factor() } else { c.buyback_factor() };
                if current != 0 && set(&mut c, current).is_err() {
                    sink.case(false);
                    if current <= UNIT {
                        sink.fail("C37/valid_factor_rejected", format!("factor {current} rejected"), json!({"factor": current.to_string(), "which": which}));
                    }
                    continue;
                }
                if get(&c) > UNIT {
                    sink.fail("C37/factor_above_100_percent_stored", format!("stored factor {}", get(&c)), json!({"factor": current.to_string(), "which": which}));
                }
                let before = get(&c);
                let r = set(&mut c, next);
                sink.case(r.is_ok());
                let rp = || json!({"current": current.to_string(), "next": next.to_string(), "which": which});
                match r {
                    Ok(prev) => {
                        if next > UNIT {
                            sink.fail("C37/factor_above_100_percent_stored", format!("factor {next} accepted"), rp());
                        }
                        if prev != before || get(&c) != next {
                            sink.fail("C37/setter_wrong_result", format!("returned {prev}, stored {}", get(&c)), rp());
                        }
                    }
                    Err(_) => {
                        if get(&c) != before {
                            sink.fail("C37/rejected_setter_changed_factor", format!("{before} -> {}", get(&c)), rp());
                        }
                        if next <= UNIT && next != before {
                            sink.fail("C37/valid_factor_rejected", format!("factor {next} rejected (current {before})"), rp());
                        }
                    }
                }
            }
        }
    });
}

struct T {
    w: W,
    tid: Pubkey,
    config: Pubkey,
    tvc: Pubkey,
    vault: Pubkey,
    bank: Pubkey,
    claimants: [Pubkey; 3],
    tokens: Vec<Pubkey>,
}

fn token_entry_2022<'a>(_p: &'a Pubkey, _a: &'a [AccountInfo<'a>], _d: &'a [u8]) -> solana_program::entrypoint::ProgramResult {
    Err(solana_program::program_error::ProgramError::IncorrectProgramId)
}

/// bank with `balances` per token and three exchanges of `gts` GT, vault confirmed
fn setup(balances: &[u64], gts: [u64; 3]) -> (Db, T) {
    let (mut db, w) = world::build();
    let tid = gmsol_treasury::ID;
    register(tid, gmsol_treasury::entry, &mut db);
    register(anchor_spl::token_2022::ID, token_entry_2022, &mut db);
    W::set_time(1_000);
    let (config, cbump) = Pubkey::find_program_address(&[Config::SEED, w.store.as_ref()], &tid);
    let tvc = addr("c37-treasury-vault-config");
    let vault = addr("c37-gt-exchange-vault");
    let (bank, bbump) = Pubkey::find_program_address(&[GtBank::SEED, tvc.as_ref(), vault.as_ref()], &tid);
    let claimants = [addr("c37-claimant-0"), addr("c37-claimant-1"), addr("c37-claimant-2")];
    let tokens: Vec<Pubkey> = [w.a, w.b].into_iter().take(balances.len()).collect();
    // store: GT + GT_CONTROLLER for the treasury config
    let mut store: Store = db.pod(&w.store).expect("store");
    hv::gt_init(hv::gt_mut(&mut store), 0, UNIT / 20, UNIT + UNIT / 100, 1_000_000, &[]).expect("gt init");
    store.enable_role("GT_CONTROLLER").expect("role");
    store.grant(&config, "GT_CONTROLLER").expect("grant");
    // exchanges: mint GT to each claimant, request the exchange into the vault, then confirm after the window
    let mut v: GtExchangeVault = bytemuck::Zeroable::zeroed();
    hv::gt_exchange_vault_init(&mut v, 255, &w.store, 100).expect("vault init");
    for (i, owner) in claimants.iter().enumerate() {
        db.set(*owner, Acc::wallet(10_000_000_000));
        let mut u: UserHeader = bytemuck::Zeroable::zeroed();
        hv::user_init(&mut u, &w.store, owner, 255).expect("user init");
        hv::gt_mint_to(hv::gt_mut(&mut store), &mut u, gts[i]).expect("mint");
        let (ex_key, ex_bump) = Pubkey::find_program_address(&[GtExchange::SEED, vault.as_ref(), owner.as_ref()], &w.pid);
        let mut ex: GtExchange = bytemuck::Zeroable::zeroed();
        hv::gt_exchange_init(&mut ex, ex_bump, owner, &w.store, &vault).expect("exchange init");
        hv::gt_request_exchange(hv::gt_mut(&mut store), &mut u, &mut v, &mut ex, gts[i]).expect("request");
        db.set(ex_key, Acc::new(5_000_000, w.pid, zc(&ex)));
        for t in &tokens {
            db.set(ata(owner, t), token_acc(*t, *owner, 0));
        }
    }
    W::set_time(1_200);
    hv::gt_confirm_exchange_vault(hv::gt_mut(&mut store), &mut v).expect("confirm vault");
    db.set_pod(&w.store, &store);
    db.set(vault, Acc::new(5_000_000, w.pid, zc(&v)));
    // treasury accounts
    let mut c: Config = bytemuck::Zeroable::zeroed();
    tv::config_init(&mut c, cbump, 255, &w.store);
    tv::config_set_treasury_vault_config(&mut c, tvc).expect("tvc");
    db.set(config, Acc::new(5_000_000, tid, zc(&c)));
    let mut t: TreasuryVaultConfig = bytemuck::Zeroable::zeroed();
    tv::treasury_vault_config_init(&mut t, 255, 0, &config);
    db.set(tvc, Acc::new(5_000_000, tid, zc(&t)));
    let mut b: GtBank = bytemuck::Zeroable::zeroed();
    tv::gt_bank_try_init(&mut b, bbump, tvc, vault).expect("bank init");
    for (t, bal) in tokens.iter().zip(balances) {
        tv::gt_bank_record_transferred_in(&mut b, t, *bal).expect("bank in");
        db.set(ata(&bank, t), token_acc(*t, bank, *bal));
    }
    tv::gt_bank_confirm_unchecked(&mut b, gts.iter().sum()).expect("bank confirm");
    db.set(bank, Acc::new(5_000_000, tid, zc(&b)));
    (db, T { w, tid, config, tvc, vault, bank, claimants, tokens })
}

fn claim(t: &T, db: &mut Db, i: usize) -> std::result::Result<(), crate::svm::TxError> {
    let owner = t.claimants[i];
    let exchange = Pubkey::find_program_address(&[GtExchange::SEED, t.vault.as_ref(), owner.as_ref()], &t.w.pid).0;
    let accounts = gmsol_treasury::accounts::CompleteGtExchange {
        owner, store: t.w.store, config: t.config, treasury_vault_config: t.tvc, gt_exchange_vault: t.vault, gt_bank: t.bank, exchange,
        store_program: t.w.pid, token_program: spl_token::ID, token_2022_program: anchor_spl::token_2022::ID,
    };
    let mut i = ix(t.tid, accounts, gmsol_treasury::instruction::CompleteGtExchange {});
    // the bank's tokens in its own (sorted) order, then the bank vaults, then the owner's accounts
    let bank: GtBank = db.pod(&t.bank).expect("bank");
    let toks: Vec<Pubkey> = bank.tokens().collect();
    i.accounts.extend(toks.iter().map(|k| meta(*k, false, false)));
    i.accounts.extend(toks.iter().map(|k| meta(ata(&t.bank, k), false, true)));
    i.accounts.extend(toks.iter().map(|k| meta(ata(&owner, k), false, true)));
    process(db, &i, &[owner])
}

pub fn run(cli: &Cli) -> Report {
    let mut rep = Report::new(cli, "exploration");
    rep.rule("E1: Config::set_gt_factor / set_buyback_factor (hooks) over boundary factors from every reachable current value; E3: the real complete_gt_exchange instruction (treasury entrypoint, CPI to the store's close_gt_exchange, SPL transfers signed by the bank PDA) for all six claim orders of three claimants over a grid of bank balances (one or two tokens) and GT amounts: every claim pays floor(balance * gt / remaining confirmed GT) per token, never more than the bank holds, at least the floor share of the original balance, the recorded balance follows the vault, and the last claim drains the bank; non-trivial = a claim was executed");
    rep.assume("svm-lite runtime trusted; bank, exchange vault, exchanges and treasury config are fabricated through the programs' own (hooked) state functions; a second claim by the same owner fails because the exchange account is closed");
    if let Some(rv) = &cli.replay {
        rep.sample(json!({"note": "grid case: re-run the quick tier", "case": rv}));
        rep.evaluations = 1;
        return rep;
    }
    setters(&mut rep, cli);
    let th = cli.tier.thorough();
    let bals: Vec<Vec<u64>> = if th {
        vec![vec![0], vec![1], vec![2], vec![7], vec![10], vec![999], vec![1_000_003], vec![u64::MAX / 2], vec![7, 1_000], vec![1, 1], vec![3, 0], vec![1_000_003, 999_983]]
    } else {
        vec![vec![1], vec![7], vec![10], vec![1_000_003], vec![7, 1_000], vec![3, 0]]
    };
    let gtsets: Vec<[u64; 3]> = if th {
        vec![[1, 1, 1], [1, 2, 3], [3, 3, 4], [1, 1, 1_000_000], [999_999, 1, 1], [5, 0, 5], [7, 11, 13], [1_000_000, 1_000_000, 1]]
    } else {
        vec![[1, 1, 1], [1, 2, 3], [3, 3, 4], [1, 1, 1_000_000], [5, 0, 5]]
    };
    let orders: [[usize; 3]; 6] = [[0, 1, 2], [0, 2, 1], [1, 0, 2], [1, 2, 0], [2, 0, 1], [2, 1, 0]];
    let counters = e1::run(&mut rep, "claims in every order", &bals, |bal, sink| {
        for gts in &gtsets {
            let (db0, t) = setup(bal, *gts);
            let total: u64 = gts.iter().sum();
            for order in orders {
                let mut db = db0.clone();
                let mut remaining = total;
                W::set_time(1_200);
                for (step, &i) in order.iter().enumerate() {
                    let rp = || json!({"balances": bal, "gt": gts, "order": order, "step": step});
                    let held: Vec<u64> = t.tokens.iter().map(|k| token_amount(&db, &ata(&t.bank, k))).collect();
                    let owned: Vec<u64> = t.tokens.iter().map(|k| token_amount(&db, &ata(&t.claimants[i], k))).collect();
                    let r = claim(&t, &mut db, i);
                    sink.case(r.is_ok());
                    if let Err(e) = &r {
                        sink.fail(if e.is_panic() { "C37/panic" } else { "C37/claim_failed" }, format!("claim {step} by claimant {i}: {e:?}"), rp());
                        break;
                    }
                    sink.count("claims");
                    let bank: GtBank = db.pod(&t.bank).expect("bank");
                    for (k, tok) in t.tokens.iter().enumerate() {
                        let got = token_amount(&db, &ata(&t.claimants[i], tok)) - owned[k];
                        let want = if gts[i] == 0 { 0 } else { fits(&(bu(held[k] as u128) * bu(gts[i] as u128) / bu(remaining as u128)), 64).unwrap_or(u128::MAX) };
                        if got as u128 != want {
                            sink.fail("C37/claim_not_proportional", format!("claimant {i} received {got} of token {k}, floor({} * {} / {remaining}) = {want}", held[k], gts[i]), rp());
                        }
                        if got > held[k] {
                            sink.fail("C37/claim_exceeds_bank_holdings", format!("{got} > {}", held[k]), rp());
                        }
                        let floor_share = bu(bal[k] as u128) * bu(gts[i] as u128) / bu(total as u128);
                        if bu(got as u128) < floor_share {
                            sink.fail("C37/claim_below_floor_share_of_original", format!("claimant {i} got {got} of token {k}, floor share of the original balance is {floor_share}"), rp());
                        }
                        let now_held = token_amount(&db, &ata(&t.bank, tok));
                        if bank.get_balance(tok) != Some(now_held) || now_held != held[k] - got {
                            sink.fail("C37/recorded_balance_differs_from_vault", format!("token {k}: recorded {:?}, vault {now_held}", bank.get_balance(tok)), rp());
                        }
                    }
                    remaining -= gts[i];
                    if tv::gt_bank_remaining_confirmed_gt_amount(&bank) != remaining {
                        sink.fail("C37/remaining_gt_wrong", format!("remaining {} expected {remaining}", tv::gt_bank_remaining_confirmed_gt_amount(&bank)), rp());
                    }
                    // a second claim with the same (now closed) exchange must fail
                    let mut d2 = db.clone();
                    if claim(&t, &mut d2, i).is_ok() {
                        sink.fail("C37/exchange_claimed_twice", format!("claimant {i} claimed again"), rp());
                    }
                }
                if remaining == 0 {
                    for (k, tok) in t.tokens.iter().enumerate() {
                        let left = token_amount(&db, &ata(&t.bank, tok));
                        if left != 0 {
                            sink.fail("C37/last_claim_did_not_drain_the_bank", format!("{left} of token {k} left after all claims (order {order:?})"), json!({"balances": bal, "gt": gts, "order": order}));
                        }
                    }
                }
            }
        }
    });
    if counters.get("claims").copied().unwrap_or(0) == 0 {
        rep.machinery("vacuous exploration: no claim was executed");
    }
    rep
}
