//! C38, unstaking clauses (E3): the real liquidity-provider program (stake_gm / unstake_lp / set_claim_enabled /
//! update_min_stake_value) over the real store (pricing CPI with oracle feeds, GT cost-factor and GT reward CPIs),
//! explored breadth first; a third party may drop dust into a position vault.
use anchor_lang::prelude::*;
use anchor_lang::AccountDeserialize;
use gmsol_liquidity_provider as lp;
use gmsol_store::states::{Oracle, Store};
use mc_core::{
    e2::{self, Machine, StepOut},
    json, Cli, Report,
};

use crate::svm::{addr, meta, process, register, Acc, Db, TxError};
use crate::world::{self, ata, ix, sys, token_acc, token_amount, W};

#[derive(Clone, Copy, Debug)]
enum Act {
    /// stake the k-th amount into position `pid`
    Stake(u64, usize),
    /// unstake from position `pid`: 0 = everything, 1 = half, 2 = all but one token, 3 = one token, 4 = more than staked
    Unstake(u64, u8),
    /// unstake by someone who does not own the position
    UnstakeByStranger(u64),
    SetClaim(bool),
    SetMin(usize),
    Adv(i64),
    /// a third party sends tokens into the vault of position `pid`
    Dust(u64, u64),
}

const STAKES: [u64; 2] = [40_000_000_000, 7_000_000_001];
/// min stake values (USD, unit 10^20): none, 5 USD, 30 USD
const MINS: [u128; 3] = [0, 5 * 100_000_000_000_000_000_000, 30 * 100_000_000_000_000_000_000];

#[derive(Clone)]
struct St {
    db: Db,
    now: i64,
}

struct Lp {
    w: W,
    acts: Vec<Act>,
    pid: Pubkey,
    global_state: Pubkey,
    controller: Pubkey,
    oracle: Pubkey,
    owner: Pubkey,
}

impl Lp {
    fn position(&self, owner: &Pubkey, id: u64) -> Pubkey {
        Pubkey::find_program_address(&[lp::POSITION_SEED, self.controller.as_ref(), owner.as_ref(), &id.to_le_bytes()], &self.pid).0
    }
    fn vault(&self, position: &Pubkey) -> Pubkey {
        Pubkey::find_program_address(&[lp::VAULT_SEED, position.as_ref()], &self.pid).0
    }
    fn read<T: AccountDeserialize>(db: &Db, k: &Pubkey) -> Option<T> {
        let a = db.accounts.get(k)?;
        if a.data.len() < 8 {
            return None;
        }
        T::try_deserialize(&mut &a.data[..]).ok()
    }
    fn global(&self, db: &Db) -> lp::GlobalState {
        Self::read(db, &self.global_state).expect("global state")
    }
    fn stake(&self, db: &mut Db, id: u64, amount: u64) -> std::result::Result<(), TxError> {
        let w = &self.w;
        let position = self.position(&self.owner, id);
        let accounts = lp::accounts::StakeGm {
            global_state: self.global_state, controller: self.controller, lp_mint: w.m1.market_token, position, position_vault: self.vault(&position),
            gt_store: w.store, gt_program: w.pid, owner: self.owner, user_lp_token: ata(&self.owner, &w.m1.market_token),
            token_map: w.token_map, oracle: self.oracle, market: w.m1.market, event_authority: w.event_authority, system_program: sys(), token_program: spl_token::ID,
        };
        let mut i = ix(self.pid, accounts, lp::instruction::StakeGm { position_id: id, gm_staked_amount: amount });
        i.accounts.extend(w.feeds_for(&w.m1));
        process(db, &i, &[self.owner])
    }
    fn unstake(&self, db: &mut Db, id: u64, amount: u64, by: Pubkey) -> std::result::Result<(), TxError> {
        let w = &self.w;
        let position = self.position(&self.owner, id);
        let accounts = lp::accounts::UnstakeLp {
            global_state: self.global_state, controller: self.controller, lp_mint: w.m1.market_token, store: w.store, gt_program: w.pid, position, position_vault: self.vault(&position),
            owner: by, gt_user: w.user_pda(&by), user_lp_token: ata(&by, &w.m1.market_token), event_authority: w.event_authority, token_program: spl_token::ID,
        };
        process(db, &ix(self.pid, accounts, lp::instruction::UnstakeLp { _position_id: id, unstake_amount: amount }), &[by])
    }
}

impl Machine for Lp {
    type State = St;
    type Action = Act;
    fn actions(&self) -> &[Act] {
        &self.acts
    }
    fn key(&self, s: &St) -> u128 {
        use std::hash::Hasher;
        let mut h = std::collections::hash_map::DefaultHasher::new();
        s.db.hash_into(&mut h);
        mc_core::hash128(&(h.finish(), s.now))
    }
    fn step(&self, s: &St, a: &Act, out: &mut StepOut) -> St {
        W::set_time(s.now);
        crate::svm::set_last_restart_slot(0);
        let mut n = s.clone();
        let w = &self.w;
        let gm = w.m1.market_token;
        match *a {
            Act::Adv(dt) => {
                n.now += dt;
                w.set_feeds(&mut n.db, n.now, (12_0000_0000, 12_0000_0000), (1_0000_0000, 1_0000_0000));
                out.label = "env";
            }
            Act::Dust(id, k) => {
                let v = self.vault(&self.position(&self.owner, id));
                if n.db.exists(&v) {
                    let have = token_amount(&n.db, &v);
                    let from = ata(&w.user2, &gm);
                    let src = token_amount(&n.db, &from);
                    if src >= k {
                        // a plain SPL transfer by a third party
                        let t = spl_token::instruction::transfer(&spl_token::ID, &from, &v, &w.user2, &[], k).expect("transfer ix");
                        process(&mut n.db, &t, &[w.user2]).expect("dust transfer");
                        assert_eq!(token_amount(&n.db, &v), have + k);
                        out.label = "env";
                        return n;
                    }
                }
                out.label = "noop";
                out.prune = true;
            }
            Act::SetClaim(on) => {
                let accounts = lp::accounts::SetClaimEnabled { global_state: self.global_state, authority: w.admin };
                let r = process(&mut n.db, &ix(self.pid, accounts, lp::instruction::SetClaimEnabled { enabled: on }), &[w.admin]);
                out.label = if r.is_ok() { "ok" } else { "err" };
                if r.is_ok() && self.global(&n.db).claim_enabled != on {
                    out.fail("C38/claim_flag_not_set", format!("{a:?}"));
                }
            }
            Act::SetMin(k) => {
                let accounts = lp::accounts::UpdateMinStakeValue { global_state: self.global_state, authority: w.admin };
                let r = process(&mut n.db, &ix(self.pid, accounts, lp::instruction::UpdateMinStakeValue { new_min_stake_value: MINS[k] }), &[w.admin]);
                out.label = if r.is_ok() { "ok" } else { "err" };
            }
            Act::Stake(id, k) => {
                let r = self.stake(&mut n.db, id, STAKES[k]);
                out.label = if r.is_ok() { "ok" } else { "err" };
                if let Err(e) = &r {
                    if e.is_panic() {
                        out.fail("C38/panic", format!("{a:?}: {e:?}"));
                    }
                }
                if r.is_ok() {
                    let p: lp::Position = Self::read(&n.db, &self.position(&self.owner, id)).expect("position");
                    let v = token_amount(&n.db, &self.vault(&self.position(&self.owner, id)));
                    // (staking itself is outside the property: recorded only)
                    if p.staked_amount != STAKES[k] || v != STAKES[k] || p.staked_value_usd < self.global(&s.db).min_stake_value {
                        out.count("stake_recorded_differently_from_the_request", 1);
                    }
                }
            }
            Act::UnstakeByStranger(id) => {
                let Some(p0) = Self::read::<lp::Position>(&s.db, &self.position(&self.owner, id)) else {
                    out.label = "noop";
                    out.prune = true;
                    return n;
                };
                w.ensure_ata(&mut n.db, &w.user2, &gm);
                let r = self.unstake(&mut n.db, id, p0.staked_amount, w.user2);
                out.label = if r.is_ok() { "ok" } else { "err" };
                if r.is_ok() {
                    out.fail("C38/unstaked_by_non_owner", format!("{a:?} succeeded"));
                }
            }
            Act::Unstake(id, mode) => {
                let pos_key = self.position(&self.owner, id);
                let Some(p0) = Self::read::<lp::Position>(&s.db, &pos_key) else {
                    out.label = "noop";
                    out.prune = true;
                    return n;
                };
                let g = self.global(&s.db);
                let old = p0.staked_amount;
                let amount = match mode {
                    0 => old,
                    1 => old / 2,
                    2 => old - 1,
                    3 => 1,
                    _ => old + 1,
                };
                let vault_key = self.vault(&pos_key);
                let (vault0, user0) = (token_amount(&s.db, &vault_key), token_amount(&s.db, &ata(&self.owner, &gm)));
                let ctrl0: lp::LpTokenController = Self::read(&s.db, &self.controller).expect("controller");
                let gt0 = n.db.pod::<gmsol_store::states::UserHeader>(&w.user_pda(&self.owner)).map(|u| u.gt().amount()).unwrap_or(0);
                let r = self.unstake(&mut n.db, id, amount, self.owner);
                out.label = if r.is_ok() { "ok" } else { "err" };
                if let Err(e) = &r {
                    if e.is_panic() {
                        out.fail("C38/panic", format!("{a:?}: {e:?}"));
                    }
                }
                // reference
                let valid_amount = amount > 0 && amount <= old;
                let remaining = old.saturating_sub(amount);
                let new_value = if remaining == 0 { 0 } else { (mc_core::big::bu(p0.staked_value_usd) * mc_core::big::bu(remaining as u128) / mc_core::big::bu(old as u128)).try_into().unwrap_or(u128::MAX) };
                let full_exit = remaining == 0 || new_value < g.min_stake_value;
                let allowed = valid_amount && (g.claim_enabled || amount == old);
                let rp = format!("{a:?}: staked {old} (value {}), unstake {amount}, claims enabled {}, min stake value {}, vault {vault0}", p0.staked_value_usd, g.claim_enabled, g.min_stake_value);
                match (&r, allowed) {
                    (Ok(()), false) => {
                        out.fail(if !g.claim_enabled && amount != old { "C38/partial_unstake_while_claims_disabled" } else { "C38/invalid_unstake_accepted" }, rp.clone());
                    }
                    (Err(e), true) => out.fail("C38/valid_unstake_rejected", format!("{rp}: {e:?}")),
                    _ => {}
                }
                if r.is_ok() {
                    let (vault1, user1) = (token_amount(&n.db, &vault_key), token_amount(&n.db, &ata(&self.owner, &gm)));
                    let got = user1 - user0;
                    let p1 = Self::read::<lp::Position>(&n.db, &pos_key);
                    let ctrl1: lp::LpTokenController = Self::read(&n.db, &self.controller).expect("controller");
                    if full_exit {
                        out.count("full_exits", 1);
                        if vault0 != old {
                            out.count("full_exits_with_dust_in_the_vault", 1);
                        }
                        if amount != old {
                            out.count("full_exits_forced_by_the_minimum_stake_value", 1);
                        }
                        if got != vault0 || vault1 != 0 || n.db.exists(&vault_key) && n.db.get(&vault_key).lamports != 0 {
                            out.fail("C38/full_exit_did_not_sweep_the_vault", format!("{rp}: the owner received {got}, the vault holds {vault1}"));
                        }
                        if p1.is_some() {
                            out.fail("C38/full_exit_left_the_position", rp.clone());
                        }
                        if ctrl1.total_positions + 1 != ctrl0.total_positions {
                            out.count("position_count_not_decremented_on_full_exit", 1);
                        }
                    } else {
                        out.count("partial_unstakes", 1);
                        if got != amount || vault1 != vault0 - amount {
                            out.fail("C38/partial_unstake_paid_a_different_amount", format!("{rp}: the owner received {got}, the vault went {vault0} -> {vault1}"));
                        }
                        match p1 {
                            Some(p1) => {
                                if p1.staked_amount != remaining || p1.staked_value_usd != new_value {
                                    out.fail("C38/partial_unstake_kept_a_wrong_value", format!("{rp}: position now ({}, {}), expected ({remaining}, {new_value})", p1.staked_amount, p1.staked_value_usd));
                                }
                            }
                            None => out.fail("C38/partial_unstake_closed_the_position", rp.clone()),
                        }
                        if ctrl1.total_positions != ctrl0.total_positions {
                            out.count("position_count_changed_on_partial_unstake", 1);
                        }
                    }
                    let gt1 = n.db.pod::<gmsol_store::states::UserHeader>(&w.user_pda(&self.owner)).map(|u| u.gt().amount()).unwrap_or(0);
                    if gt1 < gt0 {
                        out.fail("C38/unstake_reduced_gt_balance", format!("{rp}: GT {gt0} -> {gt1}"));
                    }
                    if gt1 > gt0 {
                        out.count("unstakes_that_minted_gt", 1);
                    }
                }
            }
        }
        n
    }
}

pub fn run(rep: &mut Report, cli: &Cli) {
    let th = cli.tier.thorough();
    let (mut db, w) = world::build();
    W::set_time(1_000);
    let pid = lp::ID;
    register(pid, lp::entry, &mut db);
    let global_state = Pubkey::find_program_address(&[lp::GLOBAL_STATE_SEED], &pid).0;
    // store: GT initialised, the LP program's global state is a GT controller
    {
        let mut store: Store = db.pod(&w.store).expect("store");
        gmsol_store::verif::gt_init(gmsol_store::verif::gt_mut(&mut store), 7, 100_000_000_000_000_000_000 / 20_000_000, 101 * 100_000_000_000_000_000_000 / 100, 1_000_000_000, &[]).expect("gt init");
        if store.role().role_index("GT_CONTROLLER").ok().flatten().is_none() {
            store.enable_role("GT_CONTROLLER").expect("role");
        }
        store.grant(&global_state, "GT_CONTROLLER").expect("grant");
        db.set_pod(&w.store, &store);
    }
    let run = |db: &mut Db, name: &str, i: solana_program::instruction::Instruction, signers: &[Pubkey]| process(db, &i, signers).unwrap_or_else(|e| panic!("c38 world: {name}: {e:?}"));
    // liquidity and market tokens for the staker and for the dust sender
    for (k, u) in [w.user2, w.user].iter().enumerate() {
        let n = [70 + k as u8; 32];
        w.create_deposit(&mut db, &w.m1, *u, n, 50_000_000, 300_000_000, 0, *u).expect("seed create");
        w.execute_deposit(&mut db, &w.m1, *u, n, w.keeper, true).expect("seed execute");
        w.close_deposit(&mut db, &w.m1, *u, n, *u).expect("seed close");
    }
    for u in [w.user, w.user2] {
        w.prepare_user(&mut db, u).expect("prepare_user");
    }
    // an oracle whose authority is the LP program's global state (pricing CPI)
    let oracle = addr("c38-oracle");
    db.set(oracle, Acc::new(1_000_000_000, w.pid, vec![0u8; 8 + std::mem::size_of::<Oracle>()]));
    run(&mut db, "initialize_oracle", ix(w.pid, gmsol_store::accounts::InitializeOracle { payer: w.keeper, authority: global_state, store: w.store, oracle, system_program: sys() }, gmsol_store::instruction::InitializeOracle {}), &[w.keeper]);
    run(&mut db, "initialize", ix(pid, lp::accounts::Initialize { global_state, authority: w.admin, system_program: sys() }, lp::instruction::Initialize { min_stake_value: MINS[1], initial_apy: 15 * 100_000_000_000_000_000_000 / 100 }), &[w.admin]);
    let controller = Pubkey::find_program_address(&[lp::LP_TOKEN_CONTROLLER_SEED, global_state.as_ref(), w.m1.market_token.as_ref(), &0u64.to_le_bytes()], &pid).0;
    run(&mut db, "create_lp_token_controller", ix(pid, lp::accounts::CreateLpTokenController { global_state, controller, authority: w.admin, system_program: sys() }, lp::instruction::CreateLpTokenController { lp_token_mint: w.m1.market_token, controller_index: 0 }), &[w.admin]);
    let _ = (meta(oracle, false, false), token_acc(w.a, w.user, 0));
    let mut acts = vec![];
    let ids: Vec<u64> = if th { vec![0, 1] } else { vec![0] };
    for &id in &ids {
        acts.push(Act::Stake(id, 0));
        if th {
            acts.push(Act::Stake(id, 1));
        }
        for mode in 0..5u8 {
            acts.push(Act::Unstake(id, mode));
        }
        acts.push(Act::UnstakeByStranger(id));
        acts.push(Act::Dust(id, 3));
    }
    acts.extend([Act::SetClaim(true), Act::SetClaim(false), Act::SetMin(0), Act::SetMin(2), Act::Adv(86_400)]);
    if th {
        acts.extend([Act::SetMin(1), Act::Adv(8 * 86_400)]);
    }
    let owner = w.user;
    let m = Lp { w, acts, pid, global_state, controller, oracle, owner };
    let start = St { db, now: 1_000 };
    if let Some(rv) = &cli.replay {
        e2::replay_into(rep, &m, &[start], rv);
        return;
    }
    let depth = if th { 6 } else { 5 };
    let o = e2::explore(rep, "stake / unstake histories through the liquidity-provider program", &m, vec![start], &e2::Config { depth, max_states: 3_000_000 }, json!({"machine": "lp"}));
    for k in ["Stake:ok", "Unstake:ok", "Unstake:err", "UnstakeByStranger:err", "Dust:env"] {
        if o.histogram.get(k).copied().unwrap_or(0) == 0 && rep.violations_total() == 0 {
            rep.machinery(format!("vacuous staking exploration: outcome {k} never occurred"));
        }
    }
    for k in ["full_exits", "partial_unstakes", "full_exits_with_dust_in_the_vault", "full_exits_forced_by_the_minimum_stake_value", "unstakes_that_minted_gt"] {
        if o.counters.get(k).copied().unwrap_or(0) == 0 && rep.violations_total() == 0 {
            rep.machinery(format!("vacuous staking exploration: {k} never occurred"));
        }
    }
}
