//! C15 — single-token (pure) pools account for every token exactly once (E2 on both Pool types).
use gmsol_model::{Balance, Pool as _};
use gmsol_programs::gmsol_store::types::Pool as SdkPool;
use gmsol_store::states::market::pool::Pool as ProgPool;
use mc_core::{
    e2::{self, Machine, StepOut},
    json, Cli, Report,
};

fn prog_pool(pure: bool, long: u128, short: u128) -> ProgPool {
    let mut p: ProgPool = bytemuck::Zeroable::zeroed();
    let b = bytemuck::bytes_of_mut(&mut p);
    b[0] = pure as u8;
    b[16..32].copy_from_slice(&long.to_le_bytes());
    b[32..48].copy_from_slice(&short.to_le_bytes());
    p
}

fn sdk_of(p: &ProgPool) -> SdkPool {
    bytemuck::pod_read_unaligned(bytemuck::bytes_of(p))
}

#[derive(Clone)]
struct St {
    prog: ProgPool,
    sdk: SdkPool,
    /// reference: (long, short) for impure pools, (total, 0) for pure ones
    reference: (u128, u128),
}

struct Pools {
    pure: bool,
    acts: Vec<(bool, i128)>,
}

impl Pools {
    fn views(&self, st: &St, out: &mut StepOut) {
        let (rl, rs) = if self.pure { (st.reference.0 / 2 + st.reference.0 % 2, st.reference.0 / 2) } else { st.reference };
        for (name, l, s) in [("program", st.prog.long_amount(), st.prog.short_amount()), ("sdk", st.sdk.long_amount(), st.sdk.short_amount())] {
            match (l, s) {
                (Ok(l), Ok(s)) => {
                    if self.pure && l.checked_add(s) != Some(st.reference.0) {
                        out.fail("C15/views_do_not_add_up_to_total", format!("{name} pool: long view {l} + short view {s} != stored total {}", st.reference.0));
                    }
                    if (l, s) != (rl, rs) {
                        out.fail("C15/view_differs_from_reference", format!("{name} pool: views ({l},{s}) reference ({rl},{rs})"));
                    }
                }
                _ => out.fail("C15/view_failed", format!("{name} pool: amount view failed")),
            }
        }
        if bytemuck::bytes_of(&st.prog) != bytemuck::bytes_of(&st.sdk) {
            out.fail("C15/sdk_program_pool_bytes_differ", "the two implementations diverged".into());
        }
        // netting leaves only the parity remainder (pure) / the absolute difference on the larger side (impure)
        let want = if self.pure { (st.reference.0 & 1, 0u128) } else { (st.reference.0.saturating_sub(st.reference.1), st.reference.1.saturating_sub(st.reference.0)) };
        match st.prog.checked_cancel_amounts() {
            Ok(c) => {
                let got = (c.long_amount().unwrap_or(u128::MAX), c.short_amount().unwrap_or(u128::MAX));
                let total = got.0.checked_add(got.1);
                if self.pure {
                    if total != Some(want.0) {
                        out.fail("C15/netting_leaves_more_than_parity", format!("program pool total {} nets to views {got:?}", st.reference.0));
                    }
                } else if got != want {
                    out.fail("C15/netting_wrong", format!("program pool {:?} nets to {got:?}, want {want:?}", st.reference));
                }
            }
            Err(e) => out.fail("C15/netting_failed", format!("program pool: {e}")),
        }
        if let Ok(c) = st.sdk.checked_cancel_amounts() {
            let got = (c.long_amount().unwrap_or(u128::MAX), c.short_amount().unwrap_or(u128::MAX));
            if self.pure {
                if got.0.checked_add(got.1) != Some(want.0) {
                    out.fail("C15/netting_leaves_more_than_parity", format!("sdk pool total {} nets to views {got:?}", st.reference.0));
                }
            } else if got != want {
                out.fail("C15/netting_wrong", format!("sdk pool {:?} nets to {got:?}, want {want:?}", st.reference));
            }
        }
    }
}

impl Machine for Pools {
    type State = St;
    type Action = (bool, i128);
    fn actions(&self) -> &[(bool, i128)] {
        &self.acts
    }
    fn key(&self, s: &St) -> u128 {
        mc_core::hash128(&(bytemuck::bytes_of(&s.prog), bytemuck::bytes_of(&s.sdk), s.reference))
    }
    fn check_start(&self, s: &St, out: &mut StepOut) {
        self.views(s, out);
    }
    fn step(&self, s: &St, a: &(bool, i128), out: &mut StepOut) -> St {
        let mut n = s.clone();
        let (is_long, d) = *a;
        // reference
        let slot = if self.pure || is_long { &mut n.reference.0 } else { &mut n.reference.1 };
        let want = slot.checked_add_signed(d);
        if let Some(v) = want {
            *slot = v;
        }
        let rp = if is_long { n.prog.apply_delta_to_long_amount(&d) } else { n.prog.apply_delta_to_short_amount(&d) };
        let rs = if is_long { n.sdk.apply_delta_to_long_amount(&d) } else { n.sdk.apply_delta_to_short_amount(&d) };
        for (name, r, before, after) in [("program", rp.is_ok(), bytemuck::bytes_of(&s.prog).to_vec(), bytemuck::bytes_of(&n.prog).to_vec()), ("sdk", rs.is_ok(), bytemuck::bytes_of(&s.sdk).to_vec(), bytemuck::bytes_of(&n.sdk).to_vec())] {
            match (r, want) {
                (true, Some(_)) => {}
                (false, None) => {
                    if before != after {
                        out.fail("C15/failed_delta_changed_pool", format!("{name}: delta {d} on side long={is_long} failed but changed the pool"));
                    }
                }
                (true, None) => out.fail("C15/delta_wrapped", format!("{name}: delta {d} on total/side {:?} must fail", s.reference)),
                (false, Some(_)) => out.fail("C15/delta_rejected", format!("{name}: delta {d} on {:?} must succeed", s.reference)),
            }
        }
        out.label = if want.is_some() { "ok" } else { "err" };
        if want.is_none() {
            // keep exploring from the unchanged state
            n = s.clone();
        }
        self.views(&n, out);
        n
    }
}

fn machine(pure: bool, cli: &Cli) -> (Pools, Vec<St>) {
    let mut deltas: Vec<i128> = vec![1, -1, 2, -2, 3, (1 << 126), -(1 << 126), i128::MAX, i128::MIN, i128::MIN + 1];
    deltas.extend(cli.extras(15, 2, 1, i128::MAX as u128).into_iter().map(|v| v as i128));
    let mut acts = vec![];
    for d in deltas {
        acts.push((true, d));
        acts.push((false, d));
    }
    let totals: Vec<u128> = vec![0, 1, 2, 3, 4, 5, (1 << 127) - 1, 1 << 127, (1 << 127) + 1, u128::MAX - 2, u128::MAX - 1, u128::MAX];
    let mut starts = vec![];
    for &t in &totals {
        if pure {
            let p = prog_pool(true, t, 0);
            starts.push(St { prog: p, sdk: sdk_of(&p), reference: (t, 0) });
        } else {
            for &s in &[0u128, 1, 7, u128::MAX] {
                let p = prog_pool(false, t, s);
                starts.push(St { prog: p, sdk: sdk_of(&p), reference: (t, s) });
            }
        }
    }
    (Pools { pure, acts }, starts)
}

pub fn run(cli: &Cli) -> Report {
    let mut rep = Report::new(cli, "model_checking");
    rep.rule("E2: every sequence of signed deltas (±1, ±2, 3, ±2^126, i128::MAX, i128::MIN, i128::MIN+1, seed extras) on either side, to depth 3/4, from pools whose stored amounts sit at 0..5, 2^127±1 and u128::MAX, executed in lock-step on the program's Pool and the SDK's Pool (same bytes) against a single-total (pure) / pair (impure) reference; views, totals and netting checked in every state");
    rep.assume("pool structs are built from bytes (is_pure flag at offset 0, amounts at 16 and 32)");
    let depth = cli.tier.pick(3, 4);
    for pure in [true, false] {
        let (m, starts) = machine(pure, cli);
        if let Some(rv) = &cli.replay {
            if rv["ctx"]["pure"].as_bool() == Some(pure) {
                e2::replay_into(&mut rep, &m, &starts, rv);
            }
            continue;
        }
        e2::explore(&mut rep, if pure { "pure pool" } else { "impure pool" }, &m, starts, &e2::Config { depth, max_states: 20_000_000 }, json!({"pure": pure}));
    }
    rep
}
