//! C45 — GLV vaults keep their composition and price in their own favour.
//!
//! Three sections, all through the real program:
//! 1. composition (E1/E3): `initialize_glv` with every ordered selection of up to three markets out of
//!    six (three over A/B, one over B/C, one over A/C, one over B/A) and `insert_glv_market` of every market into every
//!    accepted GLV: accepted exactly when all markets carry the GLV's long and short token (and are not
//!    already contained); after every accepted instruction every contained market is re-read and compared;
//! 2. balance caps (E1 on the real `Glv` struct through the visibility hook): `validate_market_token_balance`
//!    over boundary values of (max_amount, max_value, new balance, pool value, supply) against a big-integer
//!    definition;
//! 3. pricing histories (E3, breadth first): GLV deposits (market tokens, long tokens, short tokens, mixed),
//!    GLV withdrawals, price changes with min != max, cap changes and fabricated open interest, by real
//!    create/execute/close instructions; every executed deposit/withdrawal is compared with a reference that
//!    values the vault maximised for deposits and minimised for withdrawals; every reachable state is probed
//!    with deposit-then-withdraw round trips.
use anchor_lang::prelude::*;
use gmsol_model::{price::{Price, Prices}, LiquidityMarketExt, PnlFactorKind};
use gmsol_programs::model::MarketModel;
use gmsol_store::states::common::action::Action;
use gmsol_store::states::{Glv, GlvDeposit, GlvWithdrawal, Market, Seed};
use gmsol_utils::action::ActionState;
use mc_core::{big, e1, e2::{self, Machine, StepOut}, json, Cli, Report};
use std::sync::Arc;

use crate::svm::{meta, process, register, Db, TxError};
use crate::world::{self, ata, ix, mint_supply, sys, token_amount, MarketKeys, W};

const T22: Pubkey = anchor_spl::token_2022::ID;

fn token22_entry<'a>(p: &'a Pubkey, a: &'a [AccountInfo<'a>], d: &'a [u8]) -> solana_program::entrypoint::ProgramResult {
    spl_token_2022::processor::Processor::process(p, a, d)
}

fn ata22(owner: &Pubkey, mint: &Pubkey) -> Pubkey {
    spl_associated_token_account::get_associated_token_address_with_program_id(owner, mint, &T22)
}

/// a plain (extension-less) token-2022 account
fn token22_acc(mint: Pubkey, owner: Pubkey, amount: u64) -> crate::svm::Acc {
    let mut a = world::token_acc(mint, owner, amount);
    a.owner = T22;
    a
}

fn amount22(db: &Db, k: &Pubkey) -> u64 {
    use spl_token_2022::extension::StateWithExtensions;
    db.accounts.get(k).and_then(|a| StateWithExtensions::<spl_token_2022::state::Account>::unpack(&a.data).ok().map(|s| s.base.amount)).unwrap_or(0)
}

fn supply22(db: &Db, k: &Pubkey) -> u64 {
    use spl_token_2022::extension::StateWithExtensions;
    db.accounts.get(k).and_then(|a| StateWithExtensions::<spl_token_2022::state::Mint>::unpack(&a.data).ok().map(|s| s.base.supply)).unwrap_or(0)
}

#[derive(Clone)]
struct G {
    w: W,
    glv: Pubkey,
    glv_token: Pubkey,
    /// markets of the world that may be put into a GLV: m1 (A|A/B), m2 (B|A/B), m3 (C|B/C), m4 (C|A/C), m5 (B|B/A), m6 (C|A/B)
    all: Vec<MarketKeys>,
}

pub fn glv_keys(w: &W, index: u16) -> (Pubkey, Pubkey) {
    let glv_token = Glv::find_glv_token_pda(&w.store, index, &w.pid).0;
    (Glv::find_glv_pda(&glv_token, &w.pid).0, glv_token)
}

fn base_world() -> (Db, W, Vec<MarketKeys>) {
    let (mut db, w) = world::build();
    register(T22, token22_entry, &mut db);
    let pid = w.pid;
    let run = |db: &mut Db, name: &str, i: solana_program::instruction::Instruction, signers: &[Pubkey]| process(db, &i, signers).unwrap_or_else(|e| panic!("c45 world: {name}: {e:?}"));
    // a third token and two markets that do not share the A/B pair
    let c = crate::svm::addr("w-token-c");
    db.set(c, world::mint_acc(6, 1_000_000_000_000_000, None));
    let feed_id_c = crate::svm::addr("w-feed-id-c");
    let mut builder = gmsol_utils::token_config::UpdateTokenConfigParams::default();
    builder.feeds[0] = feed_id_c;
    builder.expected_provider = Some(0);
    builder.heartbeat_duration = 60;
    builder.precision = 4;
    run(&mut db, "push_to_token_map", ix(pid, gmsol_store::accounts::PushToTokenMap { authority: w.keeper, store: w.store, token_map: w.token_map, token: c, system_program: sys() }, gmsol_store::instruction::PushToTokenMap { name: "C".into(), builder, enable: true, new: true }), &[w.keeper]);
    run(&mut db, "initialize_market_vault", ix(pid, gmsol_store::accounts::InitializeMarketVault { authority: w.keeper, store: w.store, mint: c, vault: w.vault(&c), system_program: sys(), token_program: spl_token::ID }, gmsol_store::instruction::InitializeMarketVault {}), &[w.keeper]);
    let mut mk = |index: Pubkey, long: Pubkey, short: Pubkey, name: &str| {
        let market_token = Pubkey::find_program_address(&[b"market_token_mint", w.store.as_ref(), index.as_ref(), long.as_ref(), short.as_ref()], &pid).0;
        let market = Pubkey::find_program_address(&[Market::SEED, w.store.as_ref(), market_token.as_ref()], &pid).0;
        run(&mut db, "initialize_market", ix(pid, gmsol_store::accounts::InitializeMarket { authority: w.keeper, store: w.store, market_token_mint: market_token, long_token_mint: long, short_token_mint: short, market, token_map: w.token_map, long_token_vault: w.vault(&long), short_token_vault: w.vault(&short), system_program: sys(), token_program: spl_token::ID }, gmsol_store::instruction::InitializeMarket { index_token_mint: index, name: name.into(), enable: true }), &[w.keeper]);
        MarketKeys { market_token, market, index, long, short }
    };
    let m3 = mk(c, w.b, c, "C/USD[B-C]");
    let m4 = mk(c, w.a, c, "C/USD[A-C]");
    let m5 = mk(w.b, w.b, w.a, "B/USD[B-A]");
    let m6 = mk(c, w.a, w.b, "C/USD[A-B]");
    let all = vec![w.m1.clone(), w.m2.clone(), m3, m4, m5, m6];
    (db, w, all)
}

pub fn register_token_2022(db: &mut Db) {
    register(T22, token22_entry, db);
}

pub fn initialize_glv_ix(w: &W, index: u16, markets: &[&MarketKeys], by: Pubkey) -> solana_program::instruction::Instruction {
    let (glv, glv_token) = glv_keys(w, index);
    let accounts = gmsol_store::accounts::InitializeGlv { authority: by, store: w.store, glv_token, glv, system_program: sys(), token_program: T22, market_token_program: spl_token::ID, associated_token_program: spl_associated_token_account::ID };
    let mut i = ix(w.pid, accounts, gmsol_store::instruction::InitializeGlv { index, length: markets.len() as u16 });
    i.accounts.extend(markets.iter().map(|m| meta(m.market, false, false)));
    // market tokens and vaults in ascending market-token order, which is the order the instruction pairs them in
    let mut sorted: Vec<&&MarketKeys> = markets.iter().collect();
    sorted.sort_by_key(|m| m.market_token);
    i.accounts.extend(sorted.iter().map(|m| meta(m.market_token, false, false)));
    i.accounts.extend(sorted.iter().map(|m| meta(ata(&glv, &m.market_token), false, true)));
    i
}

fn initialize_glv(db: &mut Db, w: &W, index: u16, markets: &[&MarketKeys]) -> std::result::Result<(Pubkey, Pubkey), TxError> {
    let i = initialize_glv_ix(w, index, markets, w.keeper);
    process(db, &i, &[w.keeper]).map(|_| glv_keys(w, index))
}

fn insert_glv_market(db: &mut Db, w: &W, glv: Pubkey, m: &MarketKeys) -> std::result::Result<(), TxError> {
    let accounts = gmsol_store::accounts::InsertGlvMarket { authority: w.keeper, store: w.store, glv, market_token: m.market_token, market: m.market, vault: ata(&glv, &m.market_token), system_program: sys(), token_program: spl_token::ID, associated_token_program: spl_associated_token_account::ID };
    process(db, &ix(w.pid, accounts, gmsol_store::instruction::InsertGlvMarket {}), &[w.keeper])
}

/// every market token the GLV holds maps to a market of `all` with the GLV's long and short token
fn composition_ok(db: &Db, glv: &Pubkey, all: &[MarketKeys]) -> std::result::Result<usize, String> {
    let g: Glv = db.pod(glv).ok_or("glv account missing")?;
    let mut n = 0;
    for mt in g.market_tokens() {
        let Some(m) = all.iter().find(|m| m.market_token == mt) else { return Err(format!("unknown market token {mt}")) };
        let mk: Market = db.pod(&m.market).ok_or("market missing")?;
        let meta = mk.meta();
        if meta.long_token_mint != *g.long_token() || meta.short_token_mint != *g.short_token() {
            return Err(format!("market {mt} has tokens ({}, {}), the GLV ({}, {})", meta.long_token_mint, meta.short_token_mint, g.long_token(), g.short_token()));
        }
        n += 1;
    }
    Ok(n)
}

fn section_composition(rep: &mut Report, db0: &Db, w: &W, all: &[MarketKeys]) {
    // every ordered selection (with repetition) of 1..=3 markets out of the five
    let mut sels: Vec<Vec<usize>> = vec![];
    let n = all.len();
    for a in 0..n {
        sels.push(vec![a]);
        for b in 0..n {
            sels.push(vec![a, b]);
            for c in 0..n {
                sels.push(vec![a, b, c]);
            }
        }
    }
    let counters = e1::run(rep, "composition: initialize_glv x insert_glv_market", &sels, |sel, sink| {
        W::set_time(1_000);
        let mut db = db0.clone();
        let ms: Vec<&MarketKeys> = sel.iter().map(|i| &all[*i]).collect();
        let distinct = { let mut s = sel.clone(); s.sort(); s.dedup(); s.len() == sel.len() };
        let same_tokens = ms.iter().all(|m| m.long == ms[0].long && m.short == ms[0].short);
        let want = distinct && same_tokens;
        let r = initialize_glv(&mut db, w, 3, &ms);
        sink.case(r.is_ok());
        let rp = json!({"section": "composition", "init": sel});
        match (&r, want) {
            (Ok(_), false) => sink.fail("C45/glv_initialised_with_foreign_market", format!("initialize_glv accepted markets {sel:?} (distinct {distinct}, same tokens {same_tokens})"), rp.clone()),
            (Err(e), true) => sink.fail("C45/valid_glv_rejected", format!("initialize_glv rejected {sel:?}: {e:?}"), rp.clone()),
            _ => {}
        }
        if let Err(e) = &r {
            if e.is_panic() {
                sink.fail("C45/panic", format!("initialize_glv {sel:?}: {e:?}"), rp.clone());
            }
        }
        let Ok((glv, _)) = r else { return };
        match composition_ok(&db, &glv, all) {
            Ok(k) if k == sel.iter().collect::<std::collections::BTreeSet<_>>().len() => {}
            Ok(k) => sink.fail("C45/glv_market_count", format!("{k} markets stored for {sel:?}"), rp.clone()),
            Err(e) => sink.fail("C45/glv_holds_market_with_other_tokens", format!("after initialize_glv {sel:?}: {e}"), rp.clone()),
        }
        // insert every market (one at a time, from the same GLV, and chained)
        let mut chained = db.clone();
        let mut held: Vec<usize> = sel.clone();
        for (j, m) in all.iter().enumerate() {
            for chain in [false, true] {
                let mut d = if chain { chained.clone() } else { db.clone() };
                let held_now: &Vec<usize> = if chain { &held } else { sel };
                let want = !held_now.contains(&j) && m.long == ms[0].long && m.short == ms[0].short;
                let r = insert_glv_market(&mut d, w, glv, m);
                sink.case(r.is_ok());
                sink.count(if r.is_ok() { "insert_accepted" } else { "insert_rejected" });
                let rp = json!({"section": "composition", "init": sel, "insert": j, "chained": chain});
                match (&r, want) {
                    (Ok(()), false) => sink.fail("C45/foreign_market_inserted", format!("insert_glv_market accepted market {j} into the GLV of {held_now:?}"), rp.clone()),
                    (Err(e), true) => sink.fail("C45/valid_market_insert_rejected", format!("market {j} into {held_now:?}: {e:?}"), rp.clone()),
                    _ => {}
                }
                if let Err(e) = composition_ok(&d, &glv, all) {
                    sink.fail("C45/glv_holds_market_with_other_tokens", format!("after insert of {j} into {held_now:?}: {e}"), rp.clone());
                }
                if chain && r.is_ok() {
                    chained = d;
                    held.push(j);
                }
            }
        }
    });
    for k in ["insert_accepted", "insert_rejected"] {
        if counters.get(k).copied().unwrap_or(0) == 0 {
            rep.machinery(format!("vacuous composition section: {k} never occurred"));
        }
    }
}

// ------------------------------------------------------------------ balance caps (E1, struct level)

fn section_caps(rep: &mut Report, w: &W, th: bool) {
    use gmsol_store::verif as hv;
    let (glv_key, glv_token) = glv_keys(w, 9);
    let _ = glv_key;
    let mt = w.m1.market_token;
    let mut glv: Glv = bytemuck::Zeroable::zeroed();
    hv::glv_unchecked_init(&mut glv, 255, 9, &w.store, &glv_token, &w.a, &w.b, &[mt, w.m2.market_token].into_iter().collect()).expect("glv init");
    let u64s: Vec<u64> = if th { vec![0, 1, 2, 999, 1_000, 1_001, 1 << 32, u64::MAX - 1, u64::MAX] } else { vec![0, 1, 999, 1_000, 1_001, u64::MAX] };
    let values: Vec<u128> = if th { vec![0, 1, 999, 1_000, 1_001, 10u128.pow(20), 10u128.pow(30), u128::MAX / 2, u128::MAX] } else { vec![0, 1, 1_000, 10u128.pow(25), u128::MAX] };
    let pools: Vec<i128> = if th { vec![i128::MIN, -1, 0, 1, 1_000, 10i128.pow(25), 10i128.pow(32), i128::MAX] } else { vec![i128::MIN, -1, 0, 1, 10i128.pow(25), i128::MAX] };
    let supplies: Vec<u128> = if th { vec![0, 1, 1_000, 10u128.pow(15), u64::MAX as u128, u128::MAX] } else { vec![0, 1, 1_000, 10u128.pow(15), u128::MAX] };
    e1::run(rep, "balance caps: validate_market_token_balance", &u64s.clone(), |&max_amount, sink| {
        let mut g = glv;
        for &max_value in &values {
            hv::glv_update_market_config(&mut g, &mt, Some(max_amount), Some(max_value)).expect("config");
            for &nb in &u64s {
                for &pv in &pools {
                    for &supply in &supplies {
                        let got = mc_core::catch(|| hv::glv_validate_market_token_balance(&g, &mt, nb, &pv, &supply));
                        // definition: 0 = unlimited; amount cap on the balance; value cap on floor(balance * pool value / supply),
                        // a negative pool value (or an uncomputable value) cannot be shown to respect a value cap
                        let amount_ok = max_amount == 0 || nb <= max_amount;
                        let value_ok = max_value == 0 || (pv >= 0 && big::mul_div_floor(nb as u128, pv as u128, supply).and_then(|v| big::fits(&v, 128)).map(|v| v <= max_value).unwrap_or(false));
                        let want = amount_ok && value_ok;
                        sink.case(max_amount != 0 || max_value != 0);
                        let rp = || json!({"section": "caps", "max_amount": max_amount.to_string(), "max_value": max_value.to_string(), "new_balance": nb.to_string(), "pool_value": pv.to_string(), "supply": supply.to_string()});
                        match got {
                            Err(p) => sink.fail("C45/panic", format!("validate_market_token_balance panicked: {p}"), rp()),
                            Ok(r) => {
                                sink.count(if r.is_ok() { "accepted" } else { "rejected" });
                                if r.is_ok() && !want {
                                    sink.fail("C45/balance_over_cap_accepted", format!("balance {nb} accepted with max_amount {max_amount}, max_value {max_value}, pool value {pv}, supply {supply}"), rp());
                                } else if r.is_err() && want {
                                    sink.fail("C45/balance_within_caps_rejected", format!("balance {nb} rejected with max_amount {max_amount}, max_value {max_value}, pool value {pv}, supply {supply}: {:?}", r.err()), rp());
                                }
                            }
                        }
                    }
                }
            }
        }
    });
}

// ------------------------------------------------------------------ pricing histories (E3)

#[derive(Clone, Debug)]
enum Act {
    /// GLV deposit into market i: (market tokens, long tokens, short tokens)
    Deposit(usize, u64, u64, u64),
    /// GLV withdrawal through market i of 1/den of the user's GLV tokens
    Withdraw(usize, u64),
    /// publish prices: index into PRICES
    Price(usize),
    /// set the caps of market i: index into CAPS
    Caps(usize, usize),
    /// fabricate open interest in market i % 2 so that pending pnl depends on the index price; i >= 2: so much that
    /// the traders' pending profit lies between the pnl caps applied after withdrawals and after deposits
    OpenInterest(usize),
}

const PRICES: [((u128, u128), (u128, u128)); 4] = [
    ((12_0000_0000, 12_0000_0000), (1_0000_0000, 1_0000_0000)),
    ((11_0000_0000, 13_0000_0000), (9900_0000, 1_0100_0000)),
    ((14_0000_0000, 14_5000_0000), (1_0000_0000, 1_0000_0000)),
    ((9_0000_0000, 9_5000_0000), (9900_0000, 1_0100_0000)),
];

/// (max_amount, max_value): 0 = unlimited
const CAPS: [(u64, u128); 4] = [(0, 0), (15_000_000_000, 0), (0, 20 * 100_000_000_000_000_000_000), (12_000_000_000, 15 * 100_000_000_000_000_000_000)];

#[derive(Clone)]
struct St {
    db: Db,
}

struct Hist {
    g: G,
    acts: Vec<Act>,
    probe_round_trips: bool,
}

#[derive(Debug, Clone, PartialEq)]
enum Outcome {
    NotCreated(String),
    HardError(String),
    Cancelled,
    Completed,
}

struct DepositRun {
    outcome: Outcome,
    /// market tokens that entered the GLV vault
    d_in: u64,
    /// GLV tokens minted
    minted: u64,
}

struct WithdrawRun {
    outcome: Outcome,
    /// market tokens that left the GLV vault
    d_out: u64,
    burned: u64,
}

const NONCE_D: [u8; 32] = [0xD1; 32];
const NONCE_W: [u8; 32] = [0xD2; 32];

impl Hist {
    fn markets(&self) -> [&MarketKeys; 2] {
        [&self.g.all[0], &self.g.all[1]]
    }

    fn feeds_sorted(&self) -> Vec<AccountMeta> {
        let w = &self.g.w;
        let mut toks = vec![(w.a, w.feed_a), (w.b, w.feed_b)];
        toks.sort();
        toks.into_iter().map(|(_, f)| meta(f, false, false)).collect()
    }

    /// the GLV's markets and market tokens in the GLV's own order, as every GLV execution expects them
    fn glv_remaining(&self, db: &Db) -> Vec<AccountMeta> {
        let g: Glv = db.pod(&self.g.glv).expect("glv");
        let tokens: Vec<Pubkey> = g.market_tokens().collect();
        let mut v = vec![];
        for t in &tokens {
            let m = self.g.all.iter().find(|m| m.market_token == *t).expect("glv market");
            v.push(meta(m.market, false, true));
        }
        for t in &tokens {
            v.push(meta(*t, false, false));
        }
        v
    }

    fn unit_price(db: &Db, feed: &Pubkey) -> Price<u128> {
        let f: gmsol_store::states::PriceFeed = db.pod(feed).expect("feed");
        let conv = |v: u128| gmsol_utils::price::Decimal::try_from_price(v, 8, 6, 4).expect("price").to_unit_price();
        Price { min: conv(*f.price().min_price()), max: conv(*f.price().max_price()) }
    }

    fn prices(&self, db: &Db, m: &MarketKeys) -> Prices<u128> {
        let w = &self.g.w;
        let feed = |t: &Pubkey| if *t == w.a { w.feed_a } else { w.feed_b };
        Prices { index_token_price: Self::unit_price(db, &feed(&m.index)), long_token_price: Self::unit_price(db, &feed(&m.long)), short_token_price: Self::unit_price(db, &feed(&m.short)) }
    }

    /// (pool value, market token supply) of market `m` as stored in `db`
    fn pool_value(&self, db: &Db, m: &MarketKeys, kind: PnlFactorKind, maximize: bool) -> std::result::Result<(i128, u128), String> {
        let acc = db.get(&m.market);
        let sdk: gmsol_programs::gmsol_store::accounts::Market = bytemuck::pod_read_unaligned(&acc.data[8..8 + std::mem::size_of::<gmsol_programs::gmsol_store::accounts::Market>()]);
        let supply = mint_supply(db, &m.market_token);
        let model = MarketModel::from_parts(Arc::new(sdk), supply);
        let v = model.pool_value(&self.prices(db, m), kind, maximize).map_err(|e| format!("{e}"))?;
        Ok((v, supply as u128))
    }

    fn glv_balance(&self, db: &Db, m: &MarketKeys) -> u64 {
        let g: Glv = db.pod(&self.g.glv).expect("glv");
        g.market_config(&m.market_token).map(|c| c.balance()).unwrap_or(0)
    }

    /// value of the whole vault; `cur` = (index, db to read that market from): the market an operation runs on is
    /// valued in its state after the operation's own market deposit, with the GLV balance before the operation
    fn glv_value(&self, pre: &Db, cur: (usize, &Db), maximize: bool) -> std::result::Result<u128, String> {
        let mut total = big::bu(0);
        for (j, m) in self.markets().iter().enumerate() {
            let b = self.glv_balance(pre, m) as u128;
            if b == 0 {
                continue;
            }
            let (pv, supply) = self.pool_value(if j == cur.0 { cur.1 } else { pre }, m, PnlFactorKind::MaxAfterDeposit, maximize)?;
            if pv < 0 {
                return Err("negative pool value".into());
            }
            total += big::mul_div_floor(b, pv as u128, supply).ok_or("zero supply")?;
        }
        big::fits(&total, 128).ok_or_else(|| "overflow".to_string())
    }

    fn run_deposit(&self, db: &mut Db, mi: usize, mt: u64, long: u64, short: u64, close: bool) -> DepositRun {
        let g = &self.g;
        let w = &g.w;
        let m = self.markets()[mi];
        let owner = w.user;
        let dep = Pubkey::find_program_address(&[GlvDeposit::SEED, w.store.as_ref(), owner.as_ref(), &NONCE_D], &w.pid).0;
        for (o, mint) in [(dep, m.market_token), (dep, m.long), (dep, m.short), (owner, m.market_token)] {
            w.ensure_ata(db, &o, &mint);
        }
        let glv_escrow = ata22(&dep, &g.glv_token);
        if !db.exists(&glv_escrow) {
            db.set(glv_escrow, token22_acc(g.glv_token, dep, 0));
        }
        let vault = ata(&g.glv, &m.market_token);
        let (vault_before, supply_before) = (token_amount(db, &vault), supply22(db, &g.glv_token));
        let accounts = gmsol_store::accounts::CreateGlvDeposit {
            owner, receiver: owner, store: w.store, market: m.market, glv: g.glv, glv_deposit: dep, glv_token: g.glv_token, market_token: m.market_token,
            initial_long_token: Some(m.long), initial_short_token: Some(m.short),
            market_token_source: Some(ata(&owner, &m.market_token)), initial_long_token_source: Some(ata(&owner, &m.long)), initial_short_token_source: Some(ata(&owner, &m.short)),
            glv_token_escrow: glv_escrow, market_token_escrow: ata(&dep, &m.market_token), initial_long_token_escrow: Some(ata(&dep, &m.long)), initial_short_token_escrow: Some(ata(&dep, &m.short)),
            system_program: sys(), token_program: spl_token::ID, glv_token_program: T22, associated_token_program: spl_associated_token_account::ID,
        };
        let params = gmsol_store::ops::glv::CreateGlvDepositParams { execution_lamports: 5_000_000, long_token_swap_length: 0, short_token_swap_length: 0, initial_long_token_amount: long, initial_short_token_amount: short, market_token_amount: mt, min_market_token_amount: 0, min_glv_token_amount: 0, should_unwrap_native_token: false };
        if let Err(e) = process(db, &ix(w.pid, accounts, gmsol_store::instruction::CreateGlvDeposit { nonce: NONCE_D, params }), &[owner]) {
            return DepositRun { outcome: Outcome::NotCreated(format!("{e:?}")), d_in: 0, minted: 0 };
        }
        let accounts = gmsol_store::accounts::ExecuteGlvDeposit {
            authority: w.keeper, store: w.store, token_map: w.token_map, oracle: w.oracle, glv: g.glv, market: m.market, glv_deposit: dep, glv_token: g.glv_token, market_token: m.market_token,
            initial_long_token: Some(m.long), initial_short_token: Some(m.short),
            glv_token_escrow: glv_escrow, market_token_escrow: ata(&dep, &m.market_token), initial_long_token_escrow: Some(ata(&dep, &m.long)), initial_short_token_escrow: Some(ata(&dep, &m.short)),
            initial_long_token_vault: Some(w.vault(&m.long)), initial_short_token_vault: Some(w.vault(&m.short)), market_token_vault: vault,
            token_program: spl_token::ID, glv_token_program: T22, system_program: sys(), chainlink_program: None, event_authority: w.event_authority, program: w.pid,
        };
        let mut i = ix(w.pid, accounts, gmsol_store::instruction::ExecuteGlvDeposit { execution_lamports: 5_000, throw_on_execution_error: false });
        i.accounts.extend(self.glv_remaining(db));
        i.accounts.extend(self.feeds_sorted());
        if let Err(e) = process(db, &i, &[w.keeper]) {
            return DepositRun { outcome: Outcome::HardError(format!("{e:?}")), d_in: 0, minted: 0 };
        }
        let state = db.pod::<GlvDeposit>(&dep).and_then(|d| d.header().action_state().ok());
        let (d_in, minted) = (token_amount(db, &vault) - vault_before, supply22(db, &g.glv_token) - supply_before);
        let outcome = if state == Some(ActionState::Completed) { Outcome::Completed } else { Outcome::Cancelled };
        if close {
            let glv_ata = ata22(&owner, &g.glv_token);
            if !db.exists(&glv_ata) {
                db.set(glv_ata, token22_acc(g.glv_token, owner, 0));
            }
            let accounts = gmsol_store::accounts::CloseGlvDeposit {
                executor: owner, store: w.store, store_wallet: w.store_wallet, owner, receiver: owner, glv_deposit: dep, market_token: m.market_token,
                initial_long_token: Some(m.long), initial_short_token: Some(m.short), glv_token: g.glv_token,
                market_token_escrow: ata(&dep, &m.market_token), initial_long_token_escrow: Some(ata(&dep, &m.long)), initial_short_token_escrow: Some(ata(&dep, &m.short)), glv_token_escrow: glv_escrow,
                market_token_ata: ata(&owner, &m.market_token), initial_long_token_ata: Some(ata(&owner, &m.long)), initial_short_token_ata: Some(ata(&owner, &m.short)), glv_token_ata: glv_ata,
                system_program: sys(), token_program: spl_token::ID, glv_token_program: T22, associated_token_program: spl_associated_token_account::ID, event_authority: w.event_authority, program: w.pid,
            };
            if let Err(e) = process(db, &ix(w.pid, accounts, gmsol_store::instruction::CloseGlvDeposit { reason: "done".into() }), &[owner]) {
                return DepositRun { outcome: Outcome::HardError(format!("close: {e:?}")), d_in, minted };
            }
        }
        DepositRun { outcome, d_in, minted }
    }

    fn run_withdraw(&self, db: &mut Db, mi: usize, amount: u64) -> WithdrawRun {
        let g = &self.g;
        let w = &g.w;
        let m = self.markets()[mi];
        let owner = w.user;
        let wd = Pubkey::find_program_address(&[GlvWithdrawal::SEED, w.store.as_ref(), owner.as_ref(), &NONCE_W], &w.pid).0;
        for (o, mint) in [(wd, m.market_token), (wd, m.long), (wd, m.short), (owner, m.market_token), (owner, m.long), (owner, m.short)] {
            w.ensure_ata(db, &o, &mint);
        }
        let glv_escrow = ata22(&wd, &g.glv_token);
        if !db.exists(&glv_escrow) {
            db.set(glv_escrow, token22_acc(g.glv_token, wd, 0));
        }
        let vault = ata(&g.glv, &m.market_token);
        let (vault_before, supply_before) = (token_amount(db, &vault), supply22(db, &g.glv_token));
        let accounts = gmsol_store::accounts::CreateGlvWithdrawal {
            owner, receiver: owner, store: w.store, market: m.market, glv: g.glv, glv_withdrawal: wd, glv_token: g.glv_token, market_token: m.market_token, final_long_token: m.long, final_short_token: m.short,
            glv_token_source: ata22(&owner, &g.glv_token), glv_token_escrow: glv_escrow, market_token_escrow: ata(&wd, &m.market_token), final_long_token_escrow: ata(&wd, &m.long), final_short_token_escrow: ata(&wd, &m.short),
            system_program: sys(), token_program: spl_token::ID, glv_token_program: T22, associated_token_program: spl_associated_token_account::ID,
        };
        let params = gmsol_store::ops::glv::CreateGlvWithdrawalParams { execution_lamports: 5_000_000, long_token_swap_length: 0, short_token_swap_length: 0, glv_token_amount: amount, min_final_long_token_amount: 0, min_final_short_token_amount: 0, should_unwrap_native_token: false };
        if let Err(e) = process(db, &ix(w.pid, accounts, gmsol_store::instruction::CreateGlvWithdrawal { nonce: NONCE_W, params }), &[owner]) {
            return WithdrawRun { outcome: Outcome::NotCreated(format!("{e:?}")), d_out: 0, burned: 0 };
        }
        let accounts = gmsol_store::accounts::ExecuteGlvWithdrawal {
            authority: w.keeper, store: w.store, token_map: w.token_map, oracle: w.oracle, glv: g.glv, market: m.market, glv_withdrawal: wd, glv_token: g.glv_token, market_token: m.market_token, final_long_token: m.long, final_short_token: m.short,
            glv_token_escrow: glv_escrow, market_token_escrow: ata(&wd, &m.market_token), final_long_token_escrow: ata(&wd, &m.long), final_short_token_escrow: ata(&wd, &m.short),
            market_token_withdrawal_vault: w.vault(&m.market_token), final_long_token_vault: w.vault(&m.long), final_short_token_vault: w.vault(&m.short), market_token_vault: vault,
            token_program: spl_token::ID, glv_token_program: T22, system_program: sys(), chainlink_program: None, event_authority: w.event_authority, program: w.pid,
        };
        let mut i = ix(w.pid, accounts, gmsol_store::instruction::ExecuteGlvWithdrawal { execution_lamports: 5_000, throw_on_execution_error: false });
        i.accounts.extend(self.glv_remaining(db));
        i.accounts.extend(self.feeds_sorted());
        if let Err(e) = process(db, &i, &[w.keeper]) {
            return WithdrawRun { outcome: Outcome::HardError(format!("{e:?}")), d_out: 0, burned: 0 };
        }
        let state = db.pod::<GlvWithdrawal>(&wd).and_then(|d| d.header().action_state().ok());
        let (d_out, burned) = (vault_before - token_amount(db, &vault), supply_before - supply22(db, &g.glv_token));
        let outcome = if state == Some(ActionState::Completed) { Outcome::Completed } else { Outcome::Cancelled };
        let accounts = gmsol_store::accounts::CloseGlvWithdrawal {
            executor: owner, store: w.store, store_wallet: w.store_wallet, owner, receiver: owner, glv_withdrawal: wd, market_token: m.market_token, final_long_token: m.long, final_short_token: m.short, glv_token: g.glv_token,
            market_token_escrow: ata(&wd, &m.market_token), final_long_token_escrow: ata(&wd, &m.long), final_short_token_escrow: ata(&wd, &m.short),
            market_token_ata: ata(&owner, &m.market_token), final_long_token_ata: ata(&owner, &m.long), final_short_token_ata: ata(&owner, &m.short), glv_token_escrow: glv_escrow, glv_token_ata: ata22(&owner, &g.glv_token),
            system_program: sys(), token_program: spl_token::ID, glv_token_program: T22, associated_token_program: spl_associated_token_account::ID, event_authority: w.event_authority, program: w.pid,
        };
        if let Err(e) = process(db, &ix(w.pid, accounts, gmsol_store::instruction::CloseGlvWithdrawal { reason: "done".into() }), &[owner]) {
            return WithdrawRun { outcome: Outcome::HardError(format!("close: {e:?}")), d_out, burned };
        }
        WithdrawRun { outcome, d_out, burned }
    }

    /// invariants of a state: the vaults back the recorded balances, and the caps hold for them when the deposit just made them
    fn check_deposit(&self, pre: &Db, post: &Db, mi: usize, r: &DepositRun, what: &str, out: &mut StepOut) {
        let m = self.markets()[mi];
        let (b0, b1) = (self.glv_balance(pre, m), self.glv_balance(post, m));
        match &r.outcome {
            Outcome::Completed => {
                if b1 != b0 + r.d_in {
                    out.fail("C45/recorded_balance_differs_from_vault_movement", format!("{what}: recorded balance {b0} -> {b1}, {} market tokens entered the vault", r.d_in));
                }
                // caps, by definition, on the state the deposit left behind
                let g: Glv = post.pod(&self.g.glv).expect("glv");
                let cfg = g.market_config(&m.market_token).expect("config");
                if cfg.max_amount() > 0 && b1 > cfg.max_amount() {
                    out.fail("C45/deposit_left_balance_over_max_amount", format!("{what}: balance {b1} > max_amount {}", cfg.max_amount()));
                }
                if cfg.max_value() > 0 {
                    match self.pool_value(post, m, PnlFactorKind::MaxAfterDeposit, true) {
                        Ok((pv, supply)) if pv >= 0 => {
                            let v = big::mul_div_floor(b1 as u128, pv as u128, supply).unwrap_or_default();
                            if v > big::bu(cfg.max_value()) {
                                out.fail("C45/deposit_left_balance_over_max_value", format!("{what}: balance {b1} is worth {v} > max_value {}", cfg.max_value()));
                            }
                        }
                        other => out.fail("C45/deposit_completed_with_unpriceable_market", format!("{what}: {other:?}")),
                    }
                }
                // minted amount: the vault valued maximised, the received market tokens minimised
                let supply = supply22(pre, &self.g.glv_token) as u128;
                let reference = (|| -> std::result::Result<u128, String> {
                    let total = self.glv_value(pre, (mi, post), true)?;
                    let (pv_min, s) = self.pool_value(post, m, PnlFactorKind::MaxAfterDeposit, false)?;
                    if pv_min < 0 {
                        return Err("negative pool value".into());
                    }
                    let received = big::mul_div_floor(r.d_in as u128, pv_min as u128, s).and_then(|v| big::fits(&v, 128)).ok_or("received value")?;
                    let div = gmsol_store::constants::MARKET_USD_TO_AMOUNT_DIVISOR;
                    let minted = if supply == 0 && total == 0 {
                        big::bu(received) / big::bu(div)
                    } else if supply == 0 {
                        (big::bu(total) + big::bu(received)) / big::bu(div)
                    } else {
                        big::mul_div_floor(supply, received, total).ok_or("zero vault value with a non-zero supply")?
                    };
                    big::fits(&minted, 64).ok_or_else(|| "mint amount overflow".to_string())
                })();
                match reference {
                    Ok(want) if want == r.minted as u128 => out.count("deposit_mint_matches_reference", 1),
                    Ok(want) => out.fail(if (r.minted as u128) > want { "C45/deposit_minted_more_than_maximised_vault_value_allows" } else { "C45/deposit_minted_less_than_reference" }, format!("{what}: minted {} GLV tokens, the reference (vault maximised, received tokens minimised) gives {want}", r.minted)),
                    Err(e) => out.fail("C45/deposit_completed_but_reference_fails", format!("{what}: {e}")),
                }
            }
            Outcome::Cancelled | Outcome::NotCreated(_) | Outcome::HardError(_) => {
                if b1 != b0 || r.minted != 0 || r.d_in != 0 {
                    out.fail("C45/failed_deposit_changed_the_vault", format!("{what}: {:?}, balance {b0} -> {b1}, minted {}, vault +{}", r.outcome, r.minted, r.d_in));
                }
            }
        }
        self.check_backing(post, what, out);
    }

    fn check_withdraw(&self, pre: &Db, post: &Db, mi: usize, amount: u64, r: &WithdrawRun, what: &str, out: &mut StepOut) {
        let m = self.markets()[mi];
        let (b0, b1) = (self.glv_balance(pre, m), self.glv_balance(post, m));
        match &r.outcome {
            Outcome::Completed => {
                if b0 != b1 + r.d_out || r.burned != amount {
                    out.fail("C45/recorded_balance_differs_from_vault_movement", format!("{what}: recorded balance {b0} -> {b1}, {} market tokens left the vault, {} of {amount} GLV tokens burned", r.d_out, r.burned));
                }
                let supply = supply22(pre, &self.g.glv_token) as u128;
                let reference = (|| -> std::result::Result<u128, String> {
                    let total = self.glv_value(pre, (mi, pre), false)?;
                    let value = big::mul_div_floor(amount as u128, total, supply).and_then(|v| big::fits(&v, 128)).ok_or("value")?;
                    let (pv_max, s) = self.pool_value(pre, m, PnlFactorKind::MaxAfterWithdrawal, true)?;
                    if pv_max < 0 {
                        return Err("negative pool value".into());
                    }
                    let amount = big::mul_div_floor(s, value, pv_max as u128).ok_or("zero pool value")?;
                    big::fits(&amount, 64).ok_or_else(|| "overflow".to_string())
                })();
                match reference {
                    Ok(want) if want == r.d_out as u128 => out.count("withdrawal_amount_matches_reference", 1),
                    Ok(want) => out.fail(if (r.d_out as u128) > want { "C45/withdrawal_paid_more_than_minimised_vault_value_allows" } else { "C45/withdrawal_paid_less_than_reference" }, format!("{what}: {} market tokens left the vault, the reference (vault minimised, market tokens maximised) gives {want}", r.d_out)),
                    Err(e) => out.fail("C45/withdrawal_completed_but_reference_fails", format!("{what}: {e}")),
                }
            }
            _ => {
                if b1 != b0 || r.burned != 0 || r.d_out != 0 {
                    out.fail("C45/failed_withdrawal_changed_the_vault", format!("{what}: {:?}, balance {b0} -> {b1}", r.outcome));
                }
            }
        }
        self.check_backing(post, what, out);
    }

    fn check_backing(&self, db: &Db, what: &str, out: &mut StepOut) {
        for m in self.markets() {
            let (b, v) = (self.glv_balance(db, m), token_amount(db, &ata(&self.g.glv, &m.market_token)));
            if v < b {
                out.fail("C45/vault_holds_less_than_recorded", format!("{what}: vault {v} < recorded balance {b}"));
            }
        }
    }

    /// deposit-then-withdraw round trips from `db` (which is not modified)
    fn round_trips(&self, db: &Db, out: &mut StepOut) {
        for mi in 0..2 {
            for (mt, long, short) in [(2_000_000_000u64, 0u64, 0u64), (7u64, 0, 0), (0, 150_000, 0), (0, 0, 2_000_000), (1_000_000_000, 100_000, 500_000)] {
                let mut d = db.clone();
                let glv_before = amount22(&d, &ata22(&self.g.w.user, &self.g.glv_token));
                let supply_before = supply22(&d, &self.g.glv_token);
                let dep = self.run_deposit(&mut d, mi, mt, long, short, true);
                out.probe_cases += 1;
                if dep.outcome != Outcome::Completed || dep.minted == 0 {
                    out.count("round_trip_deposit_not_completed", 1);
                    continue;
                }
                let got = amount22(&d, &ata22(&self.g.w.user, &self.g.glv_token)) - glv_before;
                if got != dep.minted {
                    out.fail("C45/minted_glv_tokens_not_delivered", format!("round trip market {mi}: minted {} but the owner received {got}", dep.minted));
                    continue;
                }
                let wd = self.run_withdraw(&mut d, mi, dep.minted);
                if wd.outcome != Outcome::Completed {
                    out.count("round_trip_withdrawal_not_completed", 1);
                    continue;
                }
                out.probe_nontrivial += 1;
                out.count("round_trips_completed", 1);
                if wd.d_out > dep.d_in {
                    // with no GLV token outstanding, whatever earlier rounding left in the vault has no owner and is
                    // credited to the next depositor ((vault value + deposit) / divisor): a class of its own
                    let key = if supply_before == 0 { "C45/round_trip_returned_more_market_tokens/zero_supply_residual_credited_to_first_depositor" } else { "C45/round_trip_returned_more_market_tokens" };
                    out.fail(key, format!("market {mi}, deposit (market tokens {mt}, long {long}, short {short}): {} market tokens entered the vault for {} GLV tokens, withdrawing those returned {}", dep.d_in, dep.minted, wd.d_out));
                }
            }
        }
    }
}

impl Machine for Hist {
    type State = St;
    type Action = Act;
    fn actions(&self) -> &[Act] {
        &self.acts
    }
    fn key(&self, s: &St) -> u128 {
        use std::hash::Hasher;
        let mut h = std::collections::hash_map::DefaultHasher::new();
        s.db.hash_into(&mut h);
        let a = h.finish();
        let mut h2 = std::collections::hash_map::DefaultHasher::new();
        h2.write_u64(0x9e37_79b9_7f4a_7c15);
        s.db.hash_into(&mut h2);
        ((a as u128) << 64) | h2.finish() as u128
    }
    fn check_start(&self, s: &St, out: &mut StepOut) {
        self.check_backing(&s.db, "start", out);
        if self.probe_round_trips {
            self.round_trips(&s.db, out);
        }
    }
    fn step(&self, s: &St, a: &Act, out: &mut StepOut) -> St {
        W::set_time(1_000);
        gmsol_programs::model::clock_verif::set_now(Some(1_000));
        crate::svm::set_last_restart_slot(0);
        let mut n = s.clone();
        let w = &self.g.w;
        match *a {
            Act::Deposit(mi, mt, long, short) => {
                let r = self.run_deposit(&mut n.db, mi, mt, long, short, true);
                out.label = match &r.outcome { Outcome::Completed => "completed", Outcome::Cancelled => "cancelled", Outcome::NotCreated(_) => "not_created", Outcome::HardError(_) => "hard_error" };
                if let Outcome::HardError(e) = &r.outcome {
                    if e.contains("panic") {
                        out.fail("C45/panic", format!("{a:?}: {e}"));
                    }
                }
                self.check_deposit(&s.db, &n.db, mi, &r, &format!("{a:?}"), out);
                if !matches!(r.outcome, Outcome::Completed) {
                    out.prune = n.db.total_lamports() == s.db.total_lamports() && self.key(&n) == self.key(s);
                }
            }
            Act::Withdraw(mi, den) => {
                let have = amount22(&n.db, &ata22(&w.user, &self.g.glv_token));
                let amount = have / den;
                if amount == 0 {
                    out.label = "nothing_to_withdraw";
                    out.prune = true;
                    return n;
                }
                let r = self.run_withdraw(&mut n.db, mi, amount);
                out.label = match &r.outcome { Outcome::Completed => "completed", Outcome::Cancelled => "cancelled", Outcome::NotCreated(_) => "not_created", Outcome::HardError(_) => "hard_error" };
                if let Outcome::HardError(e) = &r.outcome {
                    if e.contains("panic") {
                        out.fail("C45/panic", format!("{a:?}: {e}"));
                    }
                }
                self.check_withdraw(&s.db, &n.db, mi, amount, &r, &format!("{a:?}"), out);
            }
            Act::Price(k) => {
                w.set_feeds(&mut n.db, 1_000, PRICES[k].0, PRICES[k].1);
                out.label = "ok";
            }
            Act::Caps(mi, k) => {
                let m = self.markets()[mi];
                let accounts = gmsol_store::accounts::UpdateGlvMarketConfig { authority: w.keeper, store: w.store, glv: self.g.glv, market_token: m.market_token };
                let r = process(&mut n.db, &ix(w.pid, accounts, gmsol_store::instruction::UpdateGlvMarketConfig { max_amount: Some(CAPS[k].0), max_value: Some(CAPS[k].1) }), &[w.keeper]);
                out.label = if r.is_ok() { "ok" } else { "err" };
            }
            Act::OpenInterest(mi) => {
                use gmsol_model::{PerpMarketMut as _, Pool as _};
                let (m, large) = (self.markets()[mi % 2].clone(), mi >= 2);
                w.edit_market(&mut n.db, &m, |rm| {
                    let unit = 10i128.pow(20);
                    if large {
                        // long positions of 80 index tokens opened at 6 USD: at 12 USD their pending profit is 480 USD, about 40 % of the
                        // long side of the pool, i.e. between the pnl caps used after withdrawals and after deposits
                        rm.open_interest_pool_mut(true).unwrap().apply_delta_to_long_amount(&(480 * unit)).unwrap();
                        rm.open_interest_in_tokens_pool_mut(true).unwrap().apply_delta_to_long_amount(&80_000_000).unwrap();
                    } else {
                        // a long position of 1 index token opened at 10 USD and a short one of 0.5 opened at 14 USD
                        rm.open_interest_pool_mut(true).unwrap().apply_delta_to_long_amount(&(10 * unit)).unwrap();
                        rm.open_interest_in_tokens_pool_mut(true).unwrap().apply_delta_to_long_amount(&1_000_000).unwrap();
                        rm.open_interest_pool_mut(false).unwrap().apply_delta_to_short_amount(&(7 * unit)).unwrap();
                        rm.open_interest_in_tokens_pool_mut(false).unwrap().apply_delta_to_short_amount(&500_000).unwrap();
                    }
                });
                out.label = if large { "large_pnl" } else { "ok" };
            }
        }
        if self.probe_round_trips && !out.prune {
            self.round_trips(&n.db, out);
        }
        n
    }
}

fn pricing_world() -> (Db, G) {
    let (mut db, w, all) = base_world();
    W::set_time(1_000);
    // liquidity in both A/B markets; the acting user holds market tokens of both
    for (i, m) in [w.m1.clone(), w.m2.clone()].iter().enumerate() {
        for (k, u) in [w.user2, w.user].iter().enumerate() {
            let n = [60 + (2 * i + k) as u8; 32];
            w.create_deposit(&mut db, m, *u, n, 50_000_000, 300_000_000, 0, *u).unwrap_or_else(|e| panic!("c45 seed create: {e:?}"));
            w.execute_deposit(&mut db, m, *u, n, w.keeper, true).unwrap_or_else(|e| panic!("c45 seed execute: {e:?}"));
            w.close_deposit(&mut db, m, *u, n, *u).unwrap_or_else(|e| panic!("c45 seed close: {e:?}"));
        }
    }
    let (glv, glv_token) = initialize_glv(&mut db, &w, 0, &[&w.m1, &w.m2]).unwrap_or_else(|e| panic!("c45 initialize_glv: {e:?}"));
    for m in [&w.m1, &w.m2] {
        let accounts = gmsol_store::accounts::UpdateGlvMarketConfig { authority: w.keeper, store: w.store, glv, market_token: m.market_token };
        process(&mut db, &ix(w.pid, accounts, gmsol_store::instruction::ToggleGlvMarketFlag { flag: "is_deposit_allowed".into(), enable: true }), &[w.keeper]).unwrap_or_else(|e| panic!("c45 toggle flag: {e:?}"));
        // as in GMX deployments, the pnl cap applied to withdrawals is tighter than the one applied to deposits
        for key in ["max_pnl_factor_for_long_withdrawal", "max_pnl_factor_for_short_withdrawal"] {
            let accounts = gmsol_store::accounts::UpdateMarketConfig { authority: w.keeper, store: w.store, market: m.market };
            process(&mut db, &ix(w.pid, accounts, gmsol_store::instruction::UpdateMarketConfig { key: key.into(), value: 30_000_000_000_000_000_000 }), &[w.keeper]).unwrap_or_else(|e| panic!("c45 config {key}: {e:?}"));
        }
    }
    (db, G { w, glv, glv_token, all })
}

pub fn run(cli: &Cli) -> Report {
    let mut rep = Report::new(cli, "model_checking");
    rep.rule("(1) composition, E1 through the real instructions: initialize_glv with every ordered selection (with repetition) of 1..=3 markets out of six (A|A/B, B|A/B, C|B/C, C|A/C, B|B/A, C|A/B) and then insert_glv_market of every market, both into the fresh GLV and chained: accepted exactly when the markets are distinct and carry the GLV's long and short token; after every accepted instruction every stored market token is resolved to its market account and its tokens compared with the GLV's. (2) caps, E1 on the real Glv struct: validate_market_token_balance over boundary values of max_amount x max_value x new balance x pool value x supply against the big-integer definition (0 = unlimited; value = floor(balance * pool value / supply); a negative pool value cannot satisfy a value cap). (3) pricing, E3 breadth first: GLV deposits of market tokens / long / short / mixed into either market, withdrawals of all or half of the owner's GLV tokens through either market, four price settings (two with min != max), four cap settings per market and fabricated open interest (small, and large enough for the traders' pending profit to lie between the withdrawal and deposit pnl caps), every one executed by the real create/execute/close instructions; after every deposit: recorded balance = vault movement, the caps hold on the state left behind (pool value maximised), minted GLV tokens = supply * received value (minimised) / vault value (maximised); after every withdrawal: market tokens paid = the minimised vault share converted at the maximised pool value; vaults back the recorded balances; in every reached state ten deposit-then-withdraw round trips must not return more market tokens than entered the vault. Non-trivial probe = a round trip whose deposit and withdrawal both completed");
    rep.assume("svm-lite runtime trusted; pool values of the reference come from the SDK market model on the stored account bytes (validated against the program by C40), the GLV-level composition (which balance, which pnl factor, which side is maximised, the conversions) is the reference's own big-integer arithmetic; GLV shifts and swap paths inside GLV actions are not explored; clock fixed, so funding/borrowing accrual between steps is zero");
    let th = cli.tier.thorough();
    if let Some(rv) = &cli.replay {
        if rv.get("path").is_some() {
            let (db, g) = pricing_world();
            let m = Hist { g, acts: actions(th), probe_round_trips: true };
            e2::replay_into(&mut rep, &m, &[St { db }], rv);
            gmsol_programs::model::clock_verif::set_now(None);
            return rep;
        }
        rep.sample(json!({"note": "composition / caps case: re-run the quick tier", "case": rv}));
        rep.evaluations = 1;
        return rep;
    }
    {
        let (db, w, all) = base_world();
        section_composition(&mut rep, &db, &w, &all);
        section_caps(&mut rep, &w, th);
    }
    let (db, g) = pricing_world();
    let m = Hist { g, acts: actions(th), probe_round_trips: true };
    let depth = if th { 4 } else { 3 };
    let o = e2::explore(&mut rep, "GLV pricing histories", &m, vec![St { db }], &e2::Config { depth, max_states: 3_000_000 }, json!({"thorough": th}));
    for needed in ["Deposit:completed", "Deposit:cancelled", "Withdraw:completed"] {
        if o.histogram.get(needed).copied().unwrap_or(0) == 0 {
            rep.machinery(format!("vacuous exploration: outcome {needed} never occurred"));
        }
    }
    for needed in ["round_trips_completed", "deposit_mint_matches_reference", "withdrawal_amount_matches_reference"] {
        if o.counters.get(needed).copied().unwrap_or(0) == 0 && rep.violations_total() == 0 {
            rep.machinery(format!("vacuous exploration: {needed} never occurred"));
        }
    }
    gmsol_programs::model::clock_verif::set_now(None);
    rep
}

fn actions(th: bool) -> Vec<Act> {
    let mut acts = vec![];
    for mi in 0..2 {
        acts.extend([Act::Deposit(mi, 5_000_000_000, 0, 0), Act::Deposit(mi, 0, 1_000_000, 0), Act::Deposit(mi, 3_000_000_000, 0, 5_000_000), Act::Withdraw(mi, 1), Act::Withdraw(mi, 2)]);
        if th {
            acts.extend([Act::Deposit(mi, 1, 0, 0), Act::Deposit(mi, 0, 0, 9_000_000), Act::Withdraw(mi, 3)]);
        }
        for k in 0..CAPS.len() {
            if th || k != 1 || mi == 0 {
                acts.push(Act::Caps(mi, k));
            }
        }
    }
    acts.extend([Act::OpenInterest(0), Act::OpenInterest(2)]);
    for k in 0..PRICES.len() {
        acts.push(Act::Price(k));
    }
    acts
}

// ------------------------------------------------------------------ GLV action lifecycles (for C23)

#[derive(Clone, Copy, Debug, PartialEq, Eq, Hash)]
pub enum LWho {
    Owner,
    Keeper,
    Stranger,
}

#[derive(Clone, Copy, Debug)]
pub enum LAct {
    Create(usize),
    Exec(usize, LWho),
    Close(usize, LWho),
    /// clock past the request expiration, feeds re-published
    Expire,
}

#[derive(Clone, Copy, Debug, PartialEq, Eq, Hash)]
pub enum LPhase {
    Absent,
    Pending,
    Completed,
    Cancelled,
}

#[derive(Clone)]
pub struct LSt {
    db: Db,
    now: i64,
    phase: [LPhase; 4],
    /// escrow (A, B, market token, GLV token) right after creation
    snap: [[u64; 4]; 4],
}

struct LSlot {
    deposit: bool,
    /// deposit: (market tokens, long, short); withdrawal: GLV tokens
    amounts: (u64, u64, u64),
    /// unreachable minimum output: the execution fails softly
    unreachable: bool,
    nonce: [u8; 32],
}

pub struct GlvLife {
    h: Hist,
    slots: Vec<LSlot>,
    acts: Vec<LAct>,
}

impl GlvLife {
    fn account(&self, sl: &LSlot) -> Pubkey {
        let w = &self.h.g.w;
        let seed = if sl.deposit { GlvDeposit::SEED } else { GlvWithdrawal::SEED };
        Pubkey::find_program_address(&[seed, w.store.as_ref(), w.user.as_ref(), &sl.nonce], &w.pid).0
    }
    fn tokens(&self, db: &Db, who: &Pubkey) -> [u64; 4] {
        let g = &self.h.g;
        let m = self.h.markets()[0];
        [token_amount(db, &ata(who, &g.w.a)), token_amount(db, &ata(who, &g.w.b)), token_amount(db, &ata(who, &m.market_token)), amount22(db, &ata22(who, &g.glv_token))]
    }
    fn phase(&self, db: &Db, sl: &LSlot) -> LPhase {
        let k = self.account(sl);
        if !db.exists(&k) {
            return LPhase::Absent;
        }
        let st = if sl.deposit { db.pod::<GlvDeposit>(&k).and_then(|d| d.header().action_state().ok()) } else { db.pod::<GlvWithdrawal>(&k).and_then(|d| d.header().action_state().ok()) };
        match st {
            Some(ActionState::Pending) => LPhase::Pending,
            Some(ActionState::Completed) => LPhase::Completed,
            Some(ActionState::Cancelled) => LPhase::Cancelled,
            _ => LPhase::Absent,
        }
    }
    fn key_of(&self, who: LWho) -> Pubkey {
        let w = &self.h.g.w;
        match who {
            LWho::Owner => w.user,
            LWho::Keeper => w.keeper,
            LWho::Stranger => w.stranger,
        }
    }
    fn prepare(&self, db: &mut Db, sl: &LSlot) {
        let g = &self.h.g;
        let m = self.h.markets()[0];
        let acc = self.account(sl);
        for (o, mint) in [(acc, m.market_token), (acc, m.long), (acc, m.short), (g.w.user, m.market_token), (g.w.user, m.long), (g.w.user, m.short)] {
            g.w.ensure_ata(db, &o, &mint);
        }
        for o in [acc, g.w.user] {
            let k = ata22(&o, &g.glv_token);
            if !db.exists(&k) {
                db.set(k, token22_acc(g.glv_token, o, 0));
            }
        }
    }
    fn create(&self, db: &mut Db, sl: &LSlot) -> std::result::Result<(), TxError> {
        let g = &self.h.g;
        let w = &g.w;
        let m = self.h.markets()[0];
        let owner = w.user;
        let acc = self.account(sl);
        self.prepare(db, sl);
        if sl.deposit {
            let accounts = gmsol_store::accounts::CreateGlvDeposit {
                owner, receiver: owner, store: w.store, market: m.market, glv: g.glv, glv_deposit: acc, glv_token: g.glv_token, market_token: m.market_token,
                initial_long_token: Some(m.long), initial_short_token: Some(m.short),
                market_token_source: Some(ata(&owner, &m.market_token)), initial_long_token_source: Some(ata(&owner, &m.long)), initial_short_token_source: Some(ata(&owner, &m.short)),
                glv_token_escrow: ata22(&acc, &g.glv_token), market_token_escrow: ata(&acc, &m.market_token), initial_long_token_escrow: Some(ata(&acc, &m.long)), initial_short_token_escrow: Some(ata(&acc, &m.short)),
                system_program: sys(), token_program: spl_token::ID, glv_token_program: T22, associated_token_program: spl_associated_token_account::ID,
            };
            let params = gmsol_store::ops::glv::CreateGlvDepositParams { execution_lamports: 5_000_000, long_token_swap_length: 0, short_token_swap_length: 0, initial_long_token_amount: sl.amounts.1, initial_short_token_amount: sl.amounts.2, market_token_amount: sl.amounts.0, min_market_token_amount: 0, min_glv_token_amount: if sl.unreachable { u64::MAX } else { 0 }, should_unwrap_native_token: false };
            process(db, &ix(w.pid, accounts, gmsol_store::instruction::CreateGlvDeposit { nonce: sl.nonce, params }), &[owner])
        } else {
            let accounts = gmsol_store::accounts::CreateGlvWithdrawal {
                owner, receiver: owner, store: w.store, market: m.market, glv: g.glv, glv_withdrawal: acc, glv_token: g.glv_token, market_token: m.market_token, final_long_token: m.long, final_short_token: m.short,
                glv_token_source: ata22(&owner, &g.glv_token), glv_token_escrow: ata22(&acc, &g.glv_token), market_token_escrow: ata(&acc, &m.market_token), final_long_token_escrow: ata(&acc, &m.long), final_short_token_escrow: ata(&acc, &m.short),
                system_program: sys(), token_program: spl_token::ID, glv_token_program: T22, associated_token_program: spl_associated_token_account::ID,
            };
            let params = gmsol_store::ops::glv::CreateGlvWithdrawalParams { execution_lamports: 5_000_000, long_token_swap_length: 0, short_token_swap_length: 0, glv_token_amount: sl.amounts.0, min_final_long_token_amount: if sl.unreachable { u64::MAX } else { 0 }, min_final_short_token_amount: 0, should_unwrap_native_token: false };
            process(db, &ix(w.pid, accounts, gmsol_store::instruction::CreateGlvWithdrawal { nonce: sl.nonce, params }), &[owner])
        }
    }
    fn execute(&self, db: &mut Db, sl: &LSlot, by: Pubkey) -> std::result::Result<(), TxError> {
        let g = &self.h.g;
        let w = &g.w;
        let m = self.h.markets()[0];
        let acc = self.account(sl);
        let vault = ata(&g.glv, &m.market_token);
        let mut i = if sl.deposit {
            let accounts = gmsol_store::accounts::ExecuteGlvDeposit {
                authority: by, store: w.store, token_map: w.token_map, oracle: w.oracle, glv: g.glv, market: m.market, glv_deposit: acc, glv_token: g.glv_token, market_token: m.market_token,
                initial_long_token: Some(m.long), initial_short_token: Some(m.short),
                glv_token_escrow: ata22(&acc, &g.glv_token), market_token_escrow: ata(&acc, &m.market_token), initial_long_token_escrow: Some(ata(&acc, &m.long)), initial_short_token_escrow: Some(ata(&acc, &m.short)),
                initial_long_token_vault: Some(w.vault(&m.long)), initial_short_token_vault: Some(w.vault(&m.short)), market_token_vault: vault,
                token_program: spl_token::ID, glv_token_program: T22, system_program: sys(), chainlink_program: None, event_authority: w.event_authority, program: w.pid,
            };
            ix(w.pid, accounts, gmsol_store::instruction::ExecuteGlvDeposit { execution_lamports: 5_000, throw_on_execution_error: false })
        } else {
            let accounts = gmsol_store::accounts::ExecuteGlvWithdrawal {
                authority: by, store: w.store, token_map: w.token_map, oracle: w.oracle, glv: g.glv, market: m.market, glv_withdrawal: acc, glv_token: g.glv_token, market_token: m.market_token, final_long_token: m.long, final_short_token: m.short,
                glv_token_escrow: ata22(&acc, &g.glv_token), market_token_escrow: ata(&acc, &m.market_token), final_long_token_escrow: ata(&acc, &m.long), final_short_token_escrow: ata(&acc, &m.short),
                market_token_withdrawal_vault: w.vault(&m.market_token), final_long_token_vault: w.vault(&m.long), final_short_token_vault: w.vault(&m.short), market_token_vault: vault,
                token_program: spl_token::ID, glv_token_program: T22, system_program: sys(), chainlink_program: None, event_authority: w.event_authority, program: w.pid,
            };
            ix(w.pid, accounts, gmsol_store::instruction::ExecuteGlvWithdrawal { execution_lamports: 5_000, throw_on_execution_error: false })
        };
        i.accounts.extend(self.h.glv_remaining(db));
        i.accounts.extend(self.h.feeds_sorted());
        process(db, &i, &[by])
    }
    fn close(&self, db: &mut Db, sl: &LSlot, by: Pubkey) -> std::result::Result<(), TxError> {
        let g = &self.h.g;
        let w = &g.w;
        let m = self.h.markets()[0];
        let owner = w.user;
        let acc = self.account(sl);
        if sl.deposit {
            let accounts = gmsol_store::accounts::CloseGlvDeposit {
                executor: by, store: w.store, store_wallet: w.store_wallet, owner, receiver: owner, glv_deposit: acc, market_token: m.market_token,
                initial_long_token: Some(m.long), initial_short_token: Some(m.short), glv_token: g.glv_token,
                market_token_escrow: ata(&acc, &m.market_token), initial_long_token_escrow: Some(ata(&acc, &m.long)), initial_short_token_escrow: Some(ata(&acc, &m.short)), glv_token_escrow: ata22(&acc, &g.glv_token),
                market_token_ata: ata(&owner, &m.market_token), initial_long_token_ata: Some(ata(&owner, &m.long)), initial_short_token_ata: Some(ata(&owner, &m.short)), glv_token_ata: ata22(&owner, &g.glv_token),
                system_program: sys(), token_program: spl_token::ID, glv_token_program: T22, associated_token_program: spl_associated_token_account::ID, event_authority: w.event_authority, program: w.pid,
            };
            process(db, &ix(w.pid, accounts, gmsol_store::instruction::CloseGlvDeposit { reason: "done".into() }), &[by])
        } else {
            let accounts = gmsol_store::accounts::CloseGlvWithdrawal {
                executor: by, store: w.store, store_wallet: w.store_wallet, owner, receiver: owner, glv_withdrawal: acc, market_token: m.market_token, final_long_token: m.long, final_short_token: m.short, glv_token: g.glv_token,
                market_token_escrow: ata(&acc, &m.market_token), final_long_token_escrow: ata(&acc, &m.long), final_short_token_escrow: ata(&acc, &m.short),
                market_token_ata: ata(&owner, &m.market_token), final_long_token_ata: ata(&owner, &m.long), final_short_token_ata: ata(&owner, &m.short), glv_token_escrow: ata22(&acc, &g.glv_token), glv_token_ata: ata22(&owner, &g.glv_token),
                system_program: sys(), token_program: spl_token::ID, glv_token_program: T22, associated_token_program: spl_associated_token_account::ID, event_authority: w.event_authority, program: w.pid,
            };
            process(db, &ix(w.pid, accounts, gmsol_store::instruction::CloseGlvWithdrawal { reason: "done".into() }), &[by])
        }
    }
    /// what a cancelled execution must not touch: pools, balances and supply of both markets, the GLV's recorded balances,
    /// the GLV vaults and the GLV supply
    fn guarded(&self, db: &Db) -> Vec<Vec<u128>> {
        let g = &self.h.g;
        let mut v = vec![vec![supply22(db, &g.glv_token) as u128]];
        for m in self.h.markets() {
            let mut view = crate::perp::market_view(&g.w, db, m);
            view.push(token_amount(db, &ata(&g.glv, &m.market_token)) as u128);
            view.push(self.h.glv_balance(db, m) as u128);
            v.push(view);
        }
        v
    }
}

impl Machine for GlvLife {
    type State = LSt;
    type Action = LAct;
    fn actions(&self) -> &[LAct] {
        &self.acts
    }
    fn key(&self, s: &LSt) -> u128 {
        use std::hash::Hasher;
        let mut h = std::collections::hash_map::DefaultHasher::new();
        s.db.hash_into(&mut h);
        mc_core::hash128(&(h.finish(), s.now, s.phase, s.snap))
    }
    fn step(&self, s: &LSt, a: &LAct, out: &mut StepOut) -> LSt {
        W::set_time(s.now);
        gmsol_programs::model::clock_verif::set_now(Some(s.now));
        crate::svm::set_last_restart_slot(0);
        let mut n = s.clone();
        let w = &self.h.g.w;
        let res = match *a {
            LAct::Expire => {
                n.now += 4_000;
                w.set_feeds(&mut n.db, n.now, PRICES[0].0, PRICES[0].1);
                out.label = "env";
                return n;
            }
            LAct::Create(i) => {
                let r = self.create(&mut n.db, &self.slots[i]);
                if r.is_ok() {
                    n.snap[i] = self.tokens(&n.db, &self.account(&self.slots[i]));
                }
                r
            }
            LAct::Exec(i, who) => self.execute(&mut n.db, &self.slots[i], self.key_of(who)),
            LAct::Close(i, who) => {
                self.prepare(&mut n.db, &self.slots[i]);
                self.close(&mut n.db, &self.slots[i], self.key_of(who))
            }
        };
        out.label = if res.is_ok() { "ok" } else { "err" };
        if let Err(e) = &res {
            if e.is_panic() {
                // an abort is a failed transaction: nothing is committed (the property allows executions that fail hard)
                out.count("instructions_aborted_by_a_panic", 1);
            }
        }
        for (i, sl) in self.slots.iter().enumerate() {
            let (old, new) = (s.phase[i], self.phase(&n.db, sl));
            n.phase[i] = new;
            let touched = matches!(*a, LAct::Create(j) | LAct::Exec(j, _) | LAct::Close(j, _) if j == i);
            let legal = match (old, new) {
                (x, y) if x == y => true,
                (LPhase::Absent, LPhase::Pending) => matches!(a, LAct::Create(_)) && touched,
                (LPhase::Pending, LPhase::Completed) | (LPhase::Pending, LPhase::Cancelled) => matches!(a, LAct::Exec(_, LWho::Keeper)) && touched,
                (_, LPhase::Absent) => matches!(a, LAct::Close(..)) && touched,
                _ => false,
            };
            if !legal {
                out.fail("C23/illegal_state_transition", format!("{a:?}: GLV action slot {i} moved {old:?} -> {new:?}"));
            }
        }
        match *a {
            LAct::Exec(i, who) => {
                let sl = &self.slots[i];
                if res.is_ok() && who != LWho::Keeper {
                    out.fail("C23/executed_by_non_keeper", format!("{a:?} succeeded"));
                }
                if res.is_ok() && s.phase[i] != LPhase::Pending {
                    out.fail("C23/executed_twice_or_absent", format!("{a:?} succeeded in phase {:?}", s.phase[i]));
                }
                if res.is_ok() && who == LWho::Keeper {
                    if sl.unreachable && n.phase[i] != LPhase::Cancelled {
                        out.fail("C23/unreachable_minimum_not_cancelled", format!("{a:?}: phase {:?}", n.phase[i]));
                    }
                    if n.phase[i] == LPhase::Cancelled {
                        out.count("glv_actions_cancelled_by_execution", 1);
                        if self.guarded(&n.db) != self.guarded(&s.db) {
                            out.fail("C23/cancelled_execution_touched_a_market", format!("{a:?}: a market, the GLV account, a GLV vault or the GLV supply changed"));
                        }
                        if self.tokens(&n.db, &self.account(sl)) != s.snap[i] {
                            out.fail("C23/cancelled_execution_did_not_restore_escrow", format!("{a:?}: escrow {:?}, at creation {:?}", self.tokens(&n.db, &self.account(sl)), s.snap[i]));
                        }
                    } else if n.phase[i] == LPhase::Completed {
                        out.count("glv_actions_completed", 1);
                    }
                }
            }
            LAct::Close(i, who) => {
                let sl = &self.slots[i];
                let expect = s.phase[i] != LPhase::Absent && match who { LWho::Owner => true, LWho::Keeper => s.phase[i] != LPhase::Pending, LWho::Stranger => false };
                if res.is_ok() != expect {
                    let key = if res.is_ok() { if who == LWho::Stranger { "C23/closed_by_stranger" } else { "C23/pending_action_closed_by_keeper" } } else { "C23/legitimate_close_rejected" };
                    out.fail(key, format!("{a:?} in phase {:?} returned {res:?}", s.phase[i]));
                }
                if res.is_ok() {
                    let esc = self.tokens(&s.db, &self.account(sl));
                    let (before, after) = (self.tokens(&s.db, &w.user), self.tokens(&n.db, &w.user));
                    let want = [before[0] + esc[0], before[1] + esc[1], before[2] + esc[2], before[3] + esc[3]];
                    if after != want {
                        out.fail("C23/escrow_not_returned", format!("{a:?} ({:?}): owner held {before:?}, escrow {esc:?}, owner now holds {after:?}", s.phase[i]));
                    }
                    if matches!(s.phase[i], LPhase::Pending | LPhase::Cancelled) && esc != s.snap[i] {
                        out.fail("C23/escrow_not_returned", format!("{a:?} ({:?}): escrow at close {esc:?}, at creation {:?}", s.phase[i], s.snap[i]));
                    }
                    if self.tokens(&n.db, &self.account(sl)) != [0; 4] {
                        out.fail("C23/tokens_left_in_escrow_after_close", format!("{a:?}"));
                    }
                }
            }
            _ => {}
        }
        n
    }
}

/// third machine of C23: GLV deposit / withdrawal lifecycles
pub fn lifecycle(rep: &mut Report, cli: &Cli) {
    let th = cli.tier.thorough();
    let (mut db, g) = pricing_world();
    W::set_time(1_000);
    gmsol_programs::model::clock_verif::set_now(Some(1_000));
    let h = Hist { g, acts: vec![], probe_round_trips: false };
    // the owner already holds GLV tokens (a real deposit before the exploration)
    let r = h.run_deposit(&mut db, 0, 8_000_000_000, 0, 0, true);
    assert_eq!(r.outcome, Outcome::Completed, "glv lifecycle seed deposit");
    let slots = vec![
        LSlot { deposit: true, amounts: (2_000_000_000, 0, 0), unreachable: false, nonce: [0xC1; 32] },
        LSlot { deposit: true, amounts: (0, 500_000, 3_000_000), unreachable: true, nonce: [0xC2; 32] },
        LSlot { deposit: false, amounts: (r.minted / 2, 0, 0), unreachable: false, nonce: [0xC3; 32] },
        LSlot { deposit: false, amounts: (r.minted / 4, 0, 0), unreachable: true, nonce: [0xC4; 32] },
    ];
    let n = if th { 4 } else { 3 };
    let mut acts = vec![];
    for i in 0..n {
        acts.extend([LAct::Create(i), LAct::Exec(i, LWho::Keeper), LAct::Exec(i, LWho::Stranger), LAct::Close(i, LWho::Owner), LAct::Close(i, LWho::Keeper), LAct::Close(i, LWho::Stranger)]);
    }
    acts.push(LAct::Expire);
    let m = GlvLife { h, slots, acts };
    let start = LSt { db, now: 1_000, phase: [LPhase::Absent; 4], snap: [[0; 4]; 4] };
    if let Some(rv) = &cli.replay {
        e2::replay_into(rep, &m, &[start], rv);
        gmsol_programs::model::clock_verif::set_now(None);
        return;
    }
    let depth = if th { 6 } else { 5 };
    let o = e2::explore(rep, "GLV deposit / withdrawal lifecycles", &m, vec![start], &e2::Config { depth, max_states: 3_000_000 }, json!({"machine": "glvlife"}));
    for k in ["Create:ok", "Exec:ok", "Exec:err", "Close:ok", "Close:err"] {
        if o.histogram.get(k).copied().unwrap_or(0) == 0 && rep.violations_total() == 0 {
            rep.machinery(format!("vacuous GLV lifecycle exploration: outcome {k} never occurred"));
        }
    }
    for k in ["glv_actions_cancelled_by_execution", "glv_actions_completed"] {
        if o.counters.get(k).copied().unwrap_or(0) == 0 && rep.violations_total() == 0 {
            rep.machinery(format!("vacuous GLV lifecycle exploration: {k} never occurred"));
        }
    }
    gmsol_programs::model::clock_verif::set_now(None);
}
