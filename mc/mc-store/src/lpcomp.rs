//! C38 (LP staking: time-weighted APY and reward monotonicity, E1) and C39 (competition
//! leaderboard and end-time extensions, E2/E1) on the real program functions through hooks.
use anchor_lang::prelude::*;
use gmsol_competition::states::{Competition, Participant};
use gmsol_competition::verif as cv;
use gmsol_liquidity_provider::verif as lv;
use mc_core::{
    big::*,
    e1,
    e2::{self, Machine, StepOut},
    json, Cli, Report,
};

use crate::svm::{self, addr};

const W: i64 = 7 * 24 * 3600;
const UNIT: u128 = 100_000_000_000_000_000_000;

// ------------------------------------------------------------------------------------------ C38

fn gradients(cli: &Cli) -> Vec<[u128; 53]> {
    let mut v: Vec<[u128; 53]> = vec![[0; 53], [2 * UNIT; 53]];
    let mut asc = [0u128; 53];
    let mut desc = [0u128; 53];
    let mut spiky = [0u128; 53];
    let mut seeded = [0u128; 53];
    let ex = cli.extras(38, 53, 0, 2 * UNIT + 1);
    for i in 0..53 {
        asc[i] = (i as u128 + 1) * UNIT / 100;
        desc[i] = (53 - i as u128) * 3_000_000_000_000_000_001;
        spiky[i] = if i % 2 == 0 { 2 * UNIT } else { 1 };
        seeded[i] = ex[i];
    }
    v.extend([asc, desc, spiky, seeded]);
    v
}

/// the statement: average over each elapsed second of the weekly bucket of that second
fn apy_reference(g: &[u128; 53], d: i64) -> BigUint {
    let total = d as u128;
    let (full, rem) = (total / W as u128, total % W as u128);
    let mut acc = BigUint::zero();
    for wk in 0..full.min(52) {
        acc += bu(g[wk as usize]) * bu(W as u128);
    }
    if full > 52 {
        acc += bu(g[52]) * bu(W as u128) * bu(full - 52);
    }
    if rem > 0 {
        acc += bu(g[full.min(52) as usize]) * bu(rem);
    }
    acc / bu(total)
}

pub fn run_c38(cli: &Cli) -> Report {
    let mut rep = Report::new(cli, "exploration");
    rep.rule("E1: compute_time_weighted_apy over 6 gradients within the 200% cap x stake starts x durations around every week boundary (0, 1, W-1, W, W+1, ..., 54W+1, long horizons) against the exact big-integer average of weekly buckets (and a literal per-second sum for short durations); calculate_gt_reward_amount over boundary stake values x APY rates x cost integrals: monotone in value and in the integral, equal to the two-step floor product, saturating at u64::MAX, negative durations rejected; non-trivial = duration > 0 / reward computed");
    rep.assume("durations are bounded by 10^17 s so that bucket*seconds stays inside u128 (the implementation saturates beyond) and now - start does not overflow i64; unstaking: E3 breadth first over the real liquidity-provider program on the real store (stake_gm with the pricing CPI, unstake_lp of everything / half / all but one / one / too much, by the owner and by a stranger, claim switch, three minimum stake values, clock advances, a third party dropping dust into the vault): a partial unstake pays exactly the requested tokens and keeps (remaining, floor(value * remaining / staked)); an exit that is full by amount or forced by the minimum stake value sweeps the whole vault, closes vault and position and decrements the position count; with claims disabled only full-amount unstakes are accepted; svm-lite runtime trusted");
    if let Some(rv) = &cli.replay {
        if rv.get("path").is_some() {
            crate::lpworld::run(&mut rep, cli);
            return rep;
        }
        rep.sample(json!({"note": "closed-form case: re-run the quick tier", "case": rv}));
        rep.evaluations = 1;
        return rep;
    }
    crate::lpworld::run(&mut rep, cli);
    let th = cli.tier.thorough();
    let gs = gradients(cli);
    let mut durs: Vec<i64> = vec![-5, 0, 1, 2, 59, 60, 3600];
    for k in [1i64, 2, 3, 10, 26, 51, 52, 53, 54, 55, 100, 200] {
        durs.extend([k * W - 1, k * W, k * W + 1, k * W + 12_345]);
    }
    durs.extend([1_000_000_000, 100_000_000_000_000_000]);
    if th {
        durs.extend((1..=54).flat_map(|k| [k * W - 2, k * W + 2, k * W + W / 2]));
    }
    durs.sort();
    durs.dedup();
    let idx: Vec<usize> = (0..gs.len()).collect();
    e1::run(&mut rep, "time-weighted APY", &idx, |&gi, sink| {
        let g = &gs[gi];
        for start in [0i64, 1_000_000, 1_700_000_000, -W - 3] {
            for &d in &durs {
                let Some(now) = start.checked_add(d) else { continue };
                let rp = || json!({"gradient": gi, "start": start, "duration": d});
                let got = match mc_core::catch(|| lv::compute_time_weighted_apy(start, now, g)) {
                    Ok(v) => v,
                    Err(p) => {
                        sink.case(false);
                        sink.fail("C38/panic", format!("compute_time_weighted_apy(start {start}, duration {d}) panicked: {p}"), rp());
                        continue;
                    }
                };
                sink.case(d > 0);
                let want = if d <= 0 { bu(g[0]) } else { apy_reference(g, d) };
                if bu(got) != want {
                    sink.fail("C38/apy_differs_from_bucket_average", format!("start {start} duration {d}: got {got}, average of weekly buckets {want}"), rp());
                }
                let (lo, hi) = (g.iter().min().unwrap(), g.iter().max().unwrap());
                if got < *lo || got > *hi {
                    sink.fail("C38/apy_outside_bucket_range", format!("{got} not within [{lo},{hi}]"), rp());
                }
            }
        }
        // literal per-second sum on short durations around the first boundaries
        for d in [1i64, 2, 3, W - 1, W, W + 1, W + 2, 2 * W + 1] {
            let mut acc = 0u128;
            for s in 0..d {
                acc += g[((s / W) as usize).min(52)];
            }
            let got = lv::compute_time_weighted_apy(5, 5 + d, g);
            sink.case(true);
            if got != acc / d as u128 {
                sink.fail("C38/apy_differs_from_bucket_average", format!("per-second sum, duration {d}: got {got}, expected {}", acc / d as u128), json!({"gradient": gi, "start": 5, "duration": d}));
            }
        }
    });
    // rewards
    let mut vals: Vec<u128> = vec![0, 1, 2, UNIT - 1, UNIT, UNIT + 1, 1_000 * UNIT, 1_000 * UNIT + 1, u64::MAX as u128, u128::MAX / UNIT, u128::MAX / 2, u128::MAX];
    vals.extend(cli.extras(39, 6, 0, 1u128 << 100));
    vals.sort();
    vals.dedup();
    let rates: Vec<u128> = vec![0, 1, UNIT / 31_557_600, UNIT / 1000, UNIT, 2 * UNIT];
    e1::run(&mut rep, "GT reward amount", &rates, |&rate, sink| {
        for &integral in &vals {
            let mut last: Option<u64> = None;
            for &v in &vals {
                let rp = || json!({"value": v.to_string(), "rate": rate.to_string(), "integral": integral.to_string()});
                let r = match mc_core::catch(|| lv::calculate_gt_reward_amount(v, 10, rate, integral).ok()) {
                    Ok(r) => r,
                    Err(p) => {
                        sink.case(false);
                        sink.fail("C38/panic", format!("calculate_gt_reward_amount panicked: {p}"), rp());
                        continue;
                    }
                };
                sink.case(r.is_some());
                // exact: floor(floor(v*rate/UNIT) * integral / UNIT), saturated at u64::MAX; failure only on u128 overflow of a step
                let step1 = bu(v) * bu(rate) / bu(UNIT);
                let step2 = fits(&step1, 128).map(|s| bu(s) * bu(integral) / bu(UNIT));
                let want = step2.as_ref().and_then(|s| fits(s, 128)).map(|s| s.min(u64::MAX as u128) as u64);
                if r != want {
                    sink.fail("C38/reward_differs_from_formula", format!("value {v} rate {rate} integral {integral}: got {r:?}, expected {want:?}"), rp());
                }
                if let (Some(prev), Some(cur)) = (last, r) {
                    if cur < prev {
                        sink.fail("C38/reward_not_monotone_in_stake_value", format!("value {v}: {cur} < {prev}"), rp());
                    }
                }
                if r.is_some() {
                    last = r;
                }
            }
        }
        for &v in &vals {
            let mut last: Option<u64> = None;
            for &integral in &vals {
                if let Ok(Some(cur)) = mc_core::catch(|| lv::calculate_gt_reward_amount(v, 10, rate, integral).ok()) {
                    sink.case(true);
                    if let Some(prev) = last {
                        if cur < prev {
                            sink.fail("C38/reward_not_monotone_in_cost_integral", format!("value {v} integral {integral}: {cur} < {prev}"), json!({"value": v.to_string(), "rate": rate.to_string(), "integral": integral.to_string()}));
                        }
                    }
                    last = Some(cur);
                }
            }
        }
        sink.case(false);
        if lv::calculate_gt_reward_amount(UNIT, -1, rate, 1).is_ok() {
            sink.fail("C38/negative_duration_accepted", "duration -1 accepted".into(), json!({"rate": rate.to_string()}));
        }
    });
    rep
}

// ------------------------------------------------------------------------------------------ C39

const NT: usize = 7;

#[derive(Clone)]
struct LSt {
    comp: Competition,
    vols: [u128; NT],
}

struct Board {
    traders: [Pubkey; NT],
    acts: Vec<(usize, u128)>,
}

fn new_comp(end: i64, ext: i64, cap: i64) -> Competition {
    Competition { bump: 0, authority: Pubkey::default(), start_time: 0, end_time: end, leaderboard: vec![], volume_threshold: 5, extension_duration: ext, extension_cap: cap, extension_triggerer: None, only_count_increase: false, volume_merge_window: 10 }
}

impl Machine for Board {
    type State = LSt;
    type Action = (usize, u128);
    fn actions(&self) -> &[(usize, u128)] {
        &self.acts
    }
    fn action_name(&self, _a: &(usize, u128)) -> String {
        "Trade".into()
    }
    fn key(&self, s: &LSt) -> u128 {
        let board: Vec<(Pubkey, u128)> = s.comp.leaderboard.iter().map(|e| (e.address, e.volume)).collect();
        mc_core::hash128(&(board, s.vols))
    }
    fn step(&self, s: &LSt, a: &(usize, u128), out: &mut StepOut) -> LSt {
        let mut n = s.clone();
        let (t, dv) = *a;
        n.vols[t] += dv;
        let part = Participant { bump: 0, competition: Pubkey::default(), trader: self.traders[t], volume: n.vols[t], last_updated_at: 0, merged_volume: 0 };
        if let Err(p) = mc_core::catch(|| cv::update_leaderboard(&mut n.comp, &part)) {
            out.label = "panic";
            out.fail("C39/panic", format!("update_leaderboard panicked: {p}"));
            out.prune = true;
            return s.clone();
        }
        out.label = "ok";
        let lb = &n.comp.leaderboard;
        let idx = |k: &Pubkey| self.traders.iter().position(|x| x == k);
        let shown: Vec<(Option<usize>, u128)> = lb.iter().map(|e| (idx(&e.address), e.volume)).collect();
        if lb.len() > 5 {
            out.fail("C39/more_than_five_entries", format!("{shown:?}"));
        }
        let mut addrs: Vec<Pubkey> = lb.iter().map(|e| e.address).collect();
        addrs.sort();
        addrs.dedup();
        if addrs.len() != lb.len() {
            out.fail("C39/duplicate_trader_on_board", format!("{shown:?}"));
        }
        if !lb.windows(2).all(|w| w[0].volume >= w[1].volume) {
            out.fail("C39/board_not_sorted", format!("{shown:?}"));
        }
        for e in lb {
            match idx(&e.address) {
                Some(i) if e.volume == n.vols[i] => {}
                other => out.fail("C39/entry_shows_stale_volume", format!("entry {other:?} shows {} but the latest volumes are {:?}", e.volume, n.vols)),
            }
        }
        let active = n.vols.iter().filter(|v| **v > 0).count();
        if lb.len() != active.min(5) {
            out.fail("C39/board_not_filled_with_top_traders", format!("{} entries for {active} active traders: {shown:?} volumes {:?}", lb.len(), n.vols));
        }
        if lb.len() == 5 {
            let last = lb[4].volume;
            for (i, v) in n.vols.iter().enumerate() {
                if !lb.iter().any(|e| e.address == self.traders[i]) && *v > last {
                    out.fail("C39/excluded_trader_has_more_volume_than_last_entry", format!("trader {i} volume {v} > last entry {last}; board {shown:?}"));
                }
            }
        }
        n
    }
}

pub fn run_c39(cli: &Cli) -> Report {
    let mut rep = Report::new(cli, "model_checking");
    rep.rule("E2: every sequence of counted trades by 7 traders with volume increments {1,2,5} (thorough: {1,2,5,11}) through the real update_leaderboard (hook): at most five distinct entries, non-increasing, showing the latest volumes, filled with the top traders, nobody excluded from a full board has more volume than its last entry; plus E1 on extend_competition_time over end time, extension duration, cap and trigger time at the i64 limits: never earlier, never past max(old end, now + cap)");
    rep.assume("end to end (E3, breadth first): real increase / decrease orders of seven traders (four put on the board by real trades beforehand) executed by the store with the competition program as callback (on_created / on_executed / on_closed CPIs signed by the store's callback authority), clock advances inside and beyond the merge window and past the end time: after every trade the stored board holds at most five distinct traders in non-increasing order, each with the volume its participant account records, no participant off a full board records more than the last entry, and the stored end time is never earlier than before nor beyond max(old end, execution time + cap); agreement with a reference of the bookkeeping (which trades count, merge window, threshold) is counted, not required; svm-lite runtime trusted");
    svm::install();
    let th = cli.tier.thorough();
    let traders: [Pubkey; NT] = std::array::from_fn(|i| addr(&format!("trader-{i}")));
    let incs: Vec<u128> = if th { vec![1, 2, 5, 11] } else { vec![1, 2, 5] };
    let acts: Vec<(usize, u128)> = (0..NT).flat_map(|t| incs.iter().map(move |d| (t, *d))).collect();
    let m = Board { traders, acts };
    let start = LSt { comp: new_comp(10_000, 100, 500), vols: [0; NT] };
    if let Some(rv) = &cli.replay {
        if rv["ctx"]["machine"] == "competition" {
            crate::compworld::run(&mut rep, cli);
        } else if rv.get("path").is_some() {
            e2::replay_into(&mut rep, &m, &[start], rv);
        } else {
            rep.sample(json!({"note": "closed-form case: re-run the quick tier", "case": rv}));
            rep.evaluations = 1;
        }
        return rep;
    }
    let depth = if th { 7 } else { 6 };
    e2::explore(&mut rep, "leaderboard updates", &m, vec![start], &e2::Config { depth, max_states: 20_000_000 }, json!({}));
    // end to end: real orders executed by the store with the competition program as their callback
    crate::compworld::run(&mut rep, cli);
    // extensions
    let ends: Vec<i64> = vec![i64::MIN, -1, 0, 100, 1000, i64::MAX - 50, i64::MAX];
    e1::run(&mut rep, "end-time extensions", &ends, |&end, sink| {
        for ext in [i64::MIN, -1, 0i64, 1, 100, i64::MAX] {
            for cap in [i64::MIN, -1, 0i64, 1, 50, 500, i64::MAX] {
                for now in [i64::MIN, 0i64, 99, 100, 950, 2000, i64::MAX] {
                    svm::set_clock(now, 10);
                    let mut comp = new_comp(end, ext, cap);
                    let part = Participant { bump: 0, competition: Pubkey::default(), trader: traders[0], volume: 1, last_updated_at: 0, merged_volume: 0 };
                    let r = mc_core::catch(|| cv::extend_competition_time(&mut comp, &part, 7).is_ok());
                    let rp = || json!({"end": end, "extension": ext, "cap": cap, "now": now});
                    match r {
                        Err(_) => {
                            // the log line computes new - old in i64; only reachable with a negative old end time
                            sink.case(false);
                            sink.count("panic_on_extreme_end_times");
                            if end >= 0 && ext >= 0 && cap >= 0 && now >= 0 {
                                sink.fail("C39/panic", format!("extend_competition_time panicked: end {end} ext {ext} cap {cap} now {now}"), rp());
                            }
                        }
                        Ok(false) => sink.case(false),
                        Ok(true) => {
                            sink.case(true);
                            let bound = (end as i128).max(now as i128 + cap as i128);
                            if comp.end_time < end {
                                sink.fail("C39/end_time_moved_earlier", format!("end {end} -> {}", comp.end_time), rp());
                            }
                            if comp.end_time as i128 > bound {
                                sink.fail("C39/end_time_beyond_cap", format!("end {end} ext {ext} cap {cap} now {now} -> {} > {bound}", comp.end_time), rp());
                            }
                            if comp.extension_triggerer != Some(traders[0]) {
                                sink.fail("C39/triggerer_not_recorded", "extension triggerer missing".into(), rp());
                            }
                        }
                    }
                }
            }
        }
    });
    rep
}
