//! C39 end to end (E3): real increase / decrease orders of several traders executed by the store with the
//! competition program as their callback (the store signs the callback CPI with its callback authority);
//! after every trade the competition and participant accounts are compared with a reference.
use anchor_lang::prelude::*;
use anchor_lang::AccountDeserialize;
use gmsol_competition as comp;
use mc_core::{
    e2::{self, Machine, StepOut},
    json, Cli, Report,
};

use crate::orders::{with_callback, Callback, Side};
use crate::svm::{addr, process, register, Acc, Db, TxError};
use crate::world::{self, ata, ix, sys, token_acc, W};

const UNIT: u128 = 100_000_000_000_000_000_000;
const NT: usize = 7;
/// (start, end, threshold, extension, cap, merge window)
const START: i64 = 900;
const END: i64 = 1_400;
const THRESHOLD: u128 = 450 * UNIT;
const EXTENSION: i64 = 150;
const CAP: i64 = 200;
const MERGE_WINDOW: i64 = 50;

#[derive(Clone, Copy, Debug)]
enum Act {
    /// trader t increases its position by the k-th size
    Increase(usize, usize),
    /// trader t closes half of its position
    Decrease(usize),
    /// trader t creates an increase of the k-th size now; it is executed dt seconds later
    IncreaseLate(usize, usize, i64),
    Adv(i64),
}

const SIZES: [u128; 3] = [120 * UNIT, 260 * UNIT, 500 * UNIT];

#[derive(Clone)]
struct St {
    db: Db,
    now: i64,
    /// reference: counted volume per trader, merged volume, time of the last counted trade
    volume: [u128; NT],
    merged: [u128; NT],
    last: [i64; NT],
    end: i64,
    nonce: u8,
}

struct Cw {
    w: W,
    acts: Vec<Act>,
    traders: [Pubkey; NT],
    competition: Pubkey,
    authority: Pubkey,
    pid: Pubkey,
}

const SIDE: Side = Side { is_long: true, collateral_long: false };

impl Cw {
    fn participant(&self, t: usize) -> Pubkey {
        Pubkey::find_program_address(&[comp::states::PARTICIPANT_SEED, self.competition.as_ref(), self.traders[t].as_ref()], &self.pid).0
    }
    fn cb(&self, t: usize) -> Callback {
        Callback { authority: self.authority, program: self.pid, shared: self.competition, partitioned: self.participant(t) }
    }
    fn read<T: AccountDeserialize>(db: &Db, k: &Pubkey) -> Option<T> {
        let a = db.accounts.get(k)?;
        if a.data.len() < 8 {
            return None;
        }
        T::try_deserialize(&mut &a.data[..]).ok()
    }
    fn size(&self, db: &Db, t: usize) -> u128 {
        db.pod::<gmsol_store::states::Position>(&self.w.position_pda(&self.traders[t], &self.w.m1, SIDE)).map(|p| p.state.size_in_usd).unwrap_or(0)
    }
    /// one whole order: create, execute, close (the callback runs on each); Ok(executed?)
    fn trade(&self, db: &mut Db, t: usize, increase: bool, size: u128, nonce: u8, late: Option<i64>) -> std::result::Result<bool, TxError> {
        let w = &self.w;
        let owner = self.traders[t];
        let n = [nonce; 32];
        with_callback(Some(self.cb(t)), || {
            if increase {
                if !db.exists(&w.position_pda(&owner, &w.m1, SIDE)) {
                    w.prepare_position(db, &w.m1, owner, SIDE)?;
                }
                w.create_increase(db, &w.m1, owner, n, SIDE, (size / UNIT) as u64 * 400_000, size)?;
                if let Some(at) = late {
                    W::set_time(at);
                    w.set_feeds(db, at, (12_0000_0000, 12_0000_0000), (1_0000_0000, 1_0000_0000));
                }
                w.execute_increase(db, &w.m1, owner, n, SIDE, w.keeper, false)?;
            } else {
                w.create_decrease(db, &w.m1, owner, n, SIDE, 0, size)?;
                w.execute_decrease(db, &w.m1, owner, n, SIDE, w.keeper, false)?;
            }
            use gmsol_store::states::common::action::Action;
            let done = db.pod::<gmsol_store::states::Order>(&w.order_pda(&owner, &n)).and_then(|o| o.header().action_state().ok()) == Some(gmsol_utils::action::ActionState::Completed);
            w.close_order(db, &w.m1, owner, owner, n, SIDE, increase, owner)?;
            Ok(done)
        })
    }

    fn check(&self, s: &St, what: &str, out: &mut StepOut) {
        let Some(c) = Self::read::<comp::states::Competition>(&s.db, &self.competition) else {
            out.fail("C39/machinery_competition_unreadable", what.to_string());
            return;
        };
        let board = &c.leaderboard;
        if board.len() > comp::states::MAX_LEADERBOARD_LEN as usize {
            out.fail("C39/board_too_long", format!("{what}: {} entries", board.len()));
        }
        for i in 0..board.len() {
            if board[..i].iter().any(|e| e.address == board[i].address) {
                out.fail("C39/duplicate_trader_on_board", format!("{what}: {:?}", board.iter().map(|e| e.volume / UNIT).collect::<Vec<_>>()));
            }
            if i > 0 && board[i - 1].volume < board[i].volume {
                out.fail("C39/board_not_sorted", format!("{what}: {:?}", board.iter().map(|e| e.volume / UNIT).collect::<Vec<_>>()));
            }
            match self.traders.iter().position(|t| *t == board[i].address) {
                Some(t) => {
                    // "each shown with their latest volume": the participant account is the record of a trader's volume
                    let latest = Self::read::<comp::states::Participant>(&s.db, &self.participant(t)).map(|p| p.volume).unwrap_or(0);
                    if board[i].volume != latest {
                        out.fail("C39/entry_volume_stale", format!("{what}: trader {t} shown with {}, its participant account records {}", board[i].volume / UNIT, latest / UNIT));
                    }
                }
                None => out.fail("C39/unknown_trader_on_board", format!("{what}: {}", board[i].address)),
            }
        }
        let vols: Vec<u128> = (0..NT).map(|t| Self::read::<comp::states::Participant>(&s.db, &self.participant(t)).map(|p| p.volume).unwrap_or(0)).collect();
        let counted = (0..NT).filter(|t| vols[*t] > 0).count();
        if board.len() != counted.min(comp::states::MAX_LEADERBOARD_LEN as usize) {
            out.fail("C39/board_not_filled", format!("{what}: {} entries for {counted} traders with volume", board.len()));
        }
        if board.len() == comp::states::MAX_LEADERBOARD_LEN as usize {
            let last = board.last().unwrap().volume;
            for t in 0..NT {
                if !board.iter().any(|e| e.address == self.traders[t]) && vols[t] > last {
                    out.fail("C39/excluded_trader_above_last_entry", format!("{what}: trader {t} with {} is off the board whose last entry has {}", vols[t] / UNIT, last / UNIT));
                }
            }
        }
        // agreement with the reference bookkeeping (which trades count, merge window, threshold) is recorded, not required:
        // the property constrains the board and the end-time bounds, not when an extension is triggered
        let agree = (0..NT).all(|t| vols[t] == s.volume[t]) && c.end_time == s.end;
        out.count(if agree { "reference_bookkeeping_agrees" } else { "reference_bookkeeping_differs" }, 1);
    }
}

impl Machine for Cw {
    type State = St;
    type Action = Act;
    fn actions(&self) -> &[Act] {
        &self.acts
    }
    fn key(&self, s: &St) -> u128 {
        use std::hash::Hasher;
        let mut h = std::collections::hash_map::DefaultHasher::new();
        s.db.hash_into(&mut h);
        mc_core::hash128(&(h.finish(), s.now, s.volume, s.merged, s.last, s.end))
    }
    fn check_start(&self, s: &St, out: &mut StepOut) {
        self.check(s, "start", out);
    }
    fn step(&self, s: &St, a: &Act, out: &mut StepOut) -> St {
        W::set_time(s.now);
        crate::svm::set_last_restart_slot(0);
        let mut n = s.clone();
        let (t, increase, size) = match *a {
            Act::Adv(dt) => {
                n.now += dt;
                self.w.set_feeds(&mut n.db, n.now, (12_0000_0000, 12_0000_0000), (1_0000_0000, 1_0000_0000));
                out.label = "env";
                return n;
            }
            Act::Increase(t, k) => (t, true, SIZES[k]),
            Act::IncreaseLate(t, k, dt) => {
                n.now += dt;
                (t, true, SIZES[k])
            }
            Act::Decrease(t) => {
                let sz = self.size(&s.db, t) / 2;
                if sz == 0 {
                    out.label = "noop";
                    out.prune = true;
                    return n;
                }
                (t, false, sz)
            }
        };
        let size0 = self.size(&s.db, t);
        n.nonce = s.nonce.wrapping_add(1);
        let late = matches!(a, Act::IncreaseLate(..)).then_some(n.now);
        let r = self.trade(&mut n.db, t, increase, size, n.nonce, late);
        match &r {
            Err(e) => {
                out.label = "err";
                if e.is_panic() {
                    out.fail("C39/panic", format!("{a:?}: {e:?}"));
                }
                // nothing was committed by the failing instruction, earlier instructions of the trade stay
                out.prune = true;
                return s.clone();
            }
            Ok(false) => out.label = "cancelled",
            Ok(true) => out.label = "executed",
        }
        let executed = r.unwrap_or(false);
        let size1 = self.size(&n.db, t);
        // reference: counted only when executed and inside the competition time
        let old_end = s.end;
        let stored_old_end = Self::read::<comp::states::Competition>(&s.db, &self.competition).map(|c| c.end_time).unwrap_or(old_end);
        let at = n.now;
        if executed && at >= START && at <= s.end {
            let v = size1.abs_diff(size0);
            if v > 0 {
                n.volume[t] += v;
                let dt = at.saturating_sub(s.last[t]);
                n.last[t] = at;
                let mut extend = false;
                if dt <= MERGE_WINDOW {
                    n.merged[t] += v;
                    if n.merged[t] >= THRESHOLD {
                        extend = true;
                        n.merged[t] = 0;
                    }
                } else if v >= THRESHOLD {
                    extend = true;
                    n.merged[t] = 0;
                } else {
                    n.merged[t] = v;
                }
                if extend {
                    n.end = (old_end + EXTENSION).min(at + CAP).max(old_end);
                    out.count("extensions", 1);
                }
                out.count("counted_trades", 1);
            }
        } else if executed {
            out.count("trades_outside_the_competition_time", 1);
        }
        // the statement's bounds, independent of the reference above
        if let Some(c) = Self::read::<comp::states::Competition>(&n.db, &self.competition) {
            if c.end_time < stored_old_end {
                out.fail("C39/end_time_moved_earlier", format!("{a:?}: {} -> {}", stored_old_end, c.end_time));
            }
            if c.end_time > stored_old_end.max(at + CAP) {
                out.fail("C39/end_time_beyond_cap", format!("{a:?} at {at}: {} -> {} (cap {CAP})", stored_old_end, c.end_time));
            }
            if c.end_time != stored_old_end {
                out.count("extensions_observed", 1);
            }
        }
        self.check(&n, &format!("{a:?}"), out);
        n
    }
}

pub fn run(rep: &mut Report, cli: &Cli) {
    let th = cli.tier.thorough();
    let (mut db, w) = world::build();
    W::set_time(1_000);
    let pid = comp::ID;
    register(pid, comp::entry, &mut db);
    let seed = [9u8; 32];
    w.create_deposit(&mut db, &w.m1, w.user2, seed, 4_000_000_000, 50_000_000_000, 0, w.user2).expect("seed create");
    w.execute_deposit(&mut db, &w.m1, w.user2, seed, w.keeper, true).expect("seed execute");
    w.prepare_event_buffer(&mut db, w.keeper, 0).expect("event buffer");
    let run = |db: &mut Db, name: &str, i: solana_program::instruction::Instruction, signers: &[Pubkey]| process(db, &i, signers).unwrap_or_else(|e| panic!("c39 world: {name}: {e:?}"));
    let authority = Pubkey::find_program_address(&[gmsol_callback::CALLBACK_AUTHORITY_SEED], &w.pid).0;
    run(&mut db, "initialize_callback_authority", ix(w.pid, gmsol_store::accounts::InitializeCallbackAuthority { payer: w.keeper, callback_authority: authority, system_program: sys() }, gmsol_store::instruction::InitializeCallbackAuthority {}), &[w.keeper]);
    let competition = Pubkey::find_program_address(&[comp::states::COMPETITION_SEED, w.keeper.as_ref(), &START.to_le_bytes()], &pid).0;
    // (a competition must be created before it starts)
    W::set_time(800);
    run(&mut db, "initialize_competition", ix(pid, comp::accounts::InitializeCompetition { payer: w.keeper, competition, system_program: sys() }, comp::instruction::InitializeCompetition { start_time: START, end_time: END, volume_threshold: THRESHOLD, extension_duration: EXTENSION, extension_cap: CAP, only_count_increase: false, volume_merge_window: MERGE_WINDOW }), &[w.keeper]);
    W::set_time(1_000);
    let mut traders = [Pubkey::default(); NT];
    for (i, t) in traders.iter_mut().enumerate() {
        *t = addr(&format!("c39-trader-{i}"));
        db.set(*t, Acc::wallet(100_000_000_000));
        db.set(ata(t, &w.a), token_acc(w.a, *t, 1_000_000_000_000));
        db.set(ata(t, &w.b), token_acc(w.b, *t, 1_000_000_000_000));
        w.prepare_user(&mut db, *t).expect("prepare_user");
        let participant = Pubkey::find_program_address(&[comp::states::PARTICIPANT_SEED, competition.as_ref(), t.as_ref()], &pid).0;
        run(&mut db, "create_participant_idempotent", ix(pid, comp::accounts::CreateParticipantIdempotent { payer: *t, competition, participant, trader: *t, system_program: sys() }, comp::instruction::CreateParticipantIdempotent {}), &[*t]);
    }
    let mut m = Cw { w, acts: vec![], traders, competition, authority, pid };
    // four traders are put on the board by real trades before the exploration starts (distinct volumes)
    let mut start = St { db, now: 1_000, volume: [0; NT], merged: [0; NT], last: [0; NT], end: END, nonce: 0 };
    for (t, k) in [(0usize, 1usize), (1, 0), (2, 1), (2, 0), (3, 0), (3, 0)] {
        let mut out = StepOut::default();
        start = m.step_setup(&start, t, k, &mut out);
        assert!(out.violations.is_empty(), "c39 setup trade violated: {:?}", out.violations);
    }
    // two alphabets: the narrow one (three traders, two sizes) and the wide one (four traders, three sizes, a second decrease and a
    // long clock advance); the quick tier explores the narrow one to depth 5, the thorough tier the wide one to depth 4 and the
    // narrow one to depth 5 (the wide alphabet at depth 5 or anything at depth 6 exceeds the 40 GB address-space cap)
    let acts_of = |wide: bool| -> Vec<Act> {
        let mut acts = vec![];
        let explore: Vec<usize> = if wide { vec![3, 4, 5, 6] } else { vec![4, 5, 6] };
        for &t in &explore {
            acts.push(Act::Increase(t, 0));
            acts.push(Act::Increase(t, 1));
            if wide {
                acts.push(Act::Increase(t, 2));
            }
        }
        acts.push(Act::Decrease(4));
        acts.push(Act::IncreaseLate(5, 1, 700));
        acts.extend([Act::Adv(20), Act::Adv(150)]);
        if wide {
            acts.extend([Act::Decrease(2), Act::Adv(600)]);
        }
        acts
    };
    if let Some(rv) = &cli.replay {
        m.acts = acts_of(rv["ctx"]["wide"].as_bool().unwrap_or(false));
        e2::replay_into(rep, &m, &[start], rv);
        return;
    }
    let mut histogram: std::collections::BTreeMap<String, u64> = Default::default();
    let mut counters: std::collections::BTreeMap<String, u64> = Default::default();
    let runs: Vec<(bool, usize)> = if th { vec![(true, 4), (false, 5)] } else { vec![(false, 5)] };
    for (wide, depth) in runs {
        m.acts = acts_of(wide);
        let name = if wide { "trades with the competition callback (wide alphabet)" } else { "trades with the competition callback" };
        let o = e2::explore(rep, name, &m, vec![start.clone()], &e2::Config { depth, max_states: 3_000_000 }, json!({"machine": "competition", "wide": wide}));
        for (k, v) in &o.histogram {
            *histogram.entry(k.to_string()).or_insert(0) += *v;
        }
        for (k, v) in &o.counters {
            *counters.entry(k.to_string()).or_insert(0) += *v;
        }
    }
    struct O { histogram: std::collections::BTreeMap<String, u64>, counters: std::collections::BTreeMap<String, u64> }
    let o = O { histogram, counters };
    for k in ["Increase:executed", "Decrease:executed"] {
        if o.histogram.get(k).copied().unwrap_or(0) == 0 && rep.violations_total() == 0 {
            rep.machinery(format!("vacuous competition exploration: outcome {k} never occurred"));
        }
    }
    for k in ["counted_trades", "extensions_observed", "trades_outside_the_competition_time", "reference_bookkeeping_agrees"] {
        if o.counters.get(k).copied().unwrap_or(0) == 0 && rep.violations_total() == 0 {
            rep.machinery(format!("vacuous competition exploration: {k} never occurred"));
        }
    }
}

impl Cw {
    fn step_setup(&self, s: &St, t: usize, k: usize, out: &mut StepOut) -> St {
        self.step(s, &Act::Increase(t, k), out)
    }
}
