//! C19 — privileged instructions reject callers without the required role (E1 over the
//! instruction x signer matrix, executed through the real program entrypoints in the in-process
//! runtime). Each probed instruction is first shown to pass its authorisation with the entitled
//! signer (it succeeds, or fails for a reason other than authorisation), then every other signer —
//! a stranger and the single-role holder of every other role — must be rejected, and the runtime
//! guarantees that a rejected instruction leaves all accounts unchanged.
use anchor_lang::prelude::*;
use gmsol_store::states::{Seed, Store};
use mc_core::{e1, json, Cli, Report};
use solana_program::instruction::Instruction;

use crate::svm::{addr, meta, process, Acc, Db, TxError};
use crate::world::{self, ix, sys, W};

const ROLES: [&str; 9] = ["MARKET_KEEPER", "ORDER_KEEPER", "ORACLE_CONTROLLER", "PRICE_KEEPER", "FEATURE_KEEPER", "CONFIG_KEEPER", "GT_CONTROLLER", "MARKET_CONFIG_KEEPER", "MIGRATION_KEEPER"];

/// who is entitled: the store admin, the fee receiver, or the holder(s) of some role(s)
#[derive(Clone, Debug)]
enum Need {
    Admin,
    Role(&'static str),
    AnyRole(&'static [&'static str]),
    /// the treasury receiver address of the store
    Receiver,
}

struct Probe {
    name: &'static str,
    need: Need,
    build: Box<dyn Fn(&W, &mut Db, Pubkey) -> (Instruction, Vec<Pubkey>) + Sync>,
}

fn holder(role: &str) -> Pubkey {
    addr(&format!("c19-holder-{role}"))
}

fn is_auth_error(e: &TxError) -> bool {
    // NotAnAdmin = 6003, PermissionDenied = 6004 (anchor custom errors start at 6000)
    matches!(e.code(), Some(6003) | Some(6004))
}

fn probes() -> Vec<Probe> {
    use gmsol_store::{accounts as a, instruction as i};
    let mut v: Vec<Probe> = vec![];
    macro_rules! p {
        ($name:expr, $need:expr, |$w:ident, $db:ident, $by:ident| $body:expr) => {
            v.push(Probe { name: $name, need: $need, build: Box::new(|$w: &W, $db: &mut Db, $by: Pubkey| $body) });
        };
    }
    use Need::*;
    // ---- store administration
    p!("update_last_restarted_slot", Admin, |w, _db, by| {
        crate::svm::set_last_restart_slot(7); // a cluster restart happened
        (ix(w.pid, a::UpdateLastRestartedSlot { authority: by, store: w.store }, i::UpdateLastRestartedSlot {}), vec![by])
    });
    p!("transfer_store_authority", Admin, |w, _db, by| (ix(w.pid, a::TransferStoreAuthority { authority: by, store: w.store, next_authority: w.stranger }, i::TransferStoreAuthority {}), vec![by]));
    p!("enable_role", Admin, |w, _db, by| (ix(w.pid, a::EnableRole { authority: by, store: w.store }, i::EnableRole { role: "NEW_ROLE".into() }), vec![by]));
    p!("disable_role", Admin, |w, _db, by| (ix(w.pid, a::DisableRole { authority: by, store: w.store }, i::DisableRole { role: "FEATURE_KEEPER".into() }), vec![by]));
    p!("grant_role", Admin, |w, _db, by| (ix(w.pid, a::GrantRole { authority: by, store: w.store }, i::GrantRole { user: w.stranger, role: "ORDER_KEEPER".into() }), vec![by]));
    p!("revoke_role", Admin, |w, _db, by| (ix(w.pid, a::RevokeRole { authority: by, store: w.store }, i::RevokeRole { user: w.keeper, role: "ORDER_KEEPER".into() }), vec![by]));
    p!("insert_amount", Role("CONFIG_KEEPER"), |w, _db, by| (ix(w.pid, a::InsertConfig { authority: by, store: w.store }, i::InsertAmount { key: "oracle_max_age".into(), amount: 77 }), vec![by]));
    p!("insert_factor", Role("CONFIG_KEEPER"), |w, _db, by| (ix(w.pid, a::InsertConfig { authority: by, store: w.store }, i::InsertFactor { key: "oracle_ref_price_deviation".into(), factor: 77 }), vec![by]));
    p!("insert_address", Role("CONFIG_KEEPER"), |w, _db, by| (ix(w.pid, a::InsertConfig { authority: by, store: w.store }, i::InsertAddress { key: "holding".into(), address: w.stranger }), vec![by]));
    p!("insert_order_fee_discount_for_referred_user", Role("MARKET_KEEPER"), |w, _db, by| (ix(w.pid, a::InsertConfig { authority: by, store: w.store }, i::InsertOrderFeeDiscountForReferredUser { factor: 5 }), vec![by]));
    p!("toggle_feature", Role("FEATURE_KEEPER"), |w, _db, by| (ix(w.pid, a::ToggleFeature { authority: by, store: w.store }, i::ToggleFeature { domain: "deposit".into(), action: "create".into(), enable: false }), vec![by]));
    // ---- token map
    p!("set_token_map", Role("MARKET_KEEPER"), |w, _db, by| (ix(w.pid, a::SetTokenMap { authority: by, store: w.store, token_map: w.token_map }, i::SetTokenMap {}), vec![by]));
    p!("push_to_token_map_synthetic", Role("MARKET_KEEPER"), |w, _db, by| {
        let mut builder = gmsol_utils::token_config::UpdateTokenConfigParams::default();
        builder.feeds[0] = addr("c19-feed");
        builder.expected_provider = Some(0);
        (ix(w.pid, a::PushToTokenMapSynthetic { authority: by, store: w.store, token_map: w.token_map, system_program: sys() }, i::PushToTokenMapSynthetic { name: "SYN".into(), token: addr("c19-synthetic"), token_decimals: 8, builder, enable: true, new: true }), vec![by])
    });
    p!("toggle_token_config", Role("MARKET_KEEPER"), |w, _db, by| (ix(w.pid, a::ToggleTokenConfig { authority: by, store: w.store, token_map: w.token_map }, i::ToggleTokenConfig { token: w.a, enable: false }), vec![by]));
    p!("toggle_token_price_adjustment", Role("MARKET_KEEPER"), |w, _db, by| (ix(w.pid, a::ToggleTokenConfig { authority: by, store: w.store, token_map: w.token_map }, i::ToggleTokenPriceAdjustment { token: w.a, enable: true }), vec![by]));
    p!("set_expected_provider", Role("MARKET_KEEPER"), |w, _db, by| (ix(w.pid, a::SetExpectedProvider { authority: by, store: w.store, token_map: w.token_map }, i::SetExpectedProvider { token: w.a, provider: 1 }), vec![by]));
    p!("set_feed_config_v2", Role("MARKET_KEEPER"), |w, _db, by| (ix(w.pid, a::SetFeedConfig { authority: by, store: w.store, token_map: w.token_map }, i::SetFeedConfigV2 { token: w.a, provider: 0, feed: Some(addr("c19-feed-2")), timestamp_adjustment: Some(3), max_deviation_factor: None }), vec![by]));
    // ---- oracle
    // the oracle account is bound to one authority: give every signer an oracle of their own (initialize_oracle is not privileged)
    fn own_oracle(w: &W, db: &mut Db, by: Pubkey) -> Pubkey {
        let oracle = addr(&format!("c19-oracle-{by}"));
        db.set(oracle, Acc::new(1_000_000_000, w.pid, vec![0u8; 8 + std::mem::size_of::<gmsol_store::states::Oracle>()]));
        process(db, &ix(w.pid, gmsol_store::accounts::InitializeOracle { payer: by, authority: by, store: w.store, oracle, system_program: sys() }, gmsol_store::instruction::InitializeOracle {}), &[by]).expect("initialize_oracle");
        oracle
    }
    p!("clear_all_prices", Role("ORACLE_CONTROLLER"), |w, db, by| {
        let oracle = own_oracle(w, db, by);
        (ix(w.pid, a::ClearAllPrices { authority: by, store: w.store, oracle }, i::ClearAllPrices {}), vec![by])
    });
    p!("set_prices_from_price_feed", Role("ORACLE_CONTROLLER"), |w, db, by| {
        let oracle = own_oracle(w, db, by);
        let mut toks = vec![(w.a, w.feed_a), (w.b, w.feed_b)];
        toks.sort();
        let mut x = ix(w.pid, a::SetPricesFromPriceFeed { authority: by, store: w.store, oracle, token_map: w.token_map, chainlink_program: None }, i::SetPricesFromPriceFeed { tokens: toks.iter().map(|t| t.0).collect() });
        x.accounts.extend(toks.iter().map(|t| meta(t.1, false, false)));
        (x, vec![by])
    });
    p!("initialize_price_feed", Role("PRICE_KEEPER"), |w, _db, by| {
        let token = w.a;
        let feed_id = addr("c19-feed-id");
        let index = 3u16;
        let price_feed = Pubkey::find_program_address(&[gmsol_store::states::PriceFeed::SEED, w.store.as_ref(), by.as_ref(), &index.to_le_bytes(), &[0u8], token.as_ref()], &w.pid).0;
        (ix(w.pid, a::InitializePriceFeed { authority: by, store: w.store, price_feed, system_program: sys() }, i::InitializePriceFeed { index, provider: 0, token, feed_id }), vec![by])
    });
    // ---- markets
    p!("toggle_market", Role("MARKET_KEEPER"), |w, _db, by| (ix(w.pid, a::ToggleMarket { authority: by, store: w.store, market: w.m1.market }, i::ToggleMarket { enable: false }), vec![by]));
    p!("toggle_gt_minting", Role("MARKET_KEEPER"), |w, _db, by| (ix(w.pid, a::ToggleGTMinting { authority: by, store: w.store, market: w.m1.market }, i::ToggleGtMinting { enable: true }), vec![by]));
    p!("market_transfer_in", Role("MARKET_KEEPER"), |w, db, by| {
        let from = world::ata(&by, &w.a);
        db.set(from, world::token_acc(w.a, by, 1_000_000));
        (ix(w.pid, a::MarketTransferIn { authority: by, store: w.store, from_authority: by, market: w.m1.market, from, vault: w.vault(&w.a), token_program: spl_token::ID, event_authority: w.event_authority, program: w.pid }, i::MarketTransferIn { amount: 10 }), vec![by])
    });
    p!("update_market_config", Role("MARKET_KEEPER"), |w, _db, by| (ix(w.pid, a::UpdateMarketConfig { authority: by, store: w.store, market: w.m1.market }, i::UpdateMarketConfig { key: "reserve_factor".into(), value: 5 }), vec![by]));
    p!("update_market_config_flag", Role("MARKET_KEEPER"), |w, _db, by| (ix(w.pid, a::UpdateMarketConfig { authority: by, store: w.store, market: w.m1.market }, i::UpdateMarketConfigFlag { key: "skip_borrowing_fee_for_smaller_side".into(), value: false }), vec![by]));
    p!("set_market_config_updatable", Role("MARKET_KEEPER"), |w, _db, by| (ix(w.pid, a::SetMarketConfigUpdatable { authority: by, store: w.store }, i::SetMarketConfigUpdatable { is_flag: false, key: "reserve_factor".into(), updatable: true }), vec![by]));
    p!("initialize_market_vault", Role("MARKET_KEEPER"), |w, db, by| {
        let mint = addr("c19-new-mint");
        db.set(mint, world::mint_acc(6, 0, None));
        let vault = Pubkey::find_program_address(&[b"market_vault", w.store.as_ref(), mint.as_ref()], &w.pid).0;
        (ix(w.pid, a::InitializeMarketVault { authority: by, store: w.store, mint, vault, system_program: sys(), token_program: spl_token::ID }, i::InitializeMarketVault {}), vec![by])
    });
    p!("claim_fees_from_market", Receiver, |w, db, by| {
        let target = world::ata(&by, &w.a);
        if !db.exists(&target) {
            db.set(target, world::token_acc(w.a, by, 0));
        }
        (ix(w.pid, a::ClaimFeesFromMarket { authority: by, store: w.store, market: w.m1.market, token_mint: w.a, vault: w.vault(&w.a), target, token_program: spl_token::ID, event_authority: w.event_authority, program: w.pid }, i::ClaimFeesFromMarket {}), vec![by])
    });
    // ---- GT
    p!("initialize_gt", Role("MARKET_KEEPER"), |w, _db, by| (ix(w.pid, a::InitializeGt { authority: by, store: w.store, system_program: sys() }, i::InitializeGt { decimals: 7, initial_minting_cost: 100, grow_factor: 101, grow_step: 10, ranks: vec![1, 2] }), vec![by]));
    p!("gt_set_exchange_time_window", Role("GT_CONTROLLER"), |w, _db, by| (ix(w.pid, a::ConfigureGt { authority: by, store: w.store }, i::GtSetExchangeTimeWindow { window: 60 }), vec![by]));
    p!("gt_set_referral_reward_factors", Role("GT_CONTROLLER"), |w, _db, by| (ix(w.pid, a::ConfigureGt { authority: by, store: w.store }, i::GtSetReferralRewardFactors { factors: vec![0] }), vec![by]));
    p!("gt_set_order_fee_discount_factors", Role("MARKET_KEEPER"), |w, _db, by| (ix(w.pid, a::ConfigureGt { authority: by, store: w.store }, i::GtSetOrderFeeDiscountFactors { factors: vec![0] }), vec![by]));
    p!("update_gt_cumulative_inv_cost_factor", Role("GT_CONTROLLER"), |w, _db, by| (ix(w.pid, a::UpdateGtCumulativeInvCostFactor { authority: by, store: w.store }, i::UpdateGtCumulativeInvCostFactor {}), vec![by]));
    v
}

pub fn run(cli: &Cli) -> Report {
    let mut rep = Report::new(cli, "exploration");
    rep.rule("E1 over the instruction x signer matrix through the real entrypoints: every probed privileged instruction (list in `instructions_probed`) is invoked with valid accounts by the entitled signer (must pass authorisation: success or a non-authorisation error) and by a stranger, the store admin, and the single-role holder of each of the nine other roles (must be rejected; the error code is recorded); execute_deposit / execute_withdrawal / close by non-owners are covered by C23, market config updates by C20, the timelock instructions by C36; non-trivial = a rejection of an unauthorised signer was observed");
    rep.assume("svm-lite commits nothing for a failed instruction (transaction atomicity, self-tested), hence 'leaves all accounts unchanged'; instructions not listed in `instructions_probed` (GLV, virtual inventory, position orders, treasury, liquidity-provider and competition administration) are outside the claim");
    if let Some(rv) = &cli.replay {
        rep.sample(json!({"note": "matrix case: re-run the quick tier", "case": rv}));
        rep.evaluations = 1;
        return rep;
    }
    let (mut db, w) = world::build();
    // single-role holders
    let mut store: Store = db.pod(&w.store).expect("store");
    for role in ROLES {
        if store.role().role_index(role).ok().flatten().is_none() {
            store.enable_role(role).expect("enable role");
        }
        store.grant(&holder(role), role).expect("grant");
        db.set(holder(role), Acc::wallet(100_000_000_000));
    }
    db.set_pod(&w.store, &store);
    // GT configuration instructions need an initialised GT state (initialize_gt itself needs the opposite)
    let db_gt = {
        let mut d = db.clone();
        let mut s: Store = d.pod(&w.store).expect("store");
        W::set_time(1_000);
        gmsol_store::verif::gt_init(gmsol_store::verif::gt_mut(&mut s), 0, 100, 101, 10, &[]).expect("gt init");
        d.set_pod(&w.store, &s);
        d
    };
    let ps = probes();
    let names: Vec<&str> = ps.iter().map(|p| p.name).collect();
    rep.extra.insert("instructions_probed".into(), json!(names));
    let idx: Vec<usize> = (0..ps.len()).collect();
    e1::run(&mut rep, "instruction x signer", &idx, |&pi, sink| {
        W::set_time(1_000);
        crate::svm::set_last_restart_slot(0);
        let p = &ps[pi];
        let db = if p.name.starts_with("gt_") || p.name.starts_with("update_gt") { &db_gt } else { &db };
        let entitled: Vec<Pubkey> = match &p.need {
            Need::Admin | Need::Receiver => vec![w.admin],
            Need::Role(r) => vec![holder(r)],
            Need::AnyRole(rs) => rs.iter().map(|r| holder(r)).collect(),
        };
        // 1. the entitled signer passes authorisation
        for by in &entitled {
            let mut d = db.clone();
            let (i, signers) = (p.build)(&w, &mut d, *by);
            let r = process(&mut d, &i, &signers);
            sink.case(false);
            match &r {
                Ok(()) => sink.count("entitled_signer_succeeded"),
                Err(e) if is_auth_error(e) => sink.fail("C19/entitled_signer_rejected", format!("{}: the entitled signer was rejected with {e:?}", p.name), json!({"instruction": p.name})),
                // a program-level error other than an authorisation error means the access check was passed
                Err(e) if e.code().map(|c| c >= 6000).unwrap_or(false) => sink.count("entitled_signer_passed_authorisation_then_failed"),
                Err(e) => {
                    sink.count("entitled_signer_failed_for_another_reason");
                    sink.fail(&format!("C19/probe_not_valid/{}", p.name), format!("{}: the probe does not reach a successful execution with the entitled signer: {e:?}", p.name), json!({"instruction": p.name}));
                }
            }
        }
        // 2. everybody else is rejected
        let mut others: Vec<(String, Pubkey)> = vec![("stranger".into(), w.stranger)];
        if !matches!(p.need, Need::Admin | Need::Receiver) {
            others.push(("admin".into(), w.admin));
        }
        for role in ROLES {
            let h = holder(role);
            if !entitled.contains(&h) {
                others.push((format!("holder of {role}"), h));
            }
        }
        for (label, by) in others {
            let mut d = db.clone();
            let (i, signers) = (p.build)(&w, &mut d, by);
            let before = {
                use std::hash::Hasher;
                let mut h = std::collections::hash_map::DefaultHasher::new();
                d.hash_into(&mut h);
                h.finish()
            };
            let r = process(&mut d, &i, &signers);
            let after = {
                use std::hash::Hasher;
                let mut h = std::collections::hash_map::DefaultHasher::new();
                d.hash_into(&mut h);
                h.finish()
            };
            match r {
                Ok(()) => {
                    sink.case(false);
                    sink.fail("C19/unauthorised_signer_accepted", format!("{} executed by {label} succeeded", p.name), json!({"instruction": p.name, "signer": label}));
                }
                Err(e) => {
                    sink.case(true);
                    sink.count(if is_auth_error(&e) { "rejected_with_authorisation_error" } else { "rejected_with_another_error" });
                    if e.is_panic() {
                        sink.fail("C19/panic", format!("{} by {label} panicked: {e:?}", p.name), json!({"instruction": p.name, "signer": label}));
                    }
                    if before != after {
                        sink.fail("C19/rejected_instruction_changed_accounts", format!("{} by {label}", p.name), json!({"instruction": p.name, "signer": label}));
                    }
                }
            }
        }
    });
    rep
}
