//! C19 — privileged instructions reject callers without the required role (E1 over the
//! instruction x signer matrix, executed through the real program entrypoints in the in-process
//! runtime). Each probed instruction is first shown to pass its authorisation with the entitled
//! signer (it succeeds, or fails for a reason other than authorisation), then every other signer —
//! a stranger and the single-role holder of every other role — must be rejected, and the runtime
//! guarantees that a rejected instruction leaves all accounts unchanged.
use anchor_lang::prelude::*;
use gmsol_store::states::{Seed, Store};
use mc_core::{e1, e2::{self, Machine, StepOut}, json, Cli, Report};
use solana_program::instruction::Instruction;

use crate::svm::{addr, meta, process, Acc, Db, TxError};
use crate::orders::Side;
use crate::world::{self, ix, sys, W};

const ROLES: [&str; 14] = ["RESTART_ADMIN", "MARKET_KEEPER", "ORDER_KEEPER", "ORACLE_CONTROLLER", "PRICE_KEEPER", "FEATURE_KEEPER", "CONFIG_KEEPER", "GT_CONTROLLER", "MARKET_CONFIG_KEEPER", "MIGRATION_KEEPER", "TREASURY_OWNER", "TREASURY_ADMIN", "TREASURY_KEEPER", "TREASURY_WITHDRAWER"];

/// who is entitled: the store admin, the fee receiver, or the holder(s) of some role(s)
#[derive(Clone, Debug)]
enum Need {
    Admin,
    Role(&'static str),
    AnyRole(&'static [&'static str]),
    /// the treasury receiver address of the store
    Receiver,
    /// after a cluster restart (and only then) a RESTART_ADMIN holder has the admin's rights
    AdminOrRestartAdminAfterRestart,
}

struct Probe {
    name: &'static str,
    need: Need,
    build: Box<dyn Fn(&W, &mut Db, Pubkey) -> (Instruction, Vec<Pubkey>) + Sync>,
}

fn holder(role: &str) -> Pubkey {
    addr(&format!("c19-holder-{role}"))
}

fn is_auth_error(e: &TxError) -> bool {
    // NotAnAdmin = 6003, PermissionDenied = 6004 (anchor custom errors start at 6000)
    matches!(e.code(), Some(6003) | Some(6004))
}

fn probes() -> Vec<Probe> {
    use gmsol_store::{accounts as a, instruction as i};
    let mut v: Vec<Probe> = vec![];
    macro_rules! p {
        ($name:expr, $need:expr, |$w:ident, $db:ident, $by:ident| $body:expr) => {
            v.push(Probe { name: $name, need: $need, build: Box::new(|$w: &W, $db: &mut Db, $by: Pubkey| $body) });
        };
    }
    use Need::*;
    // ---- store administration
    p!("update_last_restarted_slot", AdminOrRestartAdminAfterRestart, |w, _db, by| {
        crate::svm::set_last_restart_slot(7); // a cluster restart happened
        (ix(w.pid, a::UpdateLastRestartedSlot { authority: by, store: w.store }, i::UpdateLastRestartedSlot {}), vec![by])
    });
    p!("transfer_store_authority", Admin, |w, _db, by| (ix(w.pid, a::TransferStoreAuthority { authority: by, store: w.store, next_authority: w.stranger }, i::TransferStoreAuthority {}), vec![by]));
    p!("enable_role", Admin, |w, _db, by| (ix(w.pid, a::EnableRole { authority: by, store: w.store }, i::EnableRole { role: "NEW_ROLE".into() }), vec![by]));
    p!("disable_role", Admin, |w, _db, by| (ix(w.pid, a::DisableRole { authority: by, store: w.store }, i::DisableRole { role: "FEATURE_KEEPER".into() }), vec![by]));
    p!("grant_role", Admin, |w, _db, by| (ix(w.pid, a::GrantRole { authority: by, store: w.store }, i::GrantRole { user: w.stranger, role: "ORDER_KEEPER".into() }), vec![by]));
    p!("revoke_role", Admin, |w, _db, by| (ix(w.pid, a::RevokeRole { authority: by, store: w.store }, i::RevokeRole { user: w.keeper, role: "ORDER_KEEPER".into() }), vec![by]));
    p!("insert_amount", Role("CONFIG_KEEPER"), |w, _db, by| (ix(w.pid, a::InsertConfig { authority: by, store: w.store }, i::InsertAmount { key: "oracle_max_age".into(), amount: 77 }), vec![by]));
    p!("insert_factor", Role("CONFIG_KEEPER"), |w, _db, by| (ix(w.pid, a::InsertConfig { authority: by, store: w.store }, i::InsertFactor { key: "oracle_ref_price_deviation".into(), factor: 77 }), vec![by]));
    p!("insert_address", Role("CONFIG_KEEPER"), |w, _db, by| (ix(w.pid, a::InsertConfig { authority: by, store: w.store }, i::InsertAddress { key: "holding".into(), address: w.stranger }), vec![by]));
    p!("insert_order_fee_discount_for_referred_user", Role("MARKET_KEEPER"), |w, _db, by| (ix(w.pid, a::InsertConfig { authority: by, store: w.store }, i::InsertOrderFeeDiscountForReferredUser { factor: 5 }), vec![by]));
    p!("toggle_feature", Role("FEATURE_KEEPER"), |w, _db, by| (ix(w.pid, a::ToggleFeature { authority: by, store: w.store }, i::ToggleFeature { domain: "deposit".into(), action: "create".into(), enable: false }), vec![by]));
    // ---- token map
    p!("set_token_map", Role("MARKET_KEEPER"), |w, _db, by| (ix(w.pid, a::SetTokenMap { authority: by, store: w.store, token_map: w.token_map }, i::SetTokenMap {}), vec![by]));
    p!("push_to_token_map_synthetic", Role("MARKET_KEEPER"), |w, _db, by| {
        let mut builder = gmsol_utils::token_config::UpdateTokenConfigParams::default();
        builder.feeds[0] = addr("c19-feed");
        builder.expected_provider = Some(0);
        (ix(w.pid, a::PushToTokenMapSynthetic { authority: by, store: w.store, token_map: w.token_map, system_program: sys() }, i::PushToTokenMapSynthetic { name: "SYN".into(), token: addr("c19-synthetic"), token_decimals: 8, builder, enable: true, new: true }), vec![by])
    });
    p!("toggle_token_config", Role("MARKET_KEEPER"), |w, _db, by| (ix(w.pid, a::ToggleTokenConfig { authority: by, store: w.store, token_map: w.token_map }, i::ToggleTokenConfig { token: w.a, enable: false }), vec![by]));
    p!("toggle_token_price_adjustment", Role("MARKET_KEEPER"), |w, _db, by| (ix(w.pid, a::ToggleTokenConfig { authority: by, store: w.store, token_map: w.token_map }, i::ToggleTokenPriceAdjustment { token: w.a, enable: true }), vec![by]));
    p!("set_expected_provider", Role("MARKET_KEEPER"), |w, _db, by| (ix(w.pid, a::SetExpectedProvider { authority: by, store: w.store, token_map: w.token_map }, i::SetExpectedProvider { token: w.a, provider: 1 }), vec![by]));
    p!("set_feed_config_v2", Role("MARKET_KEEPER"), |w, _db, by| (ix(w.pid, a::SetFeedConfig { authority: by, store: w.store, token_map: w.token_map }, i::SetFeedConfigV2 { token: w.a, provider: 0, feed: Some(addr("c19-feed-2")), timestamp_adjustment: Some(3), max_deviation_factor: None }), vec![by]));
    // ---- oracle
    // the oracle account is bound to one authority: give every signer an oracle of their own (initialize_oracle is not privileged)
    fn own_oracle(w: &W, db: &mut Db, by: Pubkey) -> Pubkey {
        let oracle = addr(&format!("c19-oracle-{by}"));
        db.set(oracle, Acc::new(1_000_000_000, w.pid, vec![0u8; 8 + std::mem::size_of::<gmsol_store::states::Oracle>()]));
        process(db, &ix(w.pid, gmsol_store::accounts::InitializeOracle { payer: by, authority: by, store: w.store, oracle, system_program: sys() }, gmsol_store::instruction::InitializeOracle {}), &[by]).expect("initialize_oracle");
        oracle
    }
    p!("clear_all_prices", Role("ORACLE_CONTROLLER"), |w, db, by| {
        let oracle = own_oracle(w, db, by);
        (ix(w.pid, a::ClearAllPrices { authority: by, store: w.store, oracle }, i::ClearAllPrices {}), vec![by])
    });
    p!("set_prices_from_price_feed", Role("ORACLE_CONTROLLER"), |w, db, by| {
        let oracle = own_oracle(w, db, by);
        let mut toks = vec![(w.a, w.feed_a), (w.b, w.feed_b)];
        toks.sort();
        let mut x = ix(w.pid, a::SetPricesFromPriceFeed { authority: by, store: w.store, oracle, token_map: w.token_map, chainlink_program: None }, i::SetPricesFromPriceFeed { tokens: toks.iter().map(|t| t.0).collect() });
        x.accounts.extend(toks.iter().map(|t| meta(t.1, false, false)));
        (x, vec![by])
    });
    p!("initialize_price_feed", Role("PRICE_KEEPER"), |w, _db, by| {
        let token = w.a;
        let feed_id = addr("c19-feed-id");
        let index = 3u16;
        let price_feed = Pubkey::find_program_address(&[gmsol_store::states::PriceFeed::SEED, w.store.as_ref(), by.as_ref(), &index.to_le_bytes(), &[0u8], token.as_ref()], &w.pid).0;
        (ix(w.pid, a::InitializePriceFeed { authority: by, store: w.store, price_feed, system_program: sys() }, i::InitializePriceFeed { index, provider: 0, token, feed_id }), vec![by])
    });
    // ---- markets
    p!("toggle_market", Role("MARKET_KEEPER"), |w, _db, by| (ix(w.pid, a::ToggleMarket { authority: by, store: w.store, market: w.m1.market }, i::ToggleMarket { enable: false }), vec![by]));
    p!("toggle_gt_minting", Role("MARKET_KEEPER"), |w, _db, by| (ix(w.pid, a::ToggleGTMinting { authority: by, store: w.store, market: w.m1.market }, i::ToggleGtMinting { enable: true }), vec![by]));
    p!("market_transfer_in", Role("MARKET_KEEPER"), |w, db, by| {
        let from = world::ata(&by, &w.a);
        db.set(from, world::token_acc(w.a, by, 1_000_000));
        (ix(w.pid, a::MarketTransferIn { authority: by, store: w.store, from_authority: by, market: w.m1.market, from, vault: w.vault(&w.a), token_program: spl_token::ID, event_authority: w.event_authority, program: w.pid }, i::MarketTransferIn { amount: 10 }), vec![by])
    });
    p!("update_market_config", Role("MARKET_KEEPER"), |w, _db, by| (ix(w.pid, a::UpdateMarketConfig { authority: by, store: w.store, market: w.m1.market }, i::UpdateMarketConfig { key: "reserve_factor".into(), value: 5 }), vec![by]));
    p!("update_market_config_flag", Role("MARKET_KEEPER"), |w, _db, by| (ix(w.pid, a::UpdateMarketConfig { authority: by, store: w.store, market: w.m1.market }, i::UpdateMarketConfigFlag { key: "skip_borrowing_fee_for_smaller_side".into(), value: false }), vec![by]));
    p!("set_market_config_updatable", Role("MARKET_KEEPER"), |w, _db, by| (ix(w.pid, a::SetMarketConfigUpdatable { authority: by, store: w.store }, i::SetMarketConfigUpdatable { is_flag: false, key: "reserve_factor".into(), updatable: true }), vec![by]));
    p!("initialize_market_vault", Role("MARKET_KEEPER"), |w, db, by| {
        let mint = addr("c19-new-mint");
        db.set(mint, world::mint_acc(6, 0, None));
        let vault = Pubkey::find_program_address(&[b"market_vault", w.store.as_ref(), mint.as_ref()], &w.pid).0;
        (ix(w.pid, a::InitializeMarketVault { authority: by, store: w.store, mint, vault, system_program: sys(), token_program: spl_token::ID }, i::InitializeMarketVault {}), vec![by])
    });
    p!("claim_fees_from_market", Receiver, |w, db, by| {
        let target = world::ata(&by, &w.a);
        if !db.exists(&target) {
            db.set(target, world::token_acc(w.a, by, 0));
        }
        (ix(w.pid, a::ClaimFeesFromMarket { authority: by, store: w.store, market: w.m1.market, token_mint: w.a, vault: w.vault(&w.a), target, token_program: spl_token::ID, event_authority: w.event_authority, program: w.pid }, i::ClaimFeesFromMarket {}), vec![by])
    });
    // ---- GT
    p!("initialize_gt", Role("MARKET_KEEPER"), |w, _db, by| (ix(w.pid, a::InitializeGt { authority: by, store: w.store, system_program: sys() }, i::InitializeGt { decimals: 7, initial_minting_cost: 100, grow_factor: 101, grow_step: 10, ranks: vec![1, 2] }), vec![by]));
    p!("gt_set_exchange_time_window", Role("GT_CONTROLLER"), |w, _db, by| (ix(w.pid, a::ConfigureGt { authority: by, store: w.store }, i::GtSetExchangeTimeWindow { window: 60 }), vec![by]));
    p!("gt_set_referral_reward_factors", Role("GT_CONTROLLER"), |w, _db, by| (ix(w.pid, a::ConfigureGt { authority: by, store: w.store }, i::GtSetReferralRewardFactors { factors: vec![0] }), vec![by]));
    p!("gt_set_order_fee_discount_factors", Role("MARKET_KEEPER"), |w, _db, by| (ix(w.pid, a::ConfigureGt { authority: by, store: w.store }, i::GtSetOrderFeeDiscountFactors { factors: vec![0] }), vec![by]));
    p!("update_gt_cumulative_inv_cost_factor", Role("GT_CONTROLLER"), |w, _db, by| (ix(w.pid, a::UpdateGtCumulativeInvCostFactor { authority: by, store: w.store }, i::UpdateGtCumulativeInvCostFactor {}), vec![by]));
    // ---- position orders (world: an open position, a pending increase and a pending decrease order of `user`, claimable accounts prepared)
    const LONG_B: Side = Side { is_long: true, collateral_long: false };
    p!("order:use_claimable_account", Role("ORDER_KEEPER"), |w, db, by| (w.use_claimable_ix(db, w.a, w.user2, 1_000, by), vec![by]));
    p!("order:execute_increase_or_swap_order_v2", Role("ORDER_KEEPER"), |w, db, by| {
        let _ = w.prepare_event_buffer(db, by, 0);
        (w.execute_increase_ix(&w.m1, w.user, [0x52; 32], LONG_B, by, true), vec![by])
    });
    p!("order:execute_decrease_order_v2", Role("ORDER_KEEPER"), |w, db, by| {
        let _ = w.prepare_event_buffer(db, by, 0);
        (w.execute_decrease_ix(db, &w.m1, w.user, [0x53; 32], LONG_B, by, true), vec![by])
    });
    p!("order:liquidate", Role("ORDER_KEEPER"), |w, db, by| {
        let _ = w.prepare_event_buffer(db, by, 0);
        (w.liquidate_ix(db, &w.m1, w.user, [0x54; 32], LONG_B, by), vec![by])
    });
    // ---- liquidity actions and keeper maintenance (world: pending deposit, withdrawal and shift of `user`)
    p!("action:execute_deposit", Role("ORDER_KEEPER"), |w, _db, by| (w.execute_deposit_ix(&w.m1, w.user, [0x61; 32], by, true), vec![by]));
    p!("action:execute_withdrawal", Role("ORDER_KEEPER"), |w, _db, by| (w.execute_withdrawal_ix(&w.m1, w.user, [0x62; 32], by, true), vec![by]));
    p!("action:execute_shift", Role("ORDER_KEEPER"), |w, _db, by| (w.execute_shift_ix(&w.m1, &w.m2, w.user, [0x63; 32], by, true), vec![by]));
    p!("action:update_fees_state", Role("ORDER_KEEPER"), |w, _db, by| {
        let mut x = ix(w.pid, a::UpdateFeesState { authority: by, store: w.store, token_map: w.token_map, oracle: w.oracle, market: w.m1.market, event_authority: w.event_authority, program: w.pid }, i::UpdateFeesState {});
        x.accounts.extend(w.feeds_for(&w.m1));
        (x, vec![by])
    });
    p!("action:update_adl_state", Role("ORDER_KEEPER"), |w, _db, by| {
        let mut x = ix(w.pid, a::UpdateAdlState { authority: by, store: w.store, token_map: w.token_map, oracle: w.oracle, market: w.m1.market, chainlink_program: None }, i::UpdateAdlState { is_long: true });
        x.accounts.extend(w.feeds_for(&w.m1));
        (x, vec![by])
    });
    p!("action:update_closed_state", Role("ORDER_KEEPER"), |w, _db, by| {
        let mut x = ix(w.pid, a::UpdateClosedState { authority: by, store: w.store, token_map: w.token_map, oracle: w.oracle, market: w.m1.market }, i::UpdateClosedState {});
        x.accounts.extend(w.feeds_for(&w.m1));
        (x, vec![by])
    });
    // ---- market creation, token map, virtual inventories
    p!("initialize_market", Role("MARKET_KEEPER"), |w, _db, by| {
        let (index, long, short) = (w.a, w.b, w.a);
        let market_token = Pubkey::find_program_address(&[b"market_token_mint", w.store.as_ref(), index.as_ref(), long.as_ref(), short.as_ref()], &w.pid).0;
        let market = Pubkey::find_program_address(&[gmsol_store::states::Market::SEED, w.store.as_ref(), market_token.as_ref()], &w.pid).0;
        (ix(w.pid, a::InitializeMarket { authority: by, store: w.store, market_token_mint: market_token, long_token_mint: long, short_token_mint: short, market, token_map: w.token_map, long_token_vault: w.vault(&long), short_token_vault: w.vault(&short), system_program: sys(), token_program: spl_token::ID }, i::InitializeMarket { index_token_mint: index, name: "A/USD[B-A]".into(), enable: true }), vec![by])
    });
    p!("push_to_token_map", Role("MARKET_KEEPER"), |w, db, by| {
        let token = addr("c19-real-mint");
        db.set(token, world::mint_acc(6, 0, None));
        let mut builder = gmsol_utils::token_config::UpdateTokenConfigParams::default();
        builder.feeds[0] = addr("c19-feed-3");
        builder.expected_provider = Some(0);
        (ix(w.pid, a::PushToTokenMap { authority: by, store: w.store, token_map: w.token_map, token, system_program: sys() }, i::PushToTokenMap { name: "C".into(), builder, enable: true, new: true }), vec![by])
    });
    p!("create_virtual_inventory_for_swaps", Role("MARKET_KEEPER"), |w, _db, by| {
        let index = 2u32;
        let vi = Pubkey::find_program_address(&[gmsol_store::states::market::virtual_inventory::VIRTUAL_INVENTORY_FOR_SWAPS_SEED, w.store.as_ref(), &index.to_le_bytes()], &w.pid).0;
        (ix(w.pid, a::CreateVirtualInventoryForSwaps { authority: by, store: w.store, virtual_inventory: vi, system_program: sys() }, i::CreateVirtualInventoryForSwaps { index, long_amount_decimals: 6, short_amount_decimals: 6 }), vec![by])
    });
    p!("create_virtual_inventory_for_positions", Role("MARKET_KEEPER"), |w, _db, by| {
        let vi = Pubkey::find_program_address(&[gmsol_store::states::market::virtual_inventory::VIRTUAL_INVENTORY_FOR_POSITIONS_SEED, w.store.as_ref(), w.a.as_ref()], &w.pid).0;
        (ix(w.pid, a::CreateVirtualInventoryForPositions { authority: by, store: w.store, index_token: w.a, virtual_inventory: vi, system_program: sys() }, i::CreateVirtualInventoryForPositions {}), vec![by])
    });
    p!("set_feed_config_market_status_flag", Role("MARKET_KEEPER"), |w, _db, by| (ix(w.pid, a::SetFeedConfigMarketStatusFlag { authority: by, store: w.store, token_map: w.token_map, token: w.a }, i::SetFeedConfigMarketStatusFlag { provider: 0, flag: 0, enable: true }), vec![by]));
    p!("order:close_empty_claimable_account", Role("ORDER_KEEPER"), |w, db, by| {
        // a claimable account of the current window, created (empty) by the keeper beforehand
        let account = w.use_claimable(db, w.b, w.user2, 1_000, w.keeper).expect("use_claimable");
        (ix(w.pid, a::CloseEmptyClaimableAccount { authority: by, store: w.store, mint: w.b, owner: w.user2, account, system_program: sys(), token_program: spl_token::ID }, i::CloseEmptyClaimableAccount { timestamp: 1_000 }), vec![by])
    });
    p!("gt_mint_gt_reward", Role("GT_CONTROLLER"), |w, db, by| {
        let _ = w.prepare_user(db, w.user);
        (ix(w.pid, a::MintGtReward { authority: by, store: w.store, user: w.user_pda(&w.user), event_authority: w.event_authority, program: w.pid }, i::MintGtReward { amount: 5 }), vec![by])
    });
    // ---- GLV management (world: a GLV over both markets)
    p!("glv:initialize_glv", Role("MARKET_KEEPER"), |w, _db, by| (crate::glvchk::initialize_glv_ix(w, 5, &[&w.m1, &w.m2], by), vec![by]));
    p!("glv:update_glv_market_config", Role("MARKET_KEEPER"), |w, _db, by| (ix(w.pid, a::UpdateGlvMarketConfig { authority: by, store: w.store, glv: crate::glvchk::glv_keys(w, 0).0, market_token: w.m1.market_token }, i::UpdateGlvMarketConfig { max_amount: Some(5), max_value: None }), vec![by]));
    p!("glv:toggle_glv_market_flag", Role("MARKET_KEEPER"), |w, _db, by| (ix(w.pid, a::UpdateGlvMarketConfig { authority: by, store: w.store, glv: crate::glvchk::glv_keys(w, 0).0, market_token: w.m1.market_token }, i::ToggleGlvMarketFlag { flag: "is_deposit_allowed".into(), enable: true }), vec![by]));
    p!("glv:update_glv_config", Role("MARKET_KEEPER"), |w, _db, by| (ix(w.pid, a::UpdateGlvConfig { authority: by, store: w.store, glv: crate::glvchk::glv_keys(w, 0).0 }, i::UpdateGlvConfig { params: gmsol_store::states::glv::UpdateGlvParams { min_tokens_for_first_deposit: Some(7), ..Default::default() } }), vec![by]));
    // ---- treasury administration (world: the treasury program with a config and a vault config of this store; role checks by CPI)
    fn tconfig(w: &W) -> Pubkey {
        Pubkey::find_program_address(&[gmsol_treasury::states::Config::SEED, w.store.as_ref()], &gmsol_treasury::ID).0
    }
    fn tvc(w: &W, index: u16) -> Pubkey {
        Pubkey::find_program_address(&[gmsol_treasury::states::TreasuryVaultConfig::SEED, tconfig(w).as_ref(), &index.to_le_bytes()], &gmsol_treasury::ID).0
    }
    use gmsol_treasury::{accounts as ta, instruction as ti};
    p!("treasury:set_gt_factor", Role("TREASURY_ADMIN"), |w, _db, by| (ix(gmsol_treasury::ID, ta::UpdateConfig { authority: by, store: w.store, config: tconfig(w), store_program: w.pid }, ti::SetGtFactor { factor: 7 }), vec![by]));
    p!("treasury:set_buyback_factor", Role("TREASURY_ADMIN"), |w, _db, by| (ix(gmsol_treasury::ID, ta::UpdateConfig { authority: by, store: w.store, config: tconfig(w), store_program: w.pid }, ti::SetBuybackFactor { factor: 9 }), vec![by]));
    p!("treasury:initialize_treasury_vault_config", Role("TREASURY_ADMIN"), |w, _db, by| (ix(gmsol_treasury::ID, ta::InitializeTreasuryVaultConfig { authority: by, store: w.store, config: tconfig(w), treasury_vault_config: tvc(w, 4), store_program: w.pid, system_program: sys() }, ti::InitializeTreasuryVaultConfig { index: 4 }), vec![by]));
    p!("treasury:set_treasury_vault_config", Role("TREASURY_ADMIN"), |w, _db, by| (ix(gmsol_treasury::ID, ta::SetTreasuryVaultConfig { authority: by, store: w.store, config: tconfig(w), treasury_vault_config: tvc(w, 0), store_program: w.pid }, ti::SetTreasuryVaultConfig {}), vec![by]));
    p!("treasury:transfer_receiver", Role("TREASURY_OWNER"), |w, _db, by| {
        let receiver = Pubkey::find_program_address(&[gmsol_treasury::constants::RECEIVER_SEED, tconfig(w).as_ref()], &gmsol_treasury::ID).0;
        (ix(gmsol_treasury::ID, ta::TransferReceiver { authority: by, store: w.store, config: tconfig(w), receiver, next_receiver: w.stranger, store_program: w.pid, system_program: sys() }, ti::TransferReceiver {}), vec![by])
    });
    // ---- liquidity-provider program administration (world: the program initialised by the store admin)
    fn lp_gs() -> Pubkey {
        Pubkey::find_program_address(&[gmsol_liquidity_provider::GLOBAL_STATE_SEED], &gmsol_liquidity_provider::ID).0
    }
    use gmsol_liquidity_provider::{accounts as la, instruction as li};
    p!("lp:set_claim_enabled", Admin, |_w, _db, by| (ix(gmsol_liquidity_provider::ID, la::SetClaimEnabled { global_state: lp_gs(), authority: by }, li::SetClaimEnabled { enabled: true }), vec![by]));
    p!("lp:update_min_stake_value", Admin, |_w, _db, by| (ix(gmsol_liquidity_provider::ID, la::UpdateMinStakeValue { global_state: lp_gs(), authority: by }, li::UpdateMinStakeValue { new_min_stake_value: 7 }), vec![by]));
    p!("lp:set_pricing_staleness", Admin, |_w, _db, by| (ix(gmsol_liquidity_provider::ID, la::SetPricingStaleness { global_state: lp_gs(), authority: by }, li::SetPricingStaleness { staleness_seconds: 9 }), vec![by]));
    p!("lp:transfer_authority", Admin, |w, _db, by| (ix(gmsol_liquidity_provider::ID, la::TransferAuthority { global_state: lp_gs(), authority: by }, li::TransferAuthority { new_authority: w.stranger }), vec![by]));
    p!("lp:create_lp_token_controller", Admin, |w, _db, by| {
        let controller = Pubkey::find_program_address(&[gmsol_liquidity_provider::LP_TOKEN_CONTROLLER_SEED, lp_gs().as_ref(), w.m2.market_token.as_ref(), &3u64.to_le_bytes()], &gmsol_liquidity_provider::ID).0;
        (ix(gmsol_liquidity_provider::ID, la::CreateLpTokenController { global_state: lp_gs(), controller, authority: by, system_program: sys() }, li::CreateLpTokenController { lp_token_mint: w.m2.market_token, controller_index: 3 }), vec![by])
    });
    v
}

// ---- authority / receiver hand-over histories (E3): who may nominate and who may accept, after any history

#[derive(Clone, Debug)]
enum HAct {
    TransferAuthority(usize, usize),
    AcceptAuthority(usize),
    TransferReceiver(usize, usize),
    AcceptReceiver(usize),
}

#[derive(Clone)]
struct HSt {
    db: Db,
    /// reference: authority, nominated authority, receiver, nominated receiver (indices into `actors`)
    r: [usize; 4],
}

struct Handover {
    w: W,
    actors: [Pubkey; 3],
    acts: Vec<HAct>,
}

impl Handover {
    /// (authority, next_authority, receiver, next_receiver) as stored
    fn stored(&self, db: &Db) -> [Pubkey; 4] {
        let acc = db.get(&self.w.store);
        let s: Store = db.pod(&self.w.store).expect("store");
        let base = &s as *const Store as usize;
        let off_auth = &s.authority as *const Pubkey as usize - base;
        let off_map = &s.token_map as *const Pubkey as usize - base;
        assert_eq!(off_map, off_auth + 64, "Store layout: authority, next_authority, token_map are consecutive");
        let next = Pubkey::new_from_array(acc.data[8 + off_auth + 32..8 + off_auth + 64].try_into().unwrap());
        [s.authority, next, s.receiver(), s.next_receiver()]
    }
}

impl Machine for Handover {
    type State = HSt;
    type Action = HAct;
    fn actions(&self) -> &[HAct] {
        &self.acts
    }
    fn key(&self, s: &HSt) -> u128 {
        use std::hash::Hasher;
        let mut h = std::collections::hash_map::DefaultHasher::new();
        s.db.hash_into(&mut h);
        ((h.finish() as u128) << 64) | (s.r[0] * 1000 + s.r[1] * 100 + s.r[2] * 10 + s.r[3]) as u128
    }
    fn step(&self, s: &HSt, a: &HAct, out: &mut StepOut) -> HSt {
        use gmsol_store::{accounts as ac, instruction as i};
        W::set_time(1_000);
        crate::svm::set_last_restart_slot(0);
        let w = &self.w;
        let mut n = s.clone();
        let who = |k: usize| self.actors[k];
        let (ixn, by, want_ok) = match *a {
            HAct::TransferAuthority(by, to) => (ix(w.pid, ac::TransferStoreAuthority { authority: who(by), store: w.store, next_authority: who(to) }, i::TransferStoreAuthority {}), by, s.r[0] == by && s.r[1] != to),
            HAct::AcceptAuthority(by) => (ix(w.pid, ac::AcceptStoreAuthority { next_authority: who(by), store: w.store }, i::AcceptStoreAuthority {}), by, s.r[1] == by && s.r[0] != s.r[1]),
            HAct::TransferReceiver(by, to) => (ix(w.pid, ac::TransferReceiver { authority: who(by), store: w.store, next_receiver: who(to) }, i::TransferReceiver {}), by, s.r[2] == by && s.r[3] != to),
            HAct::AcceptReceiver(by) => (ix(w.pid, ac::AcceptReceiver { next_receiver: who(by), store: w.store }, i::AcceptReceiver {}), by, s.r[3] == by && s.r[2] != s.r[3]),
        };
        // is the signer entitled at all (holds the office / the nomination)? a refusal of an entitled signer for a
        // state reason (same nominee again, nothing to accept) is not an authorisation matter
        let entitled = match *a {
            HAct::TransferAuthority(by, _) => s.r[0] == by,
            HAct::AcceptAuthority(by) => s.r[1] == by,
            HAct::TransferReceiver(by, _) => s.r[2] == by,
            HAct::AcceptReceiver(by) => s.r[3] == by,
        };
        let before = self.key(&n) >> 64;
        let r = process(&mut n.db, &ixn, &[who(by)]);
        if want_ok {
            match *a {
                HAct::TransferAuthority(_, to) => n.r[1] = to,
                HAct::AcceptAuthority(_) => n.r[0] = n.r[1],
                HAct::TransferReceiver(_, to) => n.r[3] = to,
                HAct::AcceptReceiver(_) => n.r[2] = n.r[3],
            }
        }
        match &r {
            Ok(()) => {
                out.label = "ok";
                if !entitled {
                    out.fail("C19/handover_unauthorised_signer_accepted", format!("{a:?} succeeded although actor {by} holds neither the office nor the nomination (reference before: authority {}, nominated {}, receiver {}, nominated receiver {})", s.r[0], s.r[1], s.r[2], s.r[3]));
                } else if !want_ok {
                    // an entitled signer repeating itself (same nominee again, nothing to accept): not an authorisation matter
                    out.count("entitled_signer_succeeded_where_the_reference_refuses", 1);
                }
            }
            Err(e) => {
                out.label = if entitled { "refused_entitled" } else { "rejected" };
                if e.is_panic() {
                    out.fail("C19/panic", format!("{a:?}: {e:?}"));
                }
                if want_ok {
                    // availability, not authorisation: recorded only
                    out.count("entitled_signer_rejected", 1);
                }
                if (self.key(&n) >> 64) != before {
                    out.fail("C19/rejected_instruction_changed_accounts", format!("{a:?}"));
                }
            }
        }
        let stored = self.stored(&n.db);
        let want = [who(n.r[0]), who(n.r[1]), who(n.r[2]), who(n.r[3])];
        if stored != want {
            // recorded only: what matters for the property is who gets accepted afterwards, judged against the reference offices
            // (the office and nomination a signer was given by the instructions so far)
            out.count("stored_offices_differ_from_the_reference", 1);
        }
        n
    }
}

fn handover(rep: &mut Report, cli: &Cli, db: &Db, w: &W) {
    let actors = [w.admin, w.user, w.stranger];
    let mut acts = vec![];
    for by in 0..3 {
        for to in 0..3 {
            acts.push(HAct::TransferAuthority(by, to));
            acts.push(HAct::TransferReceiver(by, to));
        }
        acts.push(HAct::AcceptAuthority(by));
        acts.push(HAct::AcceptReceiver(by));
    }
    let m = Handover { w: w.clone(), actors, acts };
    let stored = m.stored(db);
    let pos = |k: &Pubkey| actors.iter().position(|x| x == k);
    let (Some(a0), Some(a1), Some(r0), Some(r1)) = (pos(&stored[0]), pos(&stored[1]), pos(&stored[2]), pos(&stored[3])) else {
        rep.machinery("handover: the world's authority/receiver are not among the actors");
        return;
    };
    let start = HSt { db: db.clone(), r: [a0, a1, r0, r1] };
    if let Some(rv) = &cli.replay {
        e2::replay_into(rep, &m, &[start], rv);
        return;
    }
    let depth = if cli.tier.thorough() { 12 } else { 7 };
    let o = e2::explore(rep, "authority / receiver hand-over histories", &m, vec![start], &e2::Config { depth, max_states: 1_000_000 }, json!({"section": "handover"}));
    for needed in ["TransferAuthority:ok", "TransferAuthority:rejected", "AcceptAuthority:ok", "AcceptAuthority:rejected", "TransferReceiver:ok", "TransferReceiver:rejected", "AcceptReceiver:ok", "AcceptReceiver:rejected"] {
        if o.histogram.get(needed).copied().unwrap_or(0) == 0 {
            rep.machinery(format!("vacuous exploration: outcome {needed} never occurred"));
        }
    }
}

pub fn run(cli: &Cli) -> Report {
    let mut rep = Report::new(cli, "exploration");
    rep.rule("E1 over the instruction x signer matrix through the real entrypoints: every probed privileged instruction (list in `instructions_probed`) is invoked with valid accounts by the entitled signer (must pass authorisation: success or a non-authorisation error) and by a stranger, the store admin, and the single-role holder of each of the nine other roles (must be rejected; the error code is recorded); the offices that move (store authority and fee receiver, each by nominate-then-accept) are explored as histories: E3 breadth-first over transfer_store_authority / accept_store_authority / transfer_receiver / accept_receiver by three actors to a fixpoint, where a signer is entitled iff it holds the office (to nominate) or the nomination (to accept) in the reference (the offices as the accepted instructions so far assigned them); an accepted signer that is not entitled is a violation, disagreements of the stored offices with the reference are counted; execute_deposit / execute_withdrawal / close by non-owners are covered by C23, market config updates by C20, the timelock instructions by C36; non-trivial = a rejection of an unauthorised signer was observed");
    rep.assume("svm-lite commits nothing for a failed instruction (transaction atomicity, self-tested), hence 'leaves all accounts unchanged'; instructions not listed in `instructions_probed` (GLV actions and shifts, virtual inventory, ADL, the remaining treasury instructions and competition administration) are outside the claim");
    if let Some(rv) = &cli.replay {
        if rv.get("path").is_some() {
            let (db, w) = world::build();
            handover(&mut rep, cli, &db, &w);
            return rep;
        }
        rep.sample(json!({"note": "matrix case: re-run the quick tier", "case": rv}));
        rep.evaluations = 1;
        return rep;
    }
    let (mut db, w) = world::build();
    handover(&mut rep, cli, &db, &w);
    // single-role holders
    let mut store: Store = db.pod(&w.store).expect("store");
    for role in ROLES {
        if store.role().role_index(role).ok().flatten().is_none() {
            store.enable_role(role).expect("enable role");
        }
        store.grant(&holder(role), role).expect("grant");
        db.set(holder(role), Acc::wallet(100_000_000_000));
    }
    db.set_pod(&w.store, &store);
    // GT configuration instructions need an initialised GT state (initialize_gt itself needs the opposite)
    let db_gt = {
        let mut d = db.clone();
        let mut s: Store = d.pod(&w.store).expect("store");
        W::set_time(1_000);
        gmsol_store::verif::gt_init(gmsol_store::verif::gt_mut(&mut s), 0, 100, 101, 10, &[]).expect("gt init");
        d.set_pod(&w.store, &s);
        d
    };
    // position orders: an open position, a pending increase and a pending decrease order, claimable accounts for the current window
    let db_orders = {
        let mut d = db.clone();
        W::set_time(1_000);
        let side = Side { is_long: true, collateral_long: false };
        let n = [0x50u8; 32];
        w.create_deposit(&mut d, &w.m1, w.user2, n, 400_000_000, 5_000_000_000, 0, w.user2).expect("seed create");
        w.execute_deposit(&mut d, &w.m1, w.user2, n, w.keeper, true).expect("seed execute");
        w.prepare_user(&mut d, w.user).expect("prepare_user");
        w.prepare_event_buffer(&mut d, w.keeper, 0).expect("event buffer");
        w.prepare_position(&mut d, &w.m1, w.user, side).expect("prepare_position");
        let unit = 10u128.pow(20);
        w.create_increase(&mut d, &w.m1, w.user, [0x51; 32], side, 100_000_000, 300 * unit).expect("create increase");
        w.execute_increase(&mut d, &w.m1, w.user, [0x51; 32], side, w.keeper, true).expect("execute increase");
        w.create_increase(&mut d, &w.m1, w.user, [0x52; 32], side, 10_000_000, 30 * unit).expect("create increase 2");
        w.create_decrease(&mut d, &w.m1, w.user, [0x53; 32], side, 0, 100 * unit).expect("create decrease");
        let holding = *d.pod::<Store>(&w.store).expect("store").holding();
        for (mint, owner) in [(w.a, w.user), (w.b, w.user), (w.a, holding)] {
            w.use_claimable(&mut d, mint, owner, 1_000, w.keeper).expect("use_claimable");
        }
        d
    };
    let db_glv = {
        let mut d = db.clone();
        crate::glvchk::register_token_2022(&mut d);
        W::set_time(1_000);
        let i = crate::glvchk::initialize_glv_ix(&w, 0, &[&w.m1, &w.m2], w.keeper);
        process(&mut d, &i, &[w.keeper]).expect("initialize_glv");
        d
    };
    let db_treasury = {
        let mut d = db.clone();
        crate::svm::register(gmsol_treasury::ID, gmsol_treasury::entry, &mut d);
        let (config, cbump) = Pubkey::find_program_address(&[gmsol_treasury::states::Config::SEED, w.store.as_ref()], &gmsol_treasury::ID);
        let (receiver, rbump) = Pubkey::find_program_address(&[gmsol_treasury::constants::RECEIVER_SEED, config.as_ref()], &gmsol_treasury::ID);
        // the store's fee receiver nominates the treasury's receiver PDA, the treasury's initialize_config accepts
        let _ = (cbump, rbump);
        process(&mut d, &ix(w.pid, gmsol_store::accounts::TransferReceiver { authority: w.admin, store: w.store, next_receiver: receiver }, gmsol_store::instruction::TransferReceiver {}), &[w.admin]).expect("transfer_receiver");
        process(&mut d, &ix(gmsol_treasury::ID, gmsol_treasury::accounts::InitializeConfig { payer: w.admin, store: w.store, config, receiver, store_program: w.pid, system_program: sys() }, gmsol_treasury::instruction::InitializeConfig {}), &[w.admin]).expect("treasury initialize_config");
        let (tvc, tbump) = Pubkey::find_program_address(&[gmsol_treasury::states::TreasuryVaultConfig::SEED, config.as_ref(), &0u16.to_le_bytes()], &gmsol_treasury::ID);
        let mut t: gmsol_treasury::states::TreasuryVaultConfig = bytemuck::Zeroable::zeroed();
        gmsol_treasury::verif::treasury_vault_config_init(&mut t, tbump, 0, &config);
        d.set(tvc, Acc::new(5_000_000, gmsol_treasury::ID, world::zc(&t)));
        d
    };
    let db_lp = {
        let mut d = db.clone();
        crate::svm::register(gmsol_liquidity_provider::ID, gmsol_liquidity_provider::entry, &mut d);
        let gs = Pubkey::find_program_address(&[gmsol_liquidity_provider::GLOBAL_STATE_SEED], &gmsol_liquidity_provider::ID).0;
        process(&mut d, &ix(gmsol_liquidity_provider::ID, gmsol_liquidity_provider::accounts::Initialize { global_state: gs, authority: w.admin, system_program: sys() }, gmsol_liquidity_provider::instruction::Initialize { min_stake_value: 1, initial_apy: 1 }), &[w.admin]).expect("lp initialize");
        d
    };
    // liquidity actions: pending deposit, withdrawal and shift of `user`, feeds published after their creation
    let db_actions = {
        let mut d = db.clone();
        W::set_time(1_000);
        let seed = [9u8; 32];
        for (m, who) in [(w.m1.clone(), w.user2), (w.m2.clone(), w.user2), (w.m1.clone(), w.user)] {
            w.create_deposit(&mut d, &m, who, seed, 5_000_000, 60_000_000, 0, who).expect("seed create");
            w.execute_deposit(&mut d, &m, who, seed, w.keeper, true).expect("seed execute");
            w.close_deposit(&mut d, &m, who, seed, who).expect("seed close");
        }
        let gm = world::token_amount(&d, &world::ata(&w.user, &w.m1.market_token));
        w.create_deposit(&mut d, &w.m1, w.user, [0x61; 32], 1_000_000, 12_000_000, 0, w.user).expect("create deposit");
        w.create_withdrawal(&mut d, &w.m1, w.user, [0x62; 32], gm / 5, 0, 0, w.user).expect("create withdrawal");
        w.create_shift(&mut d, &w.m1, &w.m2, w.user, [0x63; 32], gm / 7, 0).expect("create shift");
        w.set_feeds(&mut d, 1_000, (12_0000_0000, 12_0000_0000), (1_0000_0000, 1_0000_0000));
        d
    };
    let ps = probes();
    let names: Vec<&str> = ps.iter().map(|p| p.name).collect();
    rep.extra.insert("instructions_probed".into(), json!(names));
    let idx: Vec<usize> = (0..ps.len()).collect();
    e1::run(&mut rep, "instruction x signer", &idx, |&pi, sink| {
        W::set_time(1_000);
        crate::svm::set_last_restart_slot(0);
        let p = &ps[pi];
        let db = if p.name.starts_with("gt_") || p.name.starts_with("update_gt") { &db_gt } else if p.name.starts_with("order:") { &db_orders } else if p.name.starts_with("action:") { &db_actions } else if p.name.starts_with("glv:") { &db_glv } else if p.name.starts_with("lp:") { &db_lp } else if p.name.starts_with("treasury:") { &db_treasury } else { &db };
        let entitled: Vec<Pubkey> = match &p.need {
            Need::Admin | Need::Receiver => vec![w.admin],
            Need::AdminOrRestartAdminAfterRestart => vec![w.admin, holder("RESTART_ADMIN")],
            Need::Role(r) => vec![holder(r)],
            Need::AnyRole(rs) => rs.iter().map(|r| holder(r)).collect(),
        };
        // 1. the entitled signer passes authorisation
        for by in &entitled {
            let mut d = db.clone();
            let (i, signers) = (p.build)(&w, &mut d, *by);
            let r = process(&mut d, &i, &signers);
            sink.case(false);
            match &r {
                Ok(()) => sink.count("entitled_signer_succeeded"),
                Err(e) if is_auth_error(e) => sink.fail("C19/entitled_signer_rejected", format!("{}: the entitled signer was rejected with {e:?}", p.name), json!({"instruction": p.name})),
                // a program-level error other than an authorisation error means the access check was passed
                Err(e) if e.code().map(|c| c >= 6000).unwrap_or(false) => {
                    sink.count("entitled_signer_passed_authorisation_then_failed");
                    sink.count(&format!("passed_authorisation_then_failed:{}:{}", p.name, e.code().unwrap_or(0)));
                }
                Err(e) => {
                    sink.count("entitled_signer_failed_for_another_reason");
                    sink.fail(&format!("C19/probe_not_valid/{}", p.name), format!("{}: the probe does not reach a successful execution with the entitled signer: {e:?}", p.name), json!({"instruction": p.name}));
                }
            }
        }
        // 2. everybody else is rejected
        let mut others: Vec<(String, Pubkey)> = vec![("stranger".into(), w.stranger)];
        if !matches!(p.need, Need::Admin | Need::Receiver | Need::AdminOrRestartAdminAfterRestart) {
            others.push(("admin".into(), w.admin));
        }
        for role in ROLES {
            let h = holder(role);
            if !entitled.contains(&h) {
                others.push((format!("holder of {role}"), h));
            }
        }
        for (label, by) in others {
            let mut d = db.clone();
            let (i, signers) = (p.build)(&w, &mut d, by);
            let before = {
                use std::hash::Hasher;
                let mut h = std::collections::hash_map::DefaultHasher::new();
                d.hash_into(&mut h);
                h.finish()
            };
            let r = process(&mut d, &i, &signers);
            let after = {
                use std::hash::Hasher;
                let mut h = std::collections::hash_map::DefaultHasher::new();
                d.hash_into(&mut h);
                h.finish()
            };
            match r {
                Ok(()) => {
                    sink.case(false);
                    sink.fail("C19/unauthorised_signer_accepted", format!("{} executed by {label} succeeded", p.name), json!({"instruction": p.name, "signer": label}));
                }
                Err(e) => {
                    sink.case(true);
                    sink.count(if is_auth_error(&e) { "rejected_with_authorisation_error" } else { "rejected_with_another_error" });
                    if e.is_panic() {
                        sink.fail("C19/panic", format!("{} by {label} panicked: {e:?}", p.name), json!({"instruction": p.name, "signer": label}));
                    }
                    if before != after {
                        sink.fail("C19/rejected_instruction_changed_accounts", format!("{} by {label}", p.name), json!({"instruction": p.name, "signer": label}));
                    }
                }
            }
        }
    });
    rep
}
