//! C32, settlement clause (E3): the real `settle_builder_fee` instruction over recorded amounts x escrow
//! balances, repeated, with tokens arriving in the escrow between settlements, by the right and a wrong builder.
use anchor_lang::prelude::*;
use gmsol_store::states::Order;
use mc_core::{
    e2::{self, Machine, StepOut},
    json, Cli, Report,
};

use crate::orders::Side;
use crate::svm::{process, Db};
use crate::world::{self, ata, ix, token_acc, token_amount, W};

#[derive(Clone, Copy, Debug)]
enum Act {
    /// settle with the recorded builder's user account
    Settle,
    /// settle presenting another (initialised) user as the builder
    SettleWrongBuilder,
    /// settle without builder accounts
    SettleNoBuilder,
    /// tokens arrive in the order's final-output escrow
    Fund(u64),
    /// a further fee is recorded on the order (as an execution would)
    Record(u64),
}

#[derive(Clone)]
struct St {
    db: Db,
    /// reference: recorded amount, escrow balance, paid to the builder so far, total ever recorded
    r: (u64, u64, u64, u128),
}

struct Settle {
    w: W,
    acts: Vec<Act>,
    order: Pubkey,
    token: Pubkey,
    escrow: Pubkey,
    builder_user: Pubkey,
    other_user: Pubkey,
}

impl Settle {
    fn recorded(&self, db: &Db) -> u64 {
        db.pod::<Order>(&self.order).map(|o| o.builder_fee_amount()).unwrap_or(u64::MAX)
    }
    fn settle_ix(&self, builder_user: Option<Pubkey>) -> solana_program::instruction::Instruction {
        let w = &self.w;
        let accounts = gmsol_store::accounts::SettleBuilderFee {
            store: w.store, order: self.order, final_output_token: self.token, escrow: self.escrow,
            builder_user, claim_vault: builder_user.map(|b| ata(&b, &self.token)), token_program: spl_token::ID,
            event_authority: w.event_authority, program: w.pid,
        };
        ix(w.pid, accounts, gmsol_store::instruction::SettleBuilderFee {})
    }
}

impl Machine for Settle {
    type State = St;
    type Action = Act;
    fn actions(&self) -> &[Act] {
        &self.acts
    }
    fn key(&self, s: &St) -> u128 {
        use std::hash::Hasher;
        let mut h = std::collections::hash_map::DefaultHasher::new();
        s.db.hash_into(&mut h);
        mc_core::hash128(&(h.finish(), s.r))
    }
    fn step(&self, s: &St, a: &Act, out: &mut StepOut) -> St {
        W::set_time(1_000);
        let mut n = s.clone();
        let vault = ata(&self.builder_user, &self.token);
        let other_vault = ata(&self.other_user, &self.token);
        match *a {
            Act::Fund(k) => {
                let e = token_amount(&n.db, &self.escrow);
                n.db.set(self.escrow, token_acc(self.token, self.order, e + k));
                n.r.1 += k;
                out.label = "env";
                return n;
            }
            Act::Record(k) => {
                let mut o: Order = n.db.pod(&self.order).expect("order");
                if gmsol_store::verif::order_record_builder_fee(&mut o, &self.builder_user, k).is_ok() {
                    n.db.set_pod(&self.order, &o);
                    n.r.0 += k;
                    n.r.3 += k as u128;
                }
                out.label = "env";
                return n;
            }
            _ => {}
        }
        let (rec0, esc0, paid0, _) = s.r;
        let by = match a {
            Act::Settle => Some(self.builder_user),
            Act::SettleWrongBuilder => Some(self.other_user),
            _ => None,
        };
        let res = process(&mut n.db, &self.settle_ix(by), &[self.w.stranger]);
        out.label = if res.is_ok() { "ok" } else { "err" };
        if let Err(e) = &res {
            if e.is_panic() {
                out.fail("C32/panic", format!("{a:?}: {e:?}"));
            }
        }
        let (rec1, esc1) = (self.recorded(&n.db), token_amount(&n.db, &self.escrow));
        let (paid1, other1) = (token_amount(&n.db, &vault), token_amount(&n.db, &other_vault));
        if other1 != 0 {
            out.fail("C32/settlement_paid_someone_else", format!("{a:?}: {other1} tokens reached the vault of a user that is not the order's builder"));
        }
        match (&res, a) {
            (Ok(()), Act::Settle) => {
                let moved = esc0 - esc1;
                if paid1 != paid0 + moved {
                    out.fail("C32/settlement_paid_someone_else", format!("{a:?}: {moved} left the escrow, the builder's vault went {paid0} -> {paid1}"));
                }
                if moved > esc0 {
                    out.fail("C32/settlement_exceeds_escrow", format!("{a:?}: escrow {esc0}, transferred {moved}"));
                }
                out.count(if moved == rec0.min(esc0) { "settled_exactly_min_of_record_and_escrow" } else { "settled_less_than_min_of_record_and_escrow" }, 1);
                if moved > rec0 {
                    out.fail("C32/settlement_exceeds_recorded_amount", format!("{a:?}: recorded {rec0}, transferred {moved}"));
                }
                if rec1 != 0 {
                    out.fail("C32/record_not_zeroed_after_settlement", format!("{a:?}: recorded {rec0}, escrow {esc0}: the settlement succeeded and the order still records {rec1}"));
                }
                if rec0 != 0 {
                    out.count("settlements_of_a_non_zero_record", 1);
                } else {
                    out.count("repeated_settlement_was_a_no_op", 1);
                }
                n.r = (0, esc1, paid1, s.r.3);
            }
            (Ok(()), _) => {
                // without the right builder accounts only the no-op (nothing recorded) may succeed
                if rec0 != 0 {
                    out.fail("C32/settled_without_the_recorded_builder", format!("{a:?} succeeded with {rec0} recorded"));
                }
                if (rec1, esc1, paid1) != (rec0, esc0, paid0) {
                    out.fail("C32/no_op_settlement_changed_state", format!("{a:?}: ({rec0},{esc0},{paid0}) -> ({rec1},{esc1},{paid1})"));
                }
            }
            (Err(_), _) => {
                if matches!(a, Act::Settle) {
                    out.count("settlement_by_the_recorded_builder_rejected", 1);
                }
            }
        }
        // over the whole history the builder never receives more than was ever recorded
        if paid1 as u128 > s.r.3 {
            out.fail("C32/builder_paid_more_than_recorded_in_total", format!("{a:?}: paid {paid1}, ever recorded {}", s.r.3));
        }
        n
    }
}

pub fn run(rep: &mut Report, cli: &Cli) {
    let th = cli.tier.thorough();
    let (mut db, w) = world::build();
    W::set_time(1_000);
    let seed = [9u8; 32];
    w.create_deposit(&mut db, &w.m1, w.user2, seed, 400_000_000, 5_000_000_000, 0, w.user2).expect("seed create");
    w.execute_deposit(&mut db, &w.m1, w.user2, seed, w.keeper, true).expect("seed execute");
    for u in [w.user, w.user2, w.stranger] {
        w.prepare_user(&mut db, u).expect("prepare_user");
    }
    w.prepare_event_buffer(&mut db, w.keeper, 0).expect("event buffer");
    // a real position and a real pending decrease order of `user` (its final-output escrow is what fees are paid from)
    let side = Side { is_long: true, collateral_long: false };
    let m = w.m1.clone();
    w.prepare_position(&mut db, &m, w.user, side).expect("prepare position");
    w.create_increase(&mut db, &m, w.user, [1; 32], side, 100_000_000, 300 * 10u128.pow(20)).expect("create increase");
    w.execute_increase(&mut db, &m, w.user, [1; 32], side, w.keeper, true).expect("execute increase");
    w.create_decrease(&mut db, &m, w.user, [2; 32], side, 0, 100 * 10u128.pow(20)).expect("create decrease");
    let order = w.order_pda(&w.user, &[2; 32]);
    let token = m.short;
    let escrow = ata(&order, &token);
    let (builder_user, other_user) = (w.user_pda(&w.user2), w.user_pda(&w.stranger));
    for b in [builder_user, other_user] {
        db.set(ata(&b, &token), token_acc(token, b, 0));
    }
    let mut acts = vec![Act::Settle, Act::SettleWrongBuilder, Act::SettleNoBuilder, Act::Fund(700), Act::Fund(1), Act::Record(500)];
    if th {
        acts.extend([Act::Record(1), Act::Fund(499), Act::Record(u64::MAX / 2)]);
    }
    let sm = Settle { w, acts, order, token, escrow, builder_user, other_user };
    // start states: recorded amount x escrow balance
    let mut starts = vec![];
    for rec in [0u64, 1, 500, 10_000] {
        for esc in [0u64, 1, 499, 500, 20_000] {
            let mut d = db.clone();
            d.set(escrow, token_acc(token, order, esc));
            if rec != 0 {
                let mut o: Order = d.pod(&order).expect("order");
                gmsol_store::verif::order_record_builder_fee(&mut o, &builder_user, rec).expect("record");
                d.set_pod(&order, &o);
            }
            starts.push(St { db: d, r: (rec, esc, 0, rec as u128) });
        }
    }
    if let Some(rv) = &cli.replay {
        e2::replay_into(rep, &sm, &starts, rv);
        return;
    }
    let depth = if th { 5 } else { 4 };
    let o = e2::explore(rep, "settle_builder_fee histories", &sm, starts, &e2::Config { depth, max_states: 3_000_000 }, json!({"machine": "settlement"}));
    for k in ["Settle:ok", "SettleWrongBuilder:err", "SettleNoBuilder:ok", "SettleNoBuilder:err"] {
        if o.histogram.get(k).copied().unwrap_or(0) == 0 && rep.violations_total() == 0 {
            rep.machinery(format!("vacuous settlement exploration: outcome {k} never occurred"));
        }
    }
    for k in ["settlements_of_a_non_zero_record", "repeated_settlement_was_a_no_op"] {
        if o.counters.get(k).copied().unwrap_or(0) == 0 && rep.violations_total() == 0 {
            rep.machinery(format!("vacuous settlement exploration: {k} never occurred"));
        }
    }
}
