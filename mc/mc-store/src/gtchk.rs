//! C30 (GT balances / mint cost / ranks / exchange windows, E2), C31 (order fee discounts, E1,
//! program vs SDK on identical bytes) and the helper part of C32 (builder fees, E1).
use anchor_lang::prelude::*;
use gmsol_store::ops::order::verif as bf;
use gmsol_store::states::gt::{GtExchange, GtExchangeVault};
use gmsol_store::states::{Store, UserHeader};
use gmsol_store::verif as hv;
use mc_core::{
    big::*,
    e1,
    e2::{self, Machine, StepOut},
    json, Cli, Report,
};

use crate::svm;

const UNIT: u128 = gmsol_store::constants::MARKET_USD_UNIT;
const WINDOW: i64 = 100;
const STEP: u64 = 10;
const COST0: u128 = UNIT / 20;
const GROW: u128 = UNIT + UNIT / 100;

// ------------------------------------------------------------------------------------------ C30

#[derive(Clone, Copy, Debug)]
enum GAct {
    Mint(usize, u64),
    Burn(usize, u64),
    Request(usize, u64),
    Confirm,
    NewVault,
    Adv(i64),
}

#[derive(Clone, PartialEq, Eq, Hash, Debug)]
struct GRef {
    balances: [u64; 3],
    user_minted: [u64; 3],
    supply: u64,
    total_minted: u64,
    gt_vault: u64,
    vault_amount: u64,
    vault_ts: i64,
    vault_confirmed: bool,
    exchange: [u64; 3],
}

#[derive(Clone)]
struct GSt {
    store: Box<Store>,
    users: [Box<UserHeader>; 3],
    vault: Box<GtExchangeVault>,
    exchanges: [Box<GtExchange>; 3],
    now: i64,
    r: GRef,
}

struct Gt {
    acts: Vec<GAct>,
    ranks: Vec<u64>,
}

fn ref_cost(total_minted: u64) -> Option<u128> {
    let mut c = COST0;
    for _ in 0..total_minted / STEP {
        c = fits(&(bu(c) * bu(GROW) / bu(UNIT)), 128)?;
    }
    Some(c)
}

impl Gt {
    fn start(&self) -> GSt {
        svm::install();
        svm::set_clock(1_000, 10);
        let mut store: Box<Store> = Box::new(bytemuck::Zeroable::zeroed());
        let skey = svm::addr("gt-store");
        store.init(svm::addr("gt-auth"), "", 255, svm::addr("gt-r"), svm::addr("gt-h")).expect("store init");
        hv::gt_init(hv::gt_mut(&mut store), 0, COST0, GROW, STEP, &self.ranks).expect("gt init");
        let mk_user = |i: usize| {
            let mut u: Box<UserHeader> = Box::new(bytemuck::Zeroable::zeroed());
            hv::user_init(&mut u, &skey, &svm::addr(&format!("gt-user-{i}")), 1).expect("user init");
            u
        };
        let mut vault: Box<GtExchangeVault> = Box::new(bytemuck::Zeroable::zeroed());
        hv::gt_exchange_vault_init(&mut vault, 1, &skey, WINDOW as u32).expect("vault init");
        let mk_ex = |i: usize| {
            let mut e: Box<GtExchange> = Box::new(bytemuck::Zeroable::zeroed());
            hv::gt_exchange_init(&mut e, 1, &svm::addr(&format!("gt-user-{i}")), &skey, &svm::addr("gt-vault")).expect("exchange init");
            e
        };
        GSt {
            store,
            users: [mk_user(0), mk_user(1), mk_user(2)],
            vault,
            exchanges: [mk_ex(0), mk_ex(1), mk_ex(2)],
            now: 1_000,
            r: GRef { balances: [0; 3], user_minted: [0; 3], supply: 0, total_minted: 0, gt_vault: 0, vault_amount: 0, vault_ts: 1_000, vault_confirmed: false, exchange: [0; 3] },
        }
    }

    fn invariants(&self, s: &GSt, out: &mut StepOut) {
        let gt = s.store.gt();
        let sum: u128 = s.users.iter().map(|u| u.gt().amount() as u128).sum();
        if gt.supply() as u128 != sum {
            out.fail("C30/supply_differs_from_sum_of_balances", format!("supply {} vs balances {:?}", gt.supply(), s.users.iter().map(|u| u.gt().amount()).collect::<Vec<_>>()));
        }
        if gt.supply() != s.r.supply || gt.total_minted() != s.r.total_minted || gt.gt_vault() != s.r.gt_vault {
            out.fail("C30/global_state_differs_from_reference", format!("supply {} minted {} vault {} vs {:?}", gt.supply(), gt.total_minted(), gt.gt_vault(), s.r));
        }
        for (i, u) in s.users.iter().enumerate() {
            let want = self.ranks.iter().filter(|t| **t <= u.gt().amount()).count() as u8;
            if u.gt().rank() != want {
                out.fail("C30/rank_differs_from_thresholds", format!("user {i}: balance {} rank {} expected {want} (thresholds {:?})", u.gt().amount(), u.gt().rank(), self.ranks));
            }
            if u.gt().amount() != s.r.balances[i] {
                out.fail("C30/balance_differs_from_reference", format!("user {i}: {} vs {}", u.gt().amount(), s.r.balances[i]));
            }
            if s.exchanges[i].amount() != s.r.exchange[i] {
                out.fail("C30/exchange_differs_from_reference", format!("user {i}: {} vs {}", s.exchanges[i].amount(), s.r.exchange[i]));
            }
        }
        if s.vault.amount() != s.r.vault_amount || s.vault.is_confirmed() != s.r.vault_confirmed {
            out.fail("C30/vault_differs_from_reference", format!("vault {} confirmed {} vs {:?}", s.vault.amount(), s.vault.is_confirmed(), s.r));
        }
        // the minting cost is a function of the total minted only
        match ref_cost(gt.total_minted()) {
            Some(c) if c == gt.minting_cost() => {}
            other => out.fail("C30/minting_cost_depends_on_history", format!("total minted {}: cost {} reference {other:?}", gt.total_minted(), gt.minting_cost())),
        }
        // mint amount for a USD value: whole units at the current cost, remainder unminted
        for v in [0u128, 1, COST0 - 1, COST0, 1_000 * UNIT / 7, u64::MAX as u128 * COST0] {
            out.probe_cases += 1;
            if let Ok((minted, minted_value, cost)) = hv::gt_get_mint_amount(gt, v) {
                out.probe_nontrivial += 1;
                let c = gt.minting_cost();
                if cost != c || minted as u128 != v / c || minted_value != (v / c) * c || minted_value > v {
                    out.fail("C30/mint_amount_wrong", format!("get_mint_amount({v}) = ({minted},{minted_value},{cost}) at cost {c}"));
                }
            } else if v / gt.minting_cost() <= u64::MAX as u128 {
                out.fail("C30/mint_amount_wrong", format!("get_mint_amount({v}) failed at cost {}", gt.minting_cost()));
            }
        }
    }
}

impl Machine for Gt {
    type State = GSt;
    type Action = GAct;
    fn actions(&self) -> &[GAct] {
        &self.acts
    }
    fn key(&self, s: &GSt) -> u128 {
        // user/gt `last_minted_at` and the cumulative inverse cost factor depend on the clock: keep them in the key through the bytes
        mc_core::hash128(&(bytemuck::bytes_of(s.store.gt()), s.users.iter().map(|u| bytemuck::bytes_of(u.gt()).to_vec()).collect::<Vec<_>>(), bytemuck::bytes_of(&*s.vault), s.exchanges.iter().map(|e| e.amount()).collect::<Vec<_>>(), s.now, &s.r))
    }
    fn check_start(&self, s: &GSt, out: &mut StepOut) {
        self.invariants(s, out);
    }
    fn step(&self, s: &GSt, a: &GAct, out: &mut StepOut) -> GSt {
        let mut n = s.clone();
        svm::set_clock(s.now, 10);
        let widx = |t: i64| t / WINDOW;
        let (res, expect): (std::result::Result<std::result::Result<(), ()>, String>, bool) = match *a {
            GAct::Mint(u, amt) => {
                // rejected when the new total, or the minting cost at the new total, is not representable
                let ok = s.r.total_minted.checked_add(amt).and_then(ref_cost).is_some();
                let r = mc_core::catch(|| hv::gt_mint_to(hv::gt_mut(&mut n.store), &mut n.users[u], amt).map_err(|_| ()));
                if ok {
                    n.r.balances[u] += amt;
                    n.r.user_minted[u] += amt;
                    n.r.supply += amt;
                    n.r.total_minted += amt;
                }
                (r, ok)
            }
            GAct::Burn(u, amt) => {
                let ok = s.r.balances[u] >= amt;
                let r = mc_core::catch(|| hv::gt_burn_from(hv::gt_mut(&mut n.store), &mut n.users[u], amt).map_err(|_| ()));
                if ok {
                    n.r.balances[u] -= amt;
                    n.r.supply -= amt;
                }
                (r, ok)
            }
            GAct::Request(u, amt) => {
                let ok = s.r.balances[u] >= amt && !s.r.vault_confirmed && widx(s.now) == widx(s.r.vault_ts);
                let r = mc_core::catch(|| hv::gt_request_exchange(hv::gt_mut(&mut n.store), &mut n.users[u], &mut n.vault, &mut n.exchanges[u], amt).map_err(|_| ()));
                if ok {
                    n.r.balances[u] -= amt;
                    n.r.supply -= amt;
                    n.r.vault_amount += amt;
                    n.r.exchange[u] += amt;
                }
                (r, ok)
            }
            GAct::Confirm => {
                let ok = !s.r.vault_confirmed && widx(s.now) > widx(s.r.vault_ts);
                let r = mc_core::catch(|| hv::gt_confirm_exchange_vault(hv::gt_mut(&mut n.store), &mut n.vault).map(|_| ()).map_err(|_| ()));
                if ok {
                    n.r.vault_confirmed = true;
                    n.r.gt_vault += s.r.vault_amount;
                }
                (r, ok)
            }
            GAct::NewVault => {
                // environment: a fresh vault for the current window (only after the previous one is confirmed)
                if s.r.vault_confirmed {
                    let mut vault: Box<GtExchangeVault> = Box::new(bytemuck::Zeroable::zeroed());
                    hv::gt_exchange_vault_init(&mut vault, 1, &svm::addr("gt-store"), WINDOW as u32).expect("vault init");
                    n.vault = vault;
                    n.r.vault_amount = 0;
                    n.r.vault_ts = s.now;
                    n.r.vault_confirmed = false;
                }
                (Ok(Ok(())), true)
            }
            GAct::Adv(dt) => {
                n.now += dt;
                (Ok(Ok(())), true)
            }
        };
        match res {
            Err(p) => {
                out.label = "panic";
                out.fail("C30/panic", format!("{a:?}: {p}"));
                out.prune = true;
                return s.clone();
            }
            Ok(r) => {
                out.label = if r.is_ok() { "ok" } else { "err" };
                if r.is_ok() != expect {
                    out.fail(if r.is_ok() { "C30/invalid_operation_accepted" } else { "C30/valid_operation_rejected" }, format!("{a:?} at t={} returned {r:?}, reference {:?}", s.now, s.r));
                    out.prune = true;
                }
                if r.is_err() {
                    // on chain the transaction is rolled back
                    n = s.clone();
                }
            }
        }
        if n.store.gt().total_minted() < s.store.gt().total_minted() {
            out.fail("C30/total_minted_decreased", format!("{a:?}: {} -> {}", s.store.gt().total_minted(), n.store.gt().total_minted()));
        }
        self.invariants(&n, out);
        n
    }
}

pub fn run_c30(cli: &Cli) -> Report {
    let mut rep = Report::new(cli, "model_checking");
    rep.rule("E2: every sequence of mint / burn / exchange request / vault confirmation / new vault / clock advance over three users, on the real GtState, UserHeader, GtExchangeVault and GtExchange (visibility hooks, stubbed clock), for three rank tables (none, two thresholds, the maximum of 15); balances, supply, total minted, vault and exchange amounts are compared with a reference ledger, the minting cost with floor-iterated growth as a function of total minted only, ranks with the number of thresholds at or below the balance, get_mint_amount with whole units at the current cost, and window rules with floor(ts/window)");
    rep.assume("failed operations are rolled back by the harness (on chain: transaction atomicity)");
    let th = cli.tier.thorough();
    let mut acts = vec![
        GAct::Mint(0, 1), GAct::Mint(0, STEP - 1), GAct::Mint(1, STEP), GAct::Mint(2, 3 * STEP), GAct::Burn(0, 1), GAct::Burn(1, 5), GAct::Burn(2, 31),
        GAct::Request(0, 1), GAct::Request(1, 4), GAct::Confirm, GAct::NewVault, GAct::Adv(1), GAct::Adv(WINDOW),
    ];
    if th {
        acts.extend([GAct::Mint(1, 2), GAct::Burn(0, STEP), GAct::Request(2, 30), GAct::Adv(WINDOW - 1), GAct::Mint(0, u64::MAX)]);
    }
    let tables: Vec<Vec<u64>> = vec![vec![], vec![2, 5], (1..=15u64).map(|k| 2 * k).collect()];
    for (ti, ranks) in tables.into_iter().enumerate() {
        let m = Gt { acts: acts.clone(), ranks };
        let start = m.start();
        let name = format!("rank table {ti}");
        if let Some(rv) = &cli.replay {
            if rv["section"] == name.as_str() {
                e2::replay_into(&mut rep, &m, &[start], rv);
            }
            continue;
        }
        let depth = if th { 7 } else { 5 };
        let o = e2::explore(&mut rep, &name, &m, vec![start], &e2::Config { depth, max_states: 30_000_000 }, json!({"thorough": th}));
        for needed in ["Mint:ok", "Burn:ok", "Burn:err", "Request:ok", "Request:err", "Confirm:ok", "Confirm:err"] {
            if o.histogram.get(needed).copied().unwrap_or(0) == 0 {
                rep.machinery(format!("vacuous exploration: outcome {needed} never occurred"));
            }
        }
    }
    rep
}

// ------------------------------------------------------------------------------------------ C31

pub fn run_c31(cli: &Cli) -> Report {
    let mut rep = Report::new(cli, "exploration");
    rep.rule("E1: Store::order_fee_discount_factor of the program and of the SDK (same account bytes) for every rank 0..=17 x referred or not x rank tables of 0, 2 and 15 thresholds x per-rank factors and referral discounts from {0, 1, 10%, 50%, 100%-1, 100%} (and invalid factors above 100% through the setter); range, monotonicity in referral, the closed form 1-(1-a)(1-b) within one unit, rejection above the maximum rank and program/SDK equality; non-trivial = a discount was returned");
    if let Some(rv) = &cli.replay {
        rep.sample(json!({"note": "closed-form case: re-run the quick tier", "case": rv}));
        rep.evaluations = 1;
        return rep;
    }
    let fs: Vec<u128> = vec![0, 1, UNIT / 10, UNIT / 2, UNIT - 1, UNIT];
    let tables: Vec<usize> = vec![0, 2, 15];
    e1::run(&mut rep, "discount factors", &tables, |&n_ranks, sink| {
        svm::install();
        svm::set_clock(1_000, 10);
        for &referral in fs.iter().chain([UNIT + 1, 2 * UNIT].iter()) {
            for pattern in 0..fs.len() + 2 {
                let mut store: Box<Store> = Box::new(bytemuck::Zeroable::zeroed());
                store.init(svm::addr("d-auth"), "", 255, svm::addr("d-r"), svm::addr("d-h")).expect("store init");
                let ranks: Vec<u64> = (1..=n_ranks as u64).map(|k| 10 * k).collect();
                hv::gt_init(hv::gt_mut(&mut store), 0, COST0, GROW, STEP, &ranks).expect("gt init");
                // per-rank factors: constant patterns, an ascending and a descending one
                let factors: Vec<u128> = (0..=n_ranks).map(|r| if pattern < fs.len() { fs[pattern] } else if pattern == fs.len() { fs[r % fs.len()] } else { fs[fs.len() - 1 - r % fs.len()] }).collect();
                if hv::gt_set_order_fee_discount_factors(hv::gt_mut(&mut store), &factors).is_err() {
                    continue;
                }
                *store.get_factor_mut("order_fee_discount_for_referred_user").expect("factor key") = referral;
                let sdk: gmsol_programs::gmsol_store::accounts::Store = bytemuck::pod_read_unaligned(bytemuck::bytes_of(&*store));
                for rank in 0u8..=17 {
                    let mut got = [None, None];
                    for (i, referred) in [false, true].into_iter().enumerate() {
                        let p = mc_core::catch(|| store.order_fee_discount_factor(rank, referred).ok());
                        let s = mc_core::catch(|| sdk.order_fee_discount_factor(rank, referred).ok());
                        let rp = || json!({"ranks": n_ranks, "pattern": pattern, "referral": referral.to_string(), "rank": rank, "referred": referred});
                        let (Ok(p), Ok(s)) = (p, s) else {
                            sink.case(false);
                            sink.fail("C31/panic", "order_fee_discount_factor panicked".into(), rp());
                            continue;
                        };
                        sink.case(p.is_some());
                        if p != s {
                            sink.fail("C31/sdk_differs_from_program", format!("program {p:?} sdk {s:?}"), rp());
                        }
                        if rank as usize > n_ranks {
                            if p.is_some() {
                                sink.fail("C31/rank_above_maximum_accepted", format!("rank {rank} > {n_ranks} gave {p:?}"), rp());
                            }
                            continue;
                        }
                        let a = factors[rank as usize];
                        match p {
                            Some(d) => {
                                if referral <= UNIT && d > UNIT {
                                    sink.fail("C31/discount_above_100_percent", format!("{d}"), rp());
                                }
                                let want = if referred {
                                    // 1 - (1-a)(1-b), exact rational; the implementation floors a*(1-b)
                                    if referral > UNIT { None } else { Some(referral + fits(&(bu(a) * bu(UNIT - referral) / bu(UNIT)), 128).unwrap()) }
                                } else {
                                    Some(a)
                                };
                                match want {
                                    Some(w) if d.abs_diff(w) <= 1 => {
                                        if d != w {
                                            sink.count("off_by_one_unit");
                                        }
                                    }
                                    other => sink.fail("C31/discount_differs_from_formula", format!("rank factor {a} referral {referral}: got {d}, 1-(1-a)(1-b) = {other:?}"), rp()),
                                }
                                got[i] = Some(d);
                            }
                            None => {
                                if referral <= UNIT {
                                    sink.fail("C31/valid_rank_rejected", format!("rank {rank} of {n_ranks}"), rp());
                                }
                            }
                        }
                    }
                    if let (Some(u), Some(r)) = (got[0], got[1]) {
                        if r < u {
                            sink.fail("C31/referred_discount_below_unreferred", format!("referred {r} < unreferred {u}"), json!({"ranks": n_ranks, "pattern": pattern, "referral": referral.to_string(), "rank": rank}));
                        }
                    }
                }
            }
        }
        // the setter caps factors at 100%
        let mut store: Box<Store> = Box::new(bytemuck::Zeroable::zeroed());
        store.init(svm::addr("d-auth"), "", 255, svm::addr("d-r"), svm::addr("d-h")).expect("store init");
        let ranks: Vec<u64> = (1..=n_ranks as u64).map(|k| 10 * k).collect();
        hv::gt_init(hv::gt_mut(&mut store), 0, COST0, GROW, STEP, &ranks).expect("gt init");
        for pos in 0..=n_ranks {
            let mut factors = vec![UNIT / 2; n_ranks + 1];
            factors[pos] = UNIT + 1;
            sink.case(false);
            if hv::gt_set_order_fee_discount_factors(hv::gt_mut(&mut store), &factors).is_ok() {
                sink.fail("C31/factor_above_100_percent_accepted", format!("factor above 100% at rank {pos} accepted"), json!({"ranks": n_ranks, "pos": pos}));
            }
        }
        for len in [0usize, n_ranks, n_ranks + 2] {
            if len != n_ranks + 1 && hv::gt_set_order_fee_discount_factors(hv::gt_mut(&mut store), &vec![0; len]).is_ok() {
                sink.fail("C31/wrong_table_length_accepted", format!("{len} factors for {n_ranks} ranks"), json!({"ranks": n_ranks, "len": len}));
            }
        }
    });
    rep
}

// ------------------------------------------------------------------------------------------ C32 (helpers)

pub fn c32_helpers(rep: &mut Report, cli: &Cli) {
    use gmsol_model::price::Price as MP;
    use gmsol_model::action::decrease_position::DecreasePositionSwapType as Swap;
    let th = cli.tier.thorough();
    let mut sizes: Vec<u128> = vec![0, 1, 7, UNIT - 1, UNIT, UNIT + 1, 1_000 * UNIT, 1_000 * UNIT + 3, (u64::MAX as u128 / 7) * UNIT, u128::MAX / UNIT, u128::MAX / UNIT + 1, u128::MAX - 1, u128::MAX];
    sizes.extend(cli.extras(32, 6, 0, u128::MAX));
    sizes.extend(cli.extras(33, 6, 0, 1u128 << 90));
    if th {
        sizes.extend((0..200u128).map(|k| k * UNIT / 13 + k));
    }
    let factors: Vec<u128> = vec![0, 1, UNIT / 10_000, UNIT / 100, UNIT / 3, UNIT / 2, UNIT - 1, UNIT, UNIT + 1, 2 * UNIT, u128::MAX];
    let prices: Vec<u128> = vec![1, 2, 3, 7, 1_000_000, UNIT, u64::MAX as u128, u128::MAX / 2, u128::MAX];
    e1::run(rep, "builder fee helpers", &sizes, |&s, sink| {
        for &f in &factors {
            for &pmin in &prices {
                for &pmax in &prices {
                    if pmax < pmin {
                        continue;
                    }
                    let price = MP { min: pmin, max: pmax };
                    let rp = || json!({"size": s.to_string(), "factor": f.to_string(), "price_min": pmin.to_string(), "price_max": pmax.to_string()});
                    let r = mc_core::catch(|| bf::compute_builder_fee_amount(s, f, &price).ok());
                    let Ok(r) = r else {
                        sink.case(false);
                        sink.fail("C32/panic", "compute_builder_fee_amount panicked".into(), rp());
                        continue;
                    };
                    sink.case(r.is_some());
                    // fee = ceil(floor(size*factor/UNIT) / price_min)
                    let value = bu(s) * bu(f) / bu(UNIT);
                    let want = {
                        let (q, rem) = value.div_rem(&bu(pmin));
                        if rem.is_zero() { q } else { q + 1u32 }
                    };
                    match r {
                        Some(v) => {
                            if bu(v) != want {
                                sink.fail("C32/fee_amount_wrong", format!("fee {v}, exact ceil(floor(size*factor)/price_min) = {want}"), rp());
                            }
                        }
                        None => {
                            // failure is legitimate only when an intermediate (value, or value + price - 1) does not fit u128
                            let fits_all = fits(&value, 128).is_some() && fits(&(&value + bu(pmin)), 128).is_some();
                            if fits_all {
                                sink.fail("C32/fee_amount_unexpected_failure", format!("exact fee {want} is computable"), rp());
                            }
                        }
                    }
                    // clamp
                    if let Some(v) = r {
                        for avail in [0u128, 1, v.saturating_sub(1), v, v.saturating_add(1), u128::MAX] {
                            let c = bf::clamp_builder_fee_amount(v, avail);
                            sink.case(true);
                            if c != v.min(avail) {
                                sink.fail("C32/clamp_wrong", format!("clamp({v},{avail}) = {c}"), rp());
                            }
                        }
                    }
                    // increase: fee + remaining increment == original increment, or failure
                    for inc in [0u64, 1, 10, 1_000_000, u64::MAX - 1, u64::MAX] {
                        let c = mc_core::catch(|| bf::charge_builder_fee_on_collateral_increment(inc, s, f, &price).ok());
                        let Ok(c) = c else {
                            sink.fail("C32/panic", "charge_builder_fee_on_collateral_increment panicked".into(), rp());
                            continue;
                        };
                        sink.case(c.is_some());
                        match (c, r) {
                            (Some((after, fee)), Some(v)) => {
                                if after as u128 + fee as u128 != inc as u128 || fee as u128 != v {
                                    sink.fail("C32/increment_split_wrong", format!("increment {inc}: remaining {after} + fee {fee}, computed fee {v}"), rp());
                                }
                            }
                            (Some(x), None) => sink.fail("C32/increment_split_wrong", format!("increment {inc} split {x:?} although the fee is not computable"), rp()),
                            (None, Some(v)) => {
                                if v <= inc as u128 {
                                    sink.fail("C32/increment_rejected_though_fee_fits", format!("fee {v} <= increment {inc}"), rp());
                                }
                            }
                            (None, None) => {}
                        }
                    }
                    // decrease: the estimate used to top up a withdrawal is the fee itself (or a rejection)
                    for swap in [Swap::NoSwap, Swap::PnlTokenToCollateralToken, Swap::CollateralToPnlToken] {
                        for wd in [0u128, 1, 1_000] {
                            let e = mc_core::catch(|| bf::estimate_builder_fee_for_collateral_withdrawal(wd, s, f, &price, swap).ok());
                            let Ok(e) = e else {
                                sink.fail("C32/panic", "estimate_builder_fee_for_collateral_withdrawal panicked".into(), rp());
                                continue;
                            };
                            sink.case(e.is_some());
                            // the withdrawal is topped up by exactly the fee; swapping the collateral away is refused when a fee is due
                            match (e, r) {
                                (Some(est), _) if f == 0 => {
                                    if est != wd {
                                        sink.fail("C32/withdrawal_estimate_differs_from_fee", format!("zero factor: estimate {est} for withdrawal {wd}"), rp());
                                    }
                                }
                                (Some(est), Some(v)) => {
                                    if est != wd + v || swap == Swap::CollateralToPnlToken {
                                        sink.fail("C32/withdrawal_estimate_differs_from_fee", format!("estimate {est}, withdrawal {wd} + fee {v} ({swap:?})"), rp());
                                    }
                                }
                                (Some(est), None) => sink.fail("C32/withdrawal_estimate_differs_from_fee", format!("estimate {est} although the fee is not computable"), rp()),
                                (None, Some(v)) => {
                                    if swap != Swap::CollateralToPnlToken && wd.checked_add(v).is_some() {
                                        sink.fail("C32/withdrawal_estimate_unexpected_failure", format!("withdrawal {wd} fee {v} ({swap:?})"), rp());
                                    }
                                }
                                (None, None) => {}
                            }
                        }
                    }
                }
            }
        }
    });
}

pub fn run_c32(cli: &Cli) -> Report {
    let mut rep = Report::new(cli, "exploration");
    rep.rule("E1: the four builder-fee helpers of ops/order.rs (through visibility hooks) over boundary and dense sizes x factors (0 .. above 100%) x min/max prices x collateral increments x withdrawal amounts x swap types against exact big-integer arithmetic: fee = ceil(floor(size*factor/UNIT)/price_min), clamp = min, increment split exact or refused, withdrawal estimate = withdrawal + fee; non-trivial = the helper returned a value. Settlement, E3 breadth first: the real settle_builder_fee instruction on a real pending decrease order from twenty start states (recorded amount x escrow balance, the record attached through a visibility hook because no instruction sets a builder yet) with repeated settlements by the recorded builder, by another user and without builder accounts, tokens arriving in the escrow and further fees being recorded in between: each settlement moves exactly min(recorded, escrow) to the builder's vault and nowhere else, never more than recorded, zeroes the record (a repeated settlement is a no-op), and over a history the builder never receives more than was ever recorded");
    rep.assume("svm-lite runtime trusted; execution never charges a builder fee on the unchanged tree (the factor passed to the helpers is the constant 0), so the increase/decrease clauses are decided on the helpers");
    if let Some(rv) = &cli.replay {
        if rv.get("path").is_some() {
            crate::c32s::run(&mut rep, cli);
            return rep;
        }
        rep.sample(json!({"note": "closed-form case: re-run the quick tier", "case": rv}));
        rep.evaluations = 1;
        return rep;
    }
    c32_helpers(&mut rep, cli);
    crate::c32s::run(&mut rep, cli);
    rep
}
