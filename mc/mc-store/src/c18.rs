//! C18 — role membership behaves like a set of grants gated by enabled roles (E2 on the real Store).
use std::collections::{BTreeMap, BTreeSet};

use anchor_lang::prelude::*;
use gmsol_store::states::Store;
use mc_core::{
    e2::{self, Machine, StepOut},
    json, Cli, Report,
};

use crate::svm;

const ROLES: [&str; 3] = ["RESTART_ADMIN", "MARKET_KEEPER", "ORDER_KEEPER"];

#[derive(Clone, Debug, PartialEq, Eq, Hash, Default)]
struct Ref {
    /// role -> enabled (present = the role exists)
    roles: BTreeMap<String, bool>,
    grants: BTreeSet<(usize, String)>,
}

#[derive(Clone)]
struct St {
    store: Box<Store>,
    reference: Ref,
    /// the cluster's last restart slot (environment)
    restart_slot: u64,
}

#[derive(Clone, Copy, Debug)]
enum Act {
    Enable(usize),
    Disable(usize),
    Grant(usize, usize),
    Revoke(usize, usize),
    ClusterRestart(u64),
    UpdateRestartSlot,
}

struct Roles {
    users: Vec<Pubkey>,
    authority: Pubkey,
    acts: Vec<Act>,
    /// extra grants present in prefilled start states (not tracked per user)
    roles: Vec<String>,
}

impl Roles {
    fn role(&self, i: usize) -> &str {
        &self.roles[i]
    }

    fn queries(&self, st: &St, out: &mut StepOut) {
        svm::set_last_restart_slot(st.restart_slot);
        let rf = &st.reference;
        let restarted = st.store.has_restarted().unwrap_or(false);
        let holds_ref = |u: usize, r: &str| rf.roles.get(r).copied().unwrap_or(false) && rf.grants.contains(&(u, r.to_string()));
        for (ui, u) in self.users.iter().enumerate() {
            for r in &self.roles {
                let got = matches!(st.store.has_role(u, r), Ok(true));
                let want = if restarted { holds_ref(ui, "RESTART_ADMIN") } else { holds_ref(ui, r) };
                if got != want {
                    let key = if restarted { "C18/restart_authorisation_wrong" } else { "C18/has_role_differs_from_grants" };
                    out.fail(key, format!("user {ui} role {r}: has_role says {got}, grants/enabled say {want} (restarted {restarted}) ref {rf:?}"));
                }
            }
            let member = st.store.role().role_value(u).is_some();
            let want_member = rf.grants.iter().any(|(g, _)| *g == ui);
            if member != want_member {
                out.fail("C18/membership_differs_from_grants", format!("user {ui}: member {member}, has grants {want_member}"));
            }
            let admin = matches!(st.store.has_admin_role(u), Ok(true));
            let want_admin = restarted && holds_ref(ui, "RESTART_ADMIN");
            if admin != want_admin {
                out.fail("C18/admin_role_wrong", format!("user {ui}: has_admin_role {admin}, expected {want_admin} (restarted {restarted})"));
            }
        }
        if !matches!(st.store.has_admin_role(&self.authority), Ok(true)) {
            out.fail("C18/authority_not_admin", format!("store authority is not an admin (restarted {restarted})"));
        }
    }
}

impl Machine for Roles {
    type State = St;
    type Action = Act;
    fn actions(&self) -> &[Act] {
        &self.acts
    }
    fn key(&self, s: &St) -> u128 {
        mc_core::hash128(&(bytemuck::bytes_of(&*s.store), &s.reference, s.restart_slot))
    }
    fn check_start(&self, s: &St, out: &mut StepOut) {
        self.queries(s, out);
    }
    fn step(&self, s: &St, a: &Act, out: &mut StepOut) -> St {
        let mut n = s.clone();
        svm::set_last_restart_slot(n.restart_slot);
        let before = bytemuck::bytes_of(&*s.store).to_vec();
        let rf = &s.reference;
        // (result, must_fail, must_succeed)
        let (ok, must_fail, must_succeed) = match *a {
            Act::Enable(r) => {
                let name = self.role(r).to_string();
                let enabled = rf.roles.get(&name).copied().unwrap_or(false);
                let exists = rf.roles.contains_key(&name);
                let ok = n.store.enable_role(&name).is_ok();
                if ok {
                    n.reference.roles.insert(name, true);
                }
                (ok, enabled, !enabled && (exists || n.store.role().num_roles() <= 32 && s.store.role().num_roles() < 32))
            }
            Act::Disable(r) => {
                let name = self.role(r).to_string();
                let ok = n.store.disable_role(&name).is_ok();
                if ok && n.reference.roles.contains_key(&name) {
                    n.reference.roles.insert(name, false);
                }
                (ok, false, false)
            }
            Act::Grant(u, r) => {
                let name = self.role(r).to_string();
                let enabled = rf.roles.get(&name).copied().unwrap_or(false);
                let held = rf.grants.contains(&(u, name.clone()));
                let is_member = rf.grants.iter().any(|(g, _)| *g == u);
                let ok = n.store.grant(&self.users[u], &name).is_ok();
                if ok {
                    n.reference.grants.insert((u, name));
                }
                (ok, held && enabled, enabled && !held && (is_member || s.store.role().num_members() < 64))
            }
            Act::Revoke(u, r) => {
                let name = self.role(r).to_string();
                let held = rf.grants.contains(&(u, name.clone()));
                let ok = n.store.revoke(&self.users[u], &name).is_ok();
                if ok {
                    n.reference.grants.remove(&(u, name));
                }
                (ok, !held, held)
            }
            Act::ClusterRestart(slot) => {
                n.restart_slot = slot;
                (true, false, false)
            }
            Act::UpdateRestartSlot => {
                let ok = gmsol_store::verif::store_update_last_restarted_slot(&mut n.store, true).is_ok();
                (ok, false, false)
            }
        };
        out.label = if ok { "ok" } else { "err" };
        if ok && must_fail {
            out.fail("C18/redundant_operation_accepted", format!("{a:?} succeeded although it is redundant (ref {rf:?})"));
        }
        if !ok && must_succeed {
            out.fail("C18/legitimate_operation_rejected", format!("{a:?} failed (ref {rf:?})"));
        }
        if !ok && bytemuck::bytes_of(&*n.store) != &before[..] {
            out.fail("C18/failed_operation_has_side_effects", format!("{a:?} failed but changed the store"));
        }
        self.queries(&n, out);
        n
    }
}

fn machine(start_kind: usize) -> (Roles, Vec<St>) {
    svm::install();
    svm::set_last_restart_slot(0);
    let users: Vec<Pubkey> = (0..3).map(|i| svm::addr(&format!("c18-user-{i}"))).collect();
    let authority = svm::addr("c18-authority");
    let roles: Vec<String> = ROLES.iter().map(|s| s.to_string()).collect();
    let mut acts = vec![];
    for r in 0..roles.len() {
        acts.push(Act::Enable(r));
        acts.push(Act::Disable(r));
        for u in 0..users.len() {
            acts.push(Act::Grant(u, r));
            acts.push(Act::Revoke(u, r));
        }
    }
    acts.extend([Act::ClusterRestart(0), Act::ClusterRestart(7), Act::UpdateRestartSlot]);
    let mut store: Box<Store> = Box::new(bytemuck::Zeroable::zeroed());
    store.init(authority, "", 255, svm::addr("c18-r"), svm::addr("c18-h")).expect("store init");
    let mut reference = Ref::default();
    match start_kind {
        0 => {}
        1 => {
            // capacity edge for roles: 31 filler roles already exist (enabled), one slot left
            for i in 0..31 {
                store.enable_role(&format!("FILLER_{i}")).expect("filler role");
            }
        }
        _ => {
            // capacity edge for members: 63 filler members hold a filler role, one slot left
            store.enable_role("FILLER").expect("filler role");
            for i in 0..63 {
                store.grant(&svm::addr(&format!("c18-filler-{i}")), "FILLER").expect("filler member");
            }
        }
    }
    let _ = &mut reference;
    (Roles { users, authority, acts, roles }, vec![St { store, reference, restart_slot: 0 }])
}

pub fn run(cli: &Cli) -> Report {
    let mut rep = Report::new(cli, "model_checking");
    rep.rule("E2: every sequence of enable/disable/grant/revoke over 3 addresses x 3 roles (one of them RESTART_ADMIN), cluster restarts and restart-slot updates, on the real zero-copy Store; start states: empty store, 31/32 roles used, 63/64 members used; after every step has_role/has_admin_role/membership of every (address, role) are compared with a set-of-grants reference; states merged on the raw store bytes + reference + restart slot");
    rep.assume("LastRestartSlot sysvar answered by the harness stub");
    let depth = cli.tier.pick(5, 6);
    for kind in 0..3 {
        let (m, starts) = machine(kind);
        if let Some(rv) = &cli.replay {
            if rv["ctx"]["start_kind"].as_u64() == Some(kind as u64) {
                e2::replay_into(&mut rep, &m, &starts, rv);
            }
            continue;
        }
        let d = if kind == 0 { depth } else { depth - 1 };
        e2::explore(&mut rep, ["empty store", "31 of 32 roles used", "63 of 64 members used"][kind], &m, starts, &e2::Config { depth: d, max_states: 30_000_000 }, json!({"start_kind": kind}));
    }
    rep
}
