//! Checker binary for the properties anchored in the on-chain programs (store, treasury,
//! timelock, competition, liquidity-provider) and in the SDK's view of their accounts.
mod c15;
mod c18;
mod c35;
mod c37;
mod c40;
mod c44;
mod compworld;
mod access;
mod adl;
mod actions;
mod c20;
mod c21;
mod c21liq;
mod c32s;
mod c33;
mod glvchk;
mod gtchk;
mod lpcomp;
mod lpworld;
mod oraclechk;
mod orders;
mod perp;
mod world;
mod tlworld;
mod cfgkeys;
mod defaults;
mod svm;

use mc_core::{Cli, Report};

fn main() {
    let cli = Cli::parse();
    mc_core::quiet_panics();
    // programs print through msg!/println!; keep our own channel
    // (SVM_LOG=1 keeps the program logs on stdout: a debugging aid, never set by ./check)
    let _saved = std::env::var_os("SVM_LOG").is_none().then(mc_core::silence_stdout);
    svm::install();
    let rep: Report = match cli.property.as_str() {
        "SELFTEST" => match svm::selftest().and_then(|_| world::selftest()).and_then(|_| orders::selftest()) {
            Ok(()) => {
                eprintln!("svm-lite selftest ok");
                std::process::exit(0)
            }
            Err(e) => {
                eprintln!("svm-lite selftest FAILED: {e}");
                std::process::exit(2)
            }
        },
        "C09" => adl::run(&cli),
        "C15" => c15::run(&cli),
        "C16" => cfgkeys::run_c16(&cli),
        "C17" => cfgkeys::run_c17(&cli),
        "C18" => c18::run(&cli),
        "C19" => access::run(&cli),
        "C20" => c20::run(&cli),
        "C21" => c21::run(&cli),
        "C22" | "C23" => actions::run(&cli),
        "C24" => oraclechk::run_c24(&cli),
        "C25" => oraclechk::run_c25(&cli),
        "C29" => oraclechk::run_c29(&cli),
        "C30" => gtchk::run_c30(&cli),
        "C31" => gtchk::run_c31(&cli),
        "C32" => gtchk::run_c32(&cli),
        "C33" => c33::run(&cli),
        "C35" => c35::run(&cli),
        "C37" => c37::run(&cli),
        "C38" => lpcomp::run_c38(&cli),
        "C39" => lpcomp::run_c39(&cli),
        "C40" => c40::run(&cli),
        "C44" => c44::run(&cli),
        "C45" => glvchk::run(&cli),
        "C36" => tlworld::run_c36(&cli),
        other => {
            eprintln!("unknown property {other}");
            std::process::exit(2)
        }
    };
    std::process::exit(rep.finish(&cli));
}
