//! Timelock world (E3): the real `gmsol_timelock::entry` + `gmsol_store::entry` (role checks by
//! CPI) + a recording probe program as the target of buffered instructions.
//! C36 explores all interleavings of create/approve/cancel/execute/increase-delay/role changes/
//! clock advances; C35 uses `initialize_executor` as a name-accepting constructor.
use std::cell::RefCell;

use anchor_lang::prelude::*;
use anchor_lang::{Discriminator, InstructionData, ToAccountMetas};
use gmsol_store::states::{Seed, Store};
use gmsol_timelock::states::{Executor, TimelockConfig};
use mc_core::{
    e1,
    e2::{self, Machine, StepOut},
    json, Cli, Report,
};
use solana_program::instruction::Instruction;

use crate::svm::{self, addr, meta, process, register, Acc, Db};

type Probed = (Pubkey, Vec<(Pubkey, bool, bool)>, Vec<u8>);
thread_local! { static PROBED: RefCell<Vec<Probed>> = const { RefCell::new(vec![]) }; }

fn probe_entry<'a>(p: &'a Pubkey, a: &'a [AccountInfo<'a>], d: &'a [u8]) -> solana_program::entrypoint::ProgramResult {
    PROBED.with(|v| v.borrow_mut().push((*p, a.iter().map(|i| (*i.key, i.is_signer, i.is_writable)).collect(), d.to_vec())));
    Ok(())
}

pub fn zc<T: bytemuck::Pod + Discriminator>(v: &T) -> Vec<u8> {
    let mut d = T::DISCRIMINATOR.to_vec();
    d.extend_from_slice(bytemuck::bytes_of(v));
    d
}

fn sys() -> Pubkey {
    solana_program::system_program::ID
}

#[derive(Clone)]
pub struct Keys {
    pub pid: Pubkey,
    pub tid: Pubkey,
    pub probe: Pubkey,
    pub store: Pubkey,
    pub admin: Pubkey,
    pub keeper: Pubkey,
    pub approver1: Pubkey,
    pub approver2: Pubkey,
    /// holds the timelocked form of ROLE2 only
    pub approver3: Pubkey,
    pub stranger: Pubkey,
    pub executor: Pubkey,
    /// executor of ROLE2 (no buffer is ever created for it)
    pub executor2: Pubkey,
    pub wallet: Pubkey,
    pub config: Pubkey,
    pub x: Pubkey,
    pub y: Pubkey,
    pub buffers: [Pubkey; 2],
}

pub const ROLE: &str = "MARKET_KEEPER";
pub const TLD_ROLE: &str = "__TLD_MARKET_KEEPER";
pub const ROLE2: &str = "ORDER_KEEPER";
pub const TLD_ROLE2: &str = "__TLD_ORDER_KEEPER";
pub const DELAY0: u32 = 100;

/// Base database: programs registered, store fabricated with `Store::init` + real role functions,
/// wallets funded. No executor / config yet.
pub fn base() -> (Db, Keys) {
    svm::install();
    let pid = gmsol_store::ID;
    let tid = gmsol_timelock::ID;
    let probe = addr("tl-probe-program");
    let mut db = Db::default();
    register(pid, gmsol_store::entry, &mut db);
    register(tid, gmsol_timelock::entry, &mut db);
    register(probe, probe_entry, &mut db);
    let mut sysacc = Acc::program();
    sysacc.owner = Pubkey::default();
    db.set(sys(), sysacc);
    let names = ["tl-admin", "tl-keeper", "tl-approver1", "tl-approver2", "tl-stranger", "tl-approver3"];
    let k: Vec<Pubkey> = names.iter().map(|n| addr(n)).collect();
    for w in &k {
        db.set(*w, Acc::wallet(100_000_000_000));
    }
    let (store_key, bump) = Pubkey::find_program_address(&[Store::SEED, &gmsol_utils::to_seed("")], &pid);
    let mut store: Store = bytemuck::Zeroable::zeroed();
    store.init(k[0], "", bump, k[0], k[0]).expect("store init");
    for (role, who) in [("TIMELOCK_ADMIN", k[0]), ("TIMELOCK_KEEPER", k[1]), (TLD_ROLE, k[2]), (TLD_ROLE, k[3]), (TLD_ROLE2, k[5])] {
        if store.role().role_index(role).ok().flatten().is_none() {
            store.enable_role(role).expect("enable");
        }
        store.grant(&who, role).expect("grant");
    }
    db.set(store_key, Acc::new(1_000_000_000, pid, zc(&store)));
    let role_bytes = gmsol_utils::fixed_str::fixed_str_to_bytes::<32>(ROLE).unwrap();
    let executor = Pubkey::find_program_address(&[Executor::SEED, store_key.as_ref(), &role_bytes], &tid).0;
    let wallet = Pubkey::find_program_address(&[Executor::WALLET_SEED, executor.as_ref()], &tid).0;
    let config = Pubkey::find_program_address(&[TimelockConfig::SEED, store_key.as_ref()], &tid).0;
    let role2_bytes = gmsol_utils::fixed_str::fixed_str_to_bytes::<32>(ROLE2).unwrap();
    let executor2 = Pubkey::find_program_address(&[Executor::SEED, store_key.as_ref(), &role2_bytes], &tid).0;
    let keys = Keys {
        pid, tid, probe, store: store_key, admin: k[0], keeper: k[1], approver1: k[2], approver2: k[3], approver3: k[5], stranger: k[4], executor, executor2, wallet, config,
        x: addr("tl-x"), y: addr("tl-y"), buffers: [addr("tl-buffer-0"), addr("tl-buffer-1")],
    };
    (db, keys)
}

pub fn ix_initialize_executor(k: &Keys, payer: Pubkey, role: &str) -> Instruction {
    let role_bytes = gmsol_utils::fixed_str::fixed_str_to_bytes::<32>(role).unwrap_or([0u8; 32]);
    let executor = Pubkey::find_program_address(&[Executor::SEED, k.store.as_ref(), &role_bytes], &k.tid).0;
    let wallet = Pubkey::find_program_address(&[Executor::WALLET_SEED, executor.as_ref()], &k.tid).0;
    Instruction {
        program_id: k.tid,
        accounts: gmsol_timelock::accounts::InitializeExecutor { payer, store: k.store, executor, wallet, system_program: sys() }.to_account_metas(None),
        data: gmsol_timelock::instruction::InitializeExecutor { role: role.into() }.data(),
    }
}

/// C35: `initialize_executor` accepted a role name => `Executor::role_name()` reads it back.
pub fn c35_executor(name: &str, sink: &mut e1::Sink) {
    let (mut db, k) = base();
    let ix = ix_initialize_executor(&k, k.keeper, name);
    let executor = ix.accounts[2].pubkey;
    let r = process(&mut db, &ix, &[k.keeper]);
    sink.case(r.is_ok());
    match r {
        Ok(()) => {
            let back = db.pod::<Executor>(&executor).and_then(|e| e.role_name().map(|s| s.to_string()).ok());
            if back.as_deref() != Some(name) {
                let class = if name.contains('\0') { "contains_nul" } else if name.len() == 32 { "exact_fit" } else { "other" };
                sink.fail(&format!("C35/executor_role_name_not_read_back/{class}"), format!("initialize_executor accepted role {name:?} ({} bytes), role_name() returns {back:?}", name.len()), json!({"what": "executor", "name": name}));
            }
        }
        Err(e) if e.is_panic() => sink.fail("C35/panic", format!("initialize_executor panicked on {name:?}: {e:?}"), json!({"what": "executor", "name": name})),
        Err(_) => {}
    }
}

// ------------------------------------------------------------------------------------------
// C36

/// world with executor (real instruction) and a fabricated config (delay DELAY0)
fn world() -> (Db, Keys) {
    let (mut db, k) = base();
    process(&mut db, &ix_initialize_executor(&k, k.keeper, ROLE), &[k.keeper]).expect("initialize_executor");
    process(&mut db, &ix_initialize_executor(&k, k.keeper, ROLE2), &[k.keeper]).expect("initialize_executor 2");
    let (cfg_key, cfg_bump) = Pubkey::find_program_address(&[TimelockConfig::SEED, k.store.as_ref()], &k.tid);
    let mut cfg = vec![0u8; 8 + std::mem::size_of::<TimelockConfig>()];
    cfg[..8].copy_from_slice(TimelockConfig::DISCRIMINATOR);
    cfg[8 + 1] = cfg_bump;
    cfg[8 + 8..8 + 12].copy_from_slice(&DELAY0.to_le_bytes());
    cfg[8 + 16..8 + 48].copy_from_slice(k.store.as_ref());
    db.set(cfg_key, Acc::new(10_000_000, k.tid, cfg));
    let c: TimelockConfig = db.pod(&cfg_key).expect("config");
    assert_eq!(c.delay(), DELAY0, "fabricated config layout");
    (db, k)
}

/// shapes of buffered instructions: (accounts as (key, writable), signer indices, data)
fn shape(k: &Keys, s: u8) -> (Vec<(Pubkey, bool)>, Vec<u16>, Vec<u8>) {
    match s {
        0 => (vec![(k.wallet, true), (k.x, false), (k.y, true)], vec![0], (0..40u8).collect()),
        1 => (vec![(k.wallet, true)], vec![0], vec![7]),
        2 => (vec![], vec![], vec![]),
        3 => (vec![(k.x, false), (k.wallet, false), (k.y, true)], vec![], vec![1, 2]),
        // invalid: a signer flag on an account that is not the executor wallet
        4 => (vec![(k.wallet, true), (k.x, false)], vec![1], vec![9]),
        // invalid: another account and the wallet both marked
        5 => (vec![(k.y, true), (k.wallet, true)], vec![0, 1], vec![]),
        // invalid: the wallet first, then a foreign account, both marked
        _ => (vec![(k.wallet, true), (k.x, false), (k.y, true)], vec![0, 2], vec![3]),
    }
}

#[derive(Clone, Copy, Debug, PartialEq, Eq, Hash)]
enum Who {
    Admin,
    Keeper,
    Approver1,
    Approver2,
    Approver3,
    Stranger,
}

#[derive(Clone, Copy, Debug)]
enum Act {
    Create(usize, u8, Who),
    Approve(usize, Who),
    /// batched approval (approve_instructions) of one buffer, authenticating for ROLE (false) or ROLE2 (true)
    ApproveBatch(usize, Who, bool),
    Cancel(usize, Who),
    Execute(usize, Who),
    IncreaseDelay(u32, Who),
    RevokeApprover1,
    GrantApprover1,
    DisableTldRole,
    EnableTldRole,
    Adv(i64),
}

#[derive(Clone, Copy, Debug, PartialEq, Eq, Hash)]
enum Buf {
    Absent,
    Pending { shape: u8 },
    Approved { shape: u8, at: i64, by: Who },
}

#[derive(Clone)]
struct St {
    db: Db,
    now: i64,
    // reference protocol state
    bufs: [Buf; 2],
    delay: u64,
    approver1_has_role: bool,
    tld_enabled: bool,
    executed: u32,
}

struct Tl {
    k: Keys,
    acts: Vec<Act>,
}

impl Tl {
    fn key_of(&self, w: Who) -> Pubkey {
        match w {
            Who::Admin => self.k.admin,
            Who::Keeper => self.k.keeper,
            Who::Approver1 => self.k.approver1,
            Who::Approver2 => self.k.approver2,
            Who::Approver3 => self.k.approver3,
            Who::Stranger => self.k.stranger,
        }
    }
    fn holds_tld(&self, st: &St, w: Who) -> bool {
        st.tld_enabled && match w { Who::Approver1 => st.approver1_has_role, Who::Approver2 => true, _ => false }
    }
    fn create_ix(&self, slot: usize, s: u8, by: Pubkey) -> Instruction {
        let k = &self.k;
        let (accs, signers, data) = shape(k, s);
        let mut metas = gmsol_timelock::accounts::CreateInstructionBuffer { authority: by, store: k.store, executor: k.executor, instruction_buffer: k.buffers[slot], instruction_program: k.probe, store_program: k.pid, system_program: sys() }.to_account_metas(None);
        metas.extend(accs.iter().map(|(a, w)| meta(*a, false, *w)));
        Instruction { program_id: k.tid, accounts: metas, data: gmsol_timelock::instruction::CreateInstructionBuffer { num_accounts: accs.len() as u16, data_len: data.len() as u16, data, signers }.data() }
    }
    fn approve_ix(&self, slot: usize, by: Pubkey) -> Instruction {
        let k = &self.k;
        Instruction { program_id: k.tid, accounts: gmsol_timelock::accounts::ApproveInstruction { authority: by, store: k.store, executor: k.executor, instruction: k.buffers[slot], store_program: k.pid }.to_account_metas(None), data: gmsol_timelock::instruction::ApproveInstruction { role: ROLE.into() }.data() }
    }
    fn approve_batch_ix(&self, slot: usize, by: Pubkey, second_role: bool) -> Instruction {
        let k = &self.k;
        let (executor, role) = if second_role { (k.executor2, ROLE2) } else { (k.executor, ROLE) };
        let mut metas = gmsol_timelock::accounts::ApproveInstructions { authority: by, store: k.store, executor, store_program: k.pid }.to_account_metas(None);
        metas.push(meta(k.buffers[slot], false, true));
        Instruction { program_id: k.tid, accounts: metas, data: gmsol_timelock::instruction::ApproveInstructions { role: role.into() }.data() }
    }
    fn cancel_ix(&self, slot: usize, by: Pubkey) -> Instruction {
        let k = &self.k;
        Instruction { program_id: k.tid, accounts: gmsol_timelock::accounts::CancelInstruction { authority: by, store: k.store, executor: k.executor, rent_receiver: k.keeper, instruction: k.buffers[slot], store_program: k.pid }.to_account_metas(None), data: gmsol_timelock::instruction::CancelInstruction {}.data() }
    }
    fn execute_ix(&self, slot: usize, by: Pubkey, s: u8) -> Instruction {
        let k = &self.k;
        let (accs, _, _) = shape(k, s);
        let mut metas = gmsol_timelock::accounts::ExecuteInstruction { authority: by, store: k.store, timelock_config: k.config, executor: k.executor, wallet: k.wallet, rent_receiver: k.keeper, instruction: k.buffers[slot], store_program: k.pid }.to_account_metas(None);
        metas.push(meta(k.probe, false, false));
        metas.extend(accs.iter().map(|(a, w)| meta(*a, false, *w)));
        Instruction { program_id: k.tid, accounts: metas, data: gmsol_timelock::instruction::ExecuteInstruction {}.data() }
    }
    fn edit_store(&self, st: &mut St, f: impl FnOnce(&mut Store)) {
        let mut s: Store = st.db.pod(&self.k.store).expect("store");
        f(&mut s);
        st.db.set_pod(&self.k.store, &s);
    }
}

impl Machine for Tl {
    type State = St;
    type Action = Act;
    fn actions(&self) -> &[Act] {
        &self.acts
    }
    fn key(&self, s: &St) -> u128 {
        use std::hash::{Hash, Hasher};
        let mut h = std::collections::hash_map::DefaultHasher::new();
        s.db.hash_into(&mut h);
        let a = h.finish();
        mc_core::hash128(&(a, s.now, s.bufs, s.delay, s.approver1_has_role, s.tld_enabled))
    }
    fn step(&self, s: &St, a: &Act, out: &mut StepOut) -> St {
        let mut n = s.clone();
        let k = &self.k;
        svm::set_clock(s.now, 10 + s.now as u64);
        let exists = |b: Buf| !matches!(b, Buf::Absent);
        // (instruction, signers, expected success, reference update)
        let (ix, signers, expect): (Option<Instruction>, Vec<Pubkey>, bool) = match *a {
            Act::Create(slot, sh, by) => {
                let ok = by == Who::Keeper && !exists(s.bufs[slot]) && sh < 4;
                (Some(self.create_ix(slot, sh, self.key_of(by))), vec![self.key_of(by), k.buffers[slot]], ok)
            }
            Act::Approve(slot, by) => {
                let ok = matches!(s.bufs[slot], Buf::Pending { .. }) && self.holds_tld(s, by);
                (Some(self.approve_ix(slot, self.key_of(by))), vec![self.key_of(by)], ok)
            }
            Act::ApproveBatch(slot, by, second_role) => {
                // every buffer belongs to the executor of ROLE: a batch authenticated for ROLE2 must not approve it, whoever signs
                let ok = matches!(s.bufs[slot], Buf::Pending { .. }) && !second_role && self.holds_tld(s, by);
                (Some(self.approve_batch_ix(slot, self.key_of(by), second_role)), vec![self.key_of(by)], ok)
            }
            Act::Cancel(slot, by) => {
                let ok = exists(s.bufs[slot]) && by == Who::Admin;
                (Some(self.cancel_ix(slot, self.key_of(by))), vec![self.key_of(by)], ok)
            }
            Act::Execute(slot, by) => {
                let (ok, sh) = match s.bufs[slot] {
                    Buf::Approved { shape, at, by: approver } => (by == Who::Keeper && self.holds_tld(s, approver) && (s.now as i128) >= at as i128 + s.delay as i128, shape),
                    Buf::Pending { shape } => (false, shape),
                    Buf::Absent => (false, 0),
                };
                (Some(self.execute_ix(slot, self.key_of(by), sh)), vec![self.key_of(by)], ok)
            }
            Act::IncreaseDelay(d, by) => {
                // a zero delta is rejected by the program (the delay only ever increases)
                let ok = by == Who::Admin && d != 0 && s.delay + d as u64 <= u32::MAX as u64;
                let ix = Instruction { program_id: k.tid, accounts: gmsol_timelock::accounts::IncreaseDelay { authority: self.key_of(by), store: k.store, timelock_config: k.config, store_program: k.pid }.to_account_metas(None), data: gmsol_timelock::instruction::IncreaseDelay { delta: d }.data() };
                (Some(ix), vec![self.key_of(by)], ok)
            }
            _ => (None, vec![], true),
        };
        if let Some(ix) = ix {
            PROBED.with(|v| v.borrow_mut().clear());
            let r = process(&mut n.db, &ix, &signers);
            out.label = if r.is_ok() { "ok" } else { "err" };
            if let Err(e) = &r {
                if e.is_panic() {
                    out.fail("C36/panic", format!("{a:?} panicked: {e:?}"));
                }
            }
            if r.is_ok() != expect {
                let key = match (a, r.is_ok()) {
                    (Act::Execute(..), true) => "C36/executed_without_valid_approval_or_delay",
                    (Act::Approve(..), true) => "C36/approved_twice_or_by_non_holder",
                    (Act::ApproveBatch(_, _, false), true) => "C36/approved_twice_or_by_non_holder",
                    (Act::ApproveBatch(_, _, true), true) => "C36/approved_under_another_role",
                    (Act::Create(..), true) => "C36/created_invalid_buffer",
                    (Act::Cancel(..), true) => "C36/cancelled_by_non_admin",
                    (Act::IncreaseDelay(..), true) => "C36/delay_changed_by_non_admin",
                    (_, false) => "C36/legitimate_operation_rejected",
                    (_, true) => "C36/unexpected_success",
                };
                out.fail(key, format!("{a:?} at t={} returned {r:?}, protocol expects {}; buffers {:?} delay {} approver1 {} role enabled {}", s.now, if expect { "success" } else { "rejection" }, s.bufs, s.delay, s.approver1_has_role, s.tld_enabled));
            }
            if r.is_ok() {
                match *a {
                    Act::Create(slot, sh, _) => n.bufs[slot] = Buf::Pending { shape: sh },
                    Act::Approve(slot, by) | Act::ApproveBatch(slot, by, _) => {
                        if let Buf::Pending { shape } = s.bufs[slot] {
                            n.bufs[slot] = Buf::Approved { shape, at: s.now, by };
                        }
                    }
                    Act::Cancel(slot, _) => n.bufs[slot] = Buf::Absent,
                    Act::Execute(slot, _) => {
                        n.bufs[slot] = Buf::Absent;
                        n.executed += 1;
                        // the probe must have seen exactly the buffered instruction
                        let sh = match s.bufs[slot] { Buf::Approved { shape, .. } | Buf::Pending { shape } => shape, Buf::Absent => 0 };
                        let (accs, sig, data) = shape(k, sh);
                        let want: Probed = (k.probe, accs.iter().enumerate().map(|(i, (key, w))| (*key, sig.contains(&(i as u16)), *w)).collect(), data);
                        let got = PROBED.with(|v| v.borrow().clone());
                        if got.len() != 1 || got[0] != want {
                            out.fail("C36/executed_instruction_differs_from_buffered", format!("{a:?}: target program saw {got:?}, buffered {want:?}"));
                        }
                        if got.iter().any(|g| g.1.iter().any(|(key, signer, _)| *signer && *key != k.wallet)) {
                            out.fail("C36/non_wallet_signer", format!("{a:?}: an account other than the executor wallet signed: {got:?}"));
                        }
                    }
                    Act::IncreaseDelay(d, _) => n.delay += d as u64,
                    _ => {}
                }
                if matches!(a, Act::Cancel(..) | Act::Execute(..)) {
                    let slot = match *a { Act::Cancel(s, _) | Act::Execute(s, _) => s, _ => 0 };
                    if n.db.exists(&k.buffers[slot]) {
                        out.fail("C36/closed_buffer_still_exists", format!("{a:?}: buffer account still exists"));
                    }
                }
            }
            // the stored delay never decreases and equals the reference
            let cfg: TimelockConfig = n.db.pod(&k.config).expect("config");
            if (cfg.delay() as u64) < s.delay || cfg.delay() as u64 != n.delay {
                out.fail("C36/delay_mismatch", format!("{a:?}: stored delay {} reference {} previous {}", cfg.delay(), n.delay, s.delay));
            }
        } else {
            out.label = "env";
            match *a {
                Act::RevokeApprover1 => {
                    if s.approver1_has_role {
                        let who = k.approver1;
                        self.edit_store(&mut n, |st| st.revoke(&who, TLD_ROLE).expect("revoke"));
                        n.approver1_has_role = false;
                    }
                }
                Act::GrantApprover1 => {
                    if !s.approver1_has_role && s.tld_enabled {
                        let who = k.approver1;
                        self.edit_store(&mut n, |st| st.grant(&who, TLD_ROLE).expect("grant"));
                        n.approver1_has_role = true;
                    }
                }
                Act::DisableTldRole => {
                    if s.tld_enabled {
                        self.edit_store(&mut n, |st| st.disable_role(TLD_ROLE).expect("disable"));
                        n.tld_enabled = false;
                    }
                }
                Act::EnableTldRole => {
                    if !s.tld_enabled {
                        self.edit_store(&mut n, |st| st.enable_role(TLD_ROLE).expect("enable"));
                        n.tld_enabled = true;
                    }
                }
                Act::Adv(dt) => n.now += dt,
                _ => {}
            }
        }
        n
    }
}

pub fn run_c36(cli: &Cli) -> Report {
    let mut rep = Report::new(cli, "model_checking");
    rep.rule("E3: breadth-first exploration of every interleaving of real timelock instructions (create_instruction_buffer with valid and invalid shapes, approve_instruction, approve_instructions (batched, also authenticated for a second role whose executor owns no buffer), cancel_instruction, execute_instruction, increase_delay — each by entitled and non-entitled signers), role revocation/re-grant and disabling of the timelocked role in the store, and clock advances {1, 50, 99} around the delay; every instruction runs through gmsol_timelock::entry with its role checks CPI-ing into gmsol_store::entry; the target of the buffered instruction is a recording probe program; success/failure of every instruction is compared with a reference protocol and an executed instruction with the buffered shape bit for bit");
    rep.assume("svm-lite runtime (account records, PDA signing, CPI privilege checks, atomic commit) is trusted; the timelock config account is fabricated with delay 100 (initialize_config additionally transfers the store authority and is not part of the property)");
    let th = cli.tier.thorough();
    let (db, k) = world();
    use Who::*;
    let mut acts = vec![
        Act::Create(0, 0, Keeper),
        Act::Create(1, 3, Keeper),
        Act::Create(0, 4, Keeper),
        Act::Create(1, 6, Keeper),
        Act::Create(1, 0, Stranger),
        Act::Approve(0, Approver1),
        Act::Approve(0, Approver2),
        Act::Approve(1, Approver1),
        Act::Approve(0, Stranger),
        Act::Approve(1, Keeper),
        Act::ApproveBatch(0, Approver2, false),
        Act::ApproveBatch(0, Approver3, true),
        Act::ApproveBatch(1, Approver3, false),
        Act::Cancel(0, Admin),
        Act::Cancel(1, Admin),
        Act::Cancel(0, Keeper),
        Act::Execute(0, Keeper),
        Act::Execute(1, Keeper),
        Act::Execute(0, Stranger),
        Act::Execute(1, Admin),
        Act::IncreaseDelay(50, Admin),
        Act::IncreaseDelay(50, Keeper),
        Act::RevokeApprover1,
        Act::GrantApprover1,
        Act::Adv(1),
        Act::Adv(50),
        Act::Adv(99),
    ];
    if th {
        acts.extend([Act::Create(1, 2, Keeper), Act::Create(0, 1, Keeper), Act::Create(1, 5, Keeper), Act::DisableTldRole, Act::EnableTldRole, Act::IncreaseDelay(u32::MAX, Admin), Act::IncreaseDelay(0, Admin), Act::Approve(1, Approver2)]);
    }
    let tl = Tl { k, acts };
    let start = St { db, now: 1_000, bufs: [Buf::Absent; 2], delay: DELAY0 as u64, approver1_has_role: true, tld_enabled: true, executed: 0 };
    if let Some(rv) = &cli.replay {
        e2::replay_into(&mut rep, &tl, &[start], rv);
        return rep;
    }
    let depth = if th { 10 } else { 8 };
    let o = e2::explore(&mut rep, "timelock protocol", &tl, vec![start], &e2::Config { depth, max_states: 20_000_000 }, json!({"thorough": th}));
    // vacuity guards: executions and rejections of every kind must have occurred
    for needed in ["Execute:ok", "Execute:err", "Approve:ok", "Approve:err", "Cancel:ok", "Create:ok", "Create:err", "IncreaseDelay:ok"] {
        if o.histogram.get(needed).copied().unwrap_or(0) == 0 {
            rep.machinery(format!("vacuous exploration: outcome {needed} never occurred"));
        }
    }
    rep
}
