//! svm-lite: an in-process instruction runtime that executes the real Anchor entrypoints of the
//! programs natively (E3). It re-implements only: the loader-style account records, signer /
//! writable / owner rules, PDA signing for CPIs, the System program, Anchor's event self-CPI,
//! return data, sysvars through `SyscallStubs`, and transaction atomicity.
use std::cell::RefCell;
use std::collections::BTreeMap;
use std::hash::{Hash, Hasher};
use std::sync::{Arc, RwLock};

use anchor_lang::prelude::*;
use solana_program::entrypoint::ProgramResult;
use solana_program::instruction::{AccountMeta, Instruction};
use solana_program::program_error::ProgramError;
use solana_program::program_stubs::{set_syscall_stubs, SyscallStubs};

pub type Entry = for<'a> fn(&'a Pubkey, &'a [AccountInfo<'a>], &'a [u8]) -> ProgramResult;

#[derive(Clone, Debug, PartialEq, Eq)]
pub struct Acc {
    pub lamports: u64,
    pub owner: Pubkey,
    pub data: Vec<u8>,
    pub executable: bool,
    /// content hash (filled by `Db::set`)
    h: u64,
}

impl Acc {
    pub fn new(lamports: u64, owner: Pubkey, data: Vec<u8>) -> Self {
        Self { lamports, owner, data, executable: false, h: 0 }
    }
    pub fn program() -> Self {
        Self { lamports: 1, owner: solana_program::bpf_loader::ID, data: vec![], executable: true, h: 0 }
    }
    pub fn wallet(lamports: u64) -> Self {
        Self::new(lamports, solana_program::system_program::ID, vec![])
    }
    fn rehash(&mut self) {
        let mut s = std::collections::hash_map::DefaultHasher::new();
        self.lamports.hash(&mut s);
        self.owner.hash(&mut s);
        self.data.hash(&mut s);
        self.executable.hash(&mut s);
        self.h = s.finish();
    }
}

#[derive(Clone, Default)]
pub struct Db {
    pub accounts: BTreeMap<Pubkey, Arc<Acc>>,
}

impl Db {
    pub fn set(&mut self, key: Pubkey, mut acc: Acc) {
        acc.rehash();
        self.accounts.insert(key, Arc::new(acc));
    }
    pub fn get(&self, key: &Pubkey) -> Acc {
        self.accounts.get(key).map(|a| (**a).clone()).unwrap_or_else(|| Acc::wallet(0))
    }
    pub fn exists(&self, key: &Pubkey) -> bool {
        self.accounts.get(key).map(|a| a.lamports > 0 || !a.data.is_empty()).unwrap_or(false)
    }
    /// data of a program account without the 8-byte discriminator, as a Pod value
    pub fn pod<T: bytemuck::Pod>(&self, key: &Pubkey) -> Option<T> {
        let a = self.accounts.get(key)?;
        let n = std::mem::size_of::<T>();
        if a.data.len() < 8 + n {
            return None;
        }
        Some(bytemuck::pod_read_unaligned(&a.data[8..8 + n]))
    }
    pub fn set_pod<T: bytemuck::Pod>(&mut self, key: &Pubkey, v: &T) {
        let mut a = self.get(key);
        let n = std::mem::size_of::<T>();
        a.data[8..8 + n].copy_from_slice(bytemuck::bytes_of(v));
        self.set(*key, a);
    }
    /// canonical hash of the whole database (accounts with zero lamports and no data are absent)
    pub fn hash_into<H: Hasher>(&self, h: &mut H) {
        for (k, a) in &self.accounts {
            if a.lamports == 0 && a.data.is_empty() {
                continue;
            }
            k.hash(h);
            a.h.hash(h);
        }
    }
    pub fn total_lamports(&self) -> u128 {
        self.accounts.values().map(|a| a.lamports as u128).sum()
    }
}

pub struct Env {
    pub clock: Clock,
    pub last_restart_slot: u64,
    pub stack: Vec<Pubkey>,
    pub return_data: Option<(Pubkey, Vec<u8>)>,
    pub poisoned: bool,
    pub cpi_count: u64,
    /// every CPI as (caller, callee, metas, data) for harnesses that inspect them
    pub cpi_log: Vec<(Pubkey, Pubkey, Vec<(Pubkey, bool, bool)>, Vec<u8>)>,
    pub log_cpis: bool,
    /// accounts whose data is recorded after the next instruction ran, whether or not it is committed
    /// (what the program left in memory when it returned: a failed instruction's view is otherwise discarded)
    pub observe: Vec<Pubkey>,
    pub observed: BTreeMap<Pubkey, Vec<u8>>,
}

thread_local! {
    pub static ENV: RefCell<Env> = RefCell::new(Env {
        clock: Clock { slot: 10, epoch_start_timestamp: 0, epoch: 0, leader_schedule_epoch: 0, unix_timestamp: 1_000 },
        last_restart_slot: 0,
        stack: vec![],
        return_data: None,
        poisoned: false,
        cpi_count: 0,
        cpi_log: vec![],
        log_cpis: false,
        observe: vec![],
        observed: BTreeMap::new(),
    });
}

/// record the in-memory data of `keys` when the next instruction returns (committed or not)
pub fn observe(keys: &[Pubkey]) {
    ENV.with(|e| {
        let mut e = e.borrow_mut();
        e.observe = keys.to_vec();
        e.observed.clear();
    });
}
pub fn take_observed() -> BTreeMap<Pubkey, Vec<u8>> {
    ENV.with(|e| {
        let mut e = e.borrow_mut();
        e.observe.clear();
        std::mem::take(&mut e.observed)
    })
}

static PROGRAMS: RwLock<BTreeMap<Pubkey, Entry>> = RwLock::new(BTreeMap::new());

pub fn set_clock(ts: i64, slot: u64) {
    ENV.with(|e| {
        let mut e = e.borrow_mut();
        e.clock.unix_timestamp = ts;
        e.clock.slot = slot;
    });
}
pub fn clock() -> (i64, u64) {
    ENV.with(|e| {
        let e = e.borrow();
        (e.clock.unix_timestamp, e.clock.slot)
    })
}
pub fn set_last_restart_slot(s: u64) {
    ENV.with(|e| e.borrow_mut().last_restart_slot = s);
}

const EVENT_IX_TAG_LE: [u8; 8] = [0xe4, 0x45, 0xa5, 0x2e, 0x51, 0xcb, 0x9a, 0x1d];
pub const ERR_PRIVILEGE_ESCALATION: u32 = 0xdead_0001;

struct Stubs;

impl SyscallStubs for Stubs {
    fn sol_log(&self, _m: &str) {
        if std::env::var_os("SVM_LOG").is_some() {
            eprintln!("LOG {_m}");
        }
    }
    fn sol_log_data(&self, _f: &[&[u8]]) {}
    fn sol_log_compute_units(&self) {}
    fn sol_get_clock_sysvar(&self, var_addr: *mut u8) -> u64 {
        ENV.with(|e| unsafe { std::ptr::write_unaligned(var_addr as *mut Clock, e.borrow().clock.clone()) });
        0
    }
    fn sol_get_rent_sysvar(&self, var_addr: *mut u8) -> u64 {
        unsafe { std::ptr::write_unaligned(var_addr as *mut Rent, Rent::default()) };
        0
    }
    fn sol_get_last_restart_slot(&self, var_addr: *mut u8) -> u64 {
        ENV.with(|e| unsafe { std::ptr::write_unaligned(var_addr as *mut u64, e.borrow().last_restart_slot) });
        0
    }
    fn sol_get_stack_height(&self) -> u64 {
        ENV.with(|e| e.borrow().stack.len() as u64)
    }
    fn sol_set_return_data(&self, data: &[u8]) {
        ENV.with(|e| {
            let mut e = e.borrow_mut();
            if let Some(pid) = e.stack.last().copied() {
                e.return_data = Some((pid, data.to_vec()));
            }
        });
    }
    fn sol_get_return_data(&self) -> Option<(Pubkey, Vec<u8>)> {
        ENV.with(|e| e.borrow().return_data.clone())
    }
    fn sol_invoke_signed(&self, ix: &Instruction, infos: &[AccountInfo], seeds: &[&[&[u8]]]) -> ProgramResult {
        let r = cpi(ix, infos, seeds);
        if r.is_err() {
            // a failed CPI aborts the transaction on chain even if the caller swallows the error
            ENV.with(|e| e.borrow_mut().poisoned = true);
        }
        r
    }
}

pub fn install() {
    static ONCE: std::sync::Once = std::sync::Once::new();
    ONCE.call_once(|| {
        set_syscall_stubs(Box::new(Stubs));
    });
}

fn cpi(ix: &Instruction, infos: &[AccountInfo], seeds: &[&[&[u8]]]) -> ProgramResult {
    let caller = ENV.with(|e| e.borrow().stack.last().copied()).ok_or(ProgramError::Custom(0xdead_0002))?;
    let mut pda_signers = vec![];
    for s in seeds {
        pda_signers.push(Pubkey::create_program_address(s, &caller).map_err(|_| ProgramError::InvalidSeeds)?);
    }
    let mut callee: Vec<AccountInfo> = Vec::with_capacity(ix.accounts.len());
    for meta in &ix.accounts {
        let info = infos.iter().find(|i| *i.key == meta.pubkey).ok_or(ProgramError::NotEnoughAccountKeys)?;
        if meta.is_signer && !(info.is_signer || pda_signers.contains(&meta.pubkey)) {
            return Err(ProgramError::Custom(ERR_PRIVILEGE_ESCALATION));
        }
        if meta.is_writable && !info.is_writable {
            return Err(ProgramError::Custom(ERR_PRIVILEGE_ESCALATION));
        }
        let mut c = info.clone();
        c.is_signer = meta.is_signer;
        c.is_writable = meta.is_writable;
        callee.push(c);
    }
    ENV.with(|e| {
        let mut e = e.borrow_mut();
        e.cpi_count += 1;
        if e.log_cpis {
            e.cpi_log.push((caller, ix.program_id, ix.accounts.iter().map(|m| (m.pubkey, m.is_signer, m.is_writable)).collect(), ix.data.clone()));
        }
    });
    // Anchor `emit_cpi!`: a self-CPI carrying the event tag; the program's entry would dispatch it to a no-op
    if ix.program_id == caller && ix.data.len() >= 8 && ix.data[..8] == EVENT_IX_TAG_LE {
        return if callee.first().map(|a| a.is_signer).unwrap_or(false) { Ok(()) } else { Err(ProgramError::MissingRequiredSignature) };
    }
    dispatch(&ix.program_id, &callee, &ix.data)
}

fn dispatch(program_id: &Pubkey, infos: &[AccountInfo], data: &[u8]) -> ProgramResult {
    if *program_id == solana_program::system_program::ID {
        return system(infos, data);
    }
    let entry = PROGRAMS.read().unwrap().get(program_id).copied().ok_or(ProgramError::IncorrectProgramId)?;
    ENV.with(|e| e.borrow_mut().stack.push(*program_id));
    // SAFETY: the slices outlive the call; lifetimes are erased only to satisfy `entry`'s signature.
    let r = unsafe {
        let pid: &'static Pubkey = std::mem::transmute(program_id);
        let accs: &'static [AccountInfo<'static>] = std::mem::transmute(infos);
        let d: &'static [u8] = std::mem::transmute(data);
        entry(pid, accs, d)
    };
    ENV.with(|e| e.borrow_mut().stack.pop());
    r
}

fn system(infos: &[AccountInfo], data: &[u8]) -> ProgramResult {
    if data.len() < 4 {
        return Err(ProgramError::InvalidInstructionData);
    }
    let tag = u32::from_le_bytes(data[..4].try_into().unwrap());
    let sys = solana_program::system_program::ID;
    match tag {
        0 => {
            let lamports = u64::from_le_bytes(data[4..12].try_into().unwrap());
            let space = u64::from_le_bytes(data[12..20].try_into().unwrap());
            let owner = Pubkey::new_from_array(data[20..52].try_into().unwrap());
            let (from, to) = (&infos[0], &infos[1]);
            if !from.is_signer || !to.is_signer {
                return Err(ProgramError::MissingRequiredSignature);
            }
            if **to.lamports.borrow() != 0 || !to.data_is_empty() || *to.owner != sys {
                return Err(ProgramError::AccountAlreadyInitialized);
            }
            if *from.owner != sys || **from.lamports.borrow() < lamports {
                return Err(ProgramError::InsufficientFunds);
            }
            **from.lamports.borrow_mut() -= lamports;
            **to.lamports.borrow_mut() += lamports;
            to.realloc(space as usize, true)?;
            to.assign(&owner);
            Ok(())
        }
        1 => {
            let owner = Pubkey::new_from_array(data[4..36].try_into().unwrap());
            if !infos[0].is_signer {
                return Err(ProgramError::MissingRequiredSignature);
            }
            if *infos[0].owner != sys {
                return Err(ProgramError::IllegalOwner);
            }
            infos[0].assign(&owner);
            Ok(())
        }
        2 => {
            let lamports = u64::from_le_bytes(data[4..12].try_into().unwrap());
            let (from, to) = (&infos[0], &infos[1]);
            if !from.is_signer {
                return Err(ProgramError::MissingRequiredSignature);
            }
            if *from.owner != sys || !from.data_is_empty() {
                return Err(ProgramError::InvalidArgument);
            }
            if **from.lamports.borrow() < lamports {
                return Err(ProgramError::InsufficientFunds);
            }
            **from.lamports.borrow_mut() -= lamports;
            **to.lamports.borrow_mut() += lamports;
            Ok(())
        }
        8 => {
            let space = u64::from_le_bytes(data[4..12].try_into().unwrap());
            if !infos[0].is_signer {
                return Err(ProgramError::MissingRequiredSignature);
            }
            if *infos[0].owner != sys || !infos[0].data_is_empty() {
                return Err(ProgramError::AccountAlreadyInitialized);
            }
            infos[0].realloc(space as usize, true)
        }
        _ => Err(ProgramError::InvalidInstructionData),
    }
}

/// One loader-style record per account, 16-aligned, data at offset 88 (so that data+8 is 16-aligned
/// as zero-copy accounts with u128 fields need on x86-64), followed by the 10 KiB realloc region.
struct Record {
    buf: Vec<u128>,
}

impl Record {
    fn new(key: &Pubkey, a: &Acc, signer: bool, writable: bool) -> Self {
        let total = 88 + a.data.len() + 10240 + 16;
        let mut buf = vec![0u128; (total + 15) / 16];
        let base = buf.as_mut_ptr() as *mut u8;
        unsafe {
            *base = 0xff;
            *base.add(1) = signer as u8;
            *base.add(2) = writable as u8;
            *base.add(3) = a.executable as u8;
            *(base.add(4) as *mut u32) = a.data.len() as u32;
            std::ptr::copy_nonoverlapping(key.as_ref().as_ptr(), base.add(8), 32);
            std::ptr::copy_nonoverlapping(a.owner.as_ref().as_ptr(), base.add(40), 32);
            *(base.add(72) as *mut u64) = a.lamports;
            *(base.add(80) as *mut u64) = a.data.len() as u64;
            std::ptr::copy_nonoverlapping(a.data.as_ptr(), base.add(88), a.data.len());
        }
        Self { buf }
    }
    fn info(&mut self, signer: bool, writable: bool, executable: bool) -> AccountInfo<'static> {
        let base = self.buf.as_mut_ptr() as *mut u8;
        unsafe {
            let len = *(base.add(80) as *const u64) as usize;
            AccountInfo::new(
                &*(base.add(8) as *const Pubkey),
                signer,
                writable,
                &mut *(base.add(72) as *mut u64),
                std::slice::from_raw_parts_mut(base.add(88), len),
                &*(base.add(40) as *const Pubkey),
                executable,
                0,
            )
        }
    }
}

fn read_back(info: &AccountInfo, executable: bool) -> Acc {
    Acc { lamports: **info.lamports.borrow(), owner: *info.owner, data: info.data.borrow().to_vec(), executable, h: 0 }
}

#[derive(Clone, Debug, PartialEq, Eq)]
pub enum TxError {
    /// the program (or a CPI callee) returned this error
    Program(ProgramError),
    /// rejected by the runtime rules re-implemented here
    Runtime(String),
    Panic(String),
}

impl TxError {
    /// Anchor / custom error code, if any
    pub fn code(&self) -> Option<u32> {
        match self {
            TxError::Program(ProgramError::Custom(c)) => Some(*c),
            _ => None,
        }
    }
    pub fn is_panic(&self) -> bool {
        matches!(self, TxError::Panic(_))
    }
}

/// Execute one top-level instruction atomically against `db`.
pub fn process(db: &mut Db, ix: &Instruction, signers: &[Pubkey]) -> std::result::Result<(), TxError> {
    install();
    let mut order: Vec<Pubkey> = vec![];
    let mut flags: BTreeMap<Pubkey, (bool, bool)> = BTreeMap::new();
    for m in &ix.accounts {
        let e = flags.entry(m.pubkey).or_insert_with(|| {
            order.push(m.pubkey);
            (false, false)
        });
        e.0 |= m.is_signer;
        e.1 |= m.is_writable;
    }
    // the fee payer (first signer) is always writable
    if let Some(p) = signers.first() {
        if let Some(f) = flags.get_mut(p) {
            f.1 = true;
        }
    }
    for (k, f) in &flags {
        if f.0 && !signers.contains(k) {
            return Err(TxError::Runtime(format!("missing signature for {k}")));
        }
    }
    let mut records: Vec<Record> = Vec::with_capacity(order.len());
    let mut base_infos: BTreeMap<Pubkey, AccountInfo<'static>> = BTreeMap::new();
    let mut olds: BTreeMap<Pubkey, Acc> = BTreeMap::new();
    for k in &order {
        let a = db.get(k);
        let (s, w) = flags[k];
        let mut r = Record::new(k, &a, s, w);
        let info = r.info(s, w, a.executable);
        records.push(r);
        base_infos.insert(*k, info);
        olds.insert(*k, a);
    }
    let infos: Vec<AccountInfo<'static>> = ix
        .accounts
        .iter()
        .map(|m| {
            let mut i = base_infos[&m.pubkey].clone();
            // each meta sees the merged privileges of its key, as the runtime presents them
            let f = flags[&m.pubkey];
            i.is_signer = f.0;
            i.is_writable = f.1;
            i
        })
        .collect();
    ENV.with(|e| {
        let mut e = e.borrow_mut();
        e.poisoned = false;
        e.return_data = None;
        e.stack.clear();
    });
    let res = std::panic::catch_unwind(std::panic::AssertUnwindSafe(|| dispatch(&ix.program_id, &infos, &ix.data)));
    let poisoned = ENV.with(|e| e.borrow().poisoned);
    ENV.with(|e| e.borrow_mut().stack.clear());
    ENV.with(|e| {
        let mut e = e.borrow_mut();
        let keys = e.observe.clone();
        for k in keys {
            if let Some(info) = base_infos.get(&k) {
                if let Ok(d) = info.data.try_borrow() {
                    e.observed.insert(k, d.to_vec());
                }
            }
        }
    });
    let out = match res {
        Ok(Ok(())) if !poisoned => {
            let mut lam_before: u128 = 0;
            let mut lam_after: u128 = 0;
            let mut writes = vec![];
            let mut err = None;
            for k in &order {
                let old = &olds[k];
                let mut new = read_back(&base_infos[k], old.executable);
                new.h = old.h;
                lam_before += old.lamports as u128;
                lam_after += new.lamports as u128;
                let changed = new.lamports != old.lamports || new.owner != old.owner || new.data != old.data;
                if changed {
                    if !flags[k].1 {
                        err = Some(format!("read-only account {k} was modified"));
                    }
                    writes.push((*k, new));
                }
            }
            if lam_before != lam_after {
                err = Some(format!("lamports not conserved: {lam_before} -> {lam_after}"));
            }
            match err {
                Some(e) => Err(TxError::Runtime(e)),
                None => {
                    for (k, a) in writes {
                        // the runtime deletes accounts left without lamports at the end of a transaction
                        db.set(k, if a.lamports == 0 { Acc::wallet(0) } else { a });
                    }
                    Ok(())
                }
            }
        }
        Ok(Ok(())) => Err(TxError::Runtime("an inner CPI failed but the outer instruction returned Ok".into())),
        Ok(Err(e)) => Err(TxError::Program(e)),
        Err(p) => Err(TxError::Panic(
            p.downcast_ref::<String>().cloned().or_else(|| p.downcast_ref::<&str>().map(|s| s.to_string())).unwrap_or_else(|| "panic".into()),
        )),
    };
    drop(infos);
    drop(base_infos);
    drop(records);
    out
}

/// Several instructions as one atomic transaction.
pub fn process_tx(db: &mut Db, ixs: &[Instruction], signers: &[Pubkey]) -> std::result::Result<(), TxError> {
    let mut scratch = db.clone();
    for ix in ixs {
        process(&mut scratch, ix, signers)?;
    }
    *db = scratch;
    Ok(())
}

pub fn register(pid: Pubkey, entry: Entry, db: &mut Db) {
    PROGRAMS.write().unwrap().insert(pid, entry);
    db.set(pid, Acc::program());
}

pub fn meta(k: Pubkey, s: bool, w: bool) -> AccountMeta {
    AccountMeta { pubkey: k, is_signer: s, is_writable: w }
}

/// Deterministic address derived from a label (worlds are rebuilt identically on every run).
pub fn addr(label: &str) -> Pubkey {
    let h1 = mc_core::hash128(&("addr-a", label));
    let h2 = mc_core::hash128(&("addr-b", label));
    let mut b = [0u8; 32];
    b[..16].copy_from_slice(&h1.to_le_bytes());
    b[16..].copy_from_slice(&h2.to_le_bytes());
    Pubkey::new_from_array(b)
}

/// Self-test of the runtime rules (part of `./check --setup`).
pub fn selftest() -> std::result::Result<(), String> {
    install();
    let sys = solana_program::system_program::ID;
    let mut db = Db::default();
    db.set(sys, Acc { lamports: 1, owner: Pubkey::default(), data: vec![], executable: true, h: 0 });
    let (a, b) = (addr("selftest-a"), addr("selftest-b"));
    db.set(a, Acc::wallet(1_000));
    // system transfer conserves lamports and needs the signature
    let ix = solana_program::system_instruction::transfer(&a, &b, 400);
    if process(&mut db.clone(), &ix, &[]).is_ok() {
        return Err("transfer without signature accepted".into());
    }
    let before = db.total_lamports();
    process(&mut db, &ix, &[a]).map_err(|e| format!("transfer failed: {e:?}"))?;
    if db.total_lamports() != before || db.get(&b).lamports != 400 {
        return Err("transfer did not conserve lamports".into());
    }
    // failing instruction leaves the database untouched
    let h = |d: &Db| {
        let mut s = std::collections::hash_map::DefaultHasher::new();
        d.hash_into(&mut s);
        s.finish()
    };
    let h0 = h(&db);
    let bad = solana_program::system_instruction::transfer(&a, &b, 10_000);
    if process(&mut db, &bad, &[a]).is_ok() || h(&db) != h0 {
        return Err("failed transfer changed the database".into());
    }
    // atomic multi-instruction transaction
    let ok = solana_program::system_instruction::transfer(&a, &b, 100);
    if process_tx(&mut db, &[ok, bad], &[a]).is_ok() || h(&db) != h0 {
        return Err("partial transaction was committed".into());
    }
    Ok(())
}
