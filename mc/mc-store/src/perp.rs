//! Position-order histories in the store world (E3, breadth first): market increase / decrease orders
//! of two traders on two markets that share both vaults, created / executed / closed by owners, the
//! keeper and a stranger, with price moves, clock advances (funding and borrowing accrue, requests
//! expire), liquidations and fee claims. Serves C22 (solvency with real positions: recorded balances
//! against pools, collateral sums against the position accounts, open interest against the position
//! accounts, shared vaults) and C23 (order lifecycle).
use anchor_lang::prelude::*;
use gmsol_model::{Balance, PoolKind};
use gmsol_store::states::common::action::Action;
use gmsol_store::states::{Market, Order, Position};
use gmsol_utils::action::ActionState;
use mc_core::{
    e2::{self, Machine, StepOut},
    json, Cli, Report,
};

use crate::orders::Side;
use crate::svm::{Db, TxError};
use crate::world::{self, ata, token_amount, MarketKeys, W};

pub const P22: u32 = 1;
pub const P23: u32 = 2;

#[derive(Clone, Copy, Debug, PartialEq, Eq, Hash)]
pub enum Who {
    Owner,
    Keeper,
    Stranger,
}

#[derive(Clone, Copy, Debug)]
pub enum Act {
    Create(usize),
    Exec(usize, Who),
    Close(usize, Who),
    /// publish the k-th price set at the current time
    Price(usize),
    /// advance the clock and re-publish the current price set
    Adv(i64),
    /// liquidate the p-th position (keeper or stranger)
    Liquidate(usize, Who),
    /// claim the accrued fees of market 0 in the long / short token
    ClaimFees(bool),
}

#[derive(Clone, Copy, Debug, PartialEq, Eq, Hash)]
pub enum Phase {
    Absent,
    Pending,
    Completed,
    Cancelled,
}

#[derive(Clone, Copy, Debug, PartialEq, Eq, Hash, Default)]
pub struct Snapshot {
    /// escrowed amounts (A, B, market token of market 0, market token of market 1) right after creation
    escrow: [u64; 4],
}

const NSLOT: usize = 12;
const NPOS: usize = 3;

#[derive(Clone)]
pub struct St {
    db: Db,
    now: i64,
    price: usize,
    phase: [Phase; NSLOT],
    snap: [Snapshot; NSLOT],
    liq_nonce: u8,
}

pub struct Slot {
    owner: Pubkey,
    /// who receives the output of a completed order (input funds of an order that did not complete go back to the owner)
    receiver: Pubkey,
    market: usize,
    side: Side,
    increase: bool,
    /// increase: collateral paid in; decrease: collateral withdrawn
    collateral: u64,
    size: u128,
    /// an acceptable price (order) or a minimum output (shift) no execution can meet: the execution fails softly
    unreachable_price: bool,
    /// a shift of `collateral` market tokens from market `market` into the other market instead of an order
    shift: bool,
    /// a market swap order of `collateral` units: 1 = A -> B in market `market`; 2 = B -> A in the other market, then A -> B in `market`
    swap: u8,
    nonce: [u8; 32],
}

pub struct Perp {
    w: W,
    acts: Vec<Act>,
    slots: Vec<Slot>,
    /// (owner, market, side) of the positions that exist in this world
    positions: Vec<(Pubkey, usize, Side)>,
    props: u32,
}

/// (A min, A max), (B min, B max)
const PRICES: [((u128, u128), (u128, u128)); 6] = [
    ((12_0000_0000, 12_0000_0000), (1_0000_0000, 1_0000_0000)),
    ((12_9000_0000, 13_1000_0000), (9990_0000, 1_0010_0000)),
    // the first trader's long (300 USD on 120 USD of collateral, opened at 12) is left with about 1 USD: liquidatable, still solvent
    ((7_2500_0000, 7_3000_0000), (1_0000_0000, 1_0000_0000)),
    // the second trader's short (400 USD on 10 A of collateral) is left with about 2 USD
    ((17_0000_0000, 17_0500_0000), (1_0000_0000, 1_0000_0000)),
    // both far under water (insolvent liquidations)
    ((6_0000_0000, 6_1000_0000), (1_0000_0000, 1_0000_0000)),
    ((20_0000_0000, 20_2000_0000), (1_0000_0000, 1_0000_0000)),
];

const UNIT: u128 = 100_000_000_000_000_000_000;

pub fn market_view(w: &W, db: &Db, m: &MarketKeys) -> Vec<u128> {
    let mk: Market = w.market(db, m);
    let mut v = vec![];
    for kind in [
        PoolKind::Primary, PoolKind::SwapImpact, PoolKind::ClaimableFee, PoolKind::OpenInterestForLong, PoolKind::OpenInterestForShort, PoolKind::OpenInterestInTokensForLong, PoolKind::OpenInterestInTokensForShort,
        PoolKind::PositionImpact, PoolKind::BorrowingFactor, PoolKind::FundingAmountPerSizeForLong, PoolKind::FundingAmountPerSizeForShort, PoolKind::ClaimableFundingAmountPerSizeForLong, PoolKind::ClaimableFundingAmountPerSizeForShort,
        PoolKind::CollateralSumForLong, PoolKind::CollateralSumForShort, PoolKind::TotalBorrowing,
    ] {
        if let Some(p) = mk.pool(kind) {
            v.push(p.long_amount().unwrap_or(u128::MAX));
            v.push(p.short_amount().unwrap_or(u128::MAX));
        }
    }
    v.push(mk.state().long_token_balance_raw() as u128);
    v.push(mk.state().short_token_balance_raw() as u128);
    v.push(mk.state().funding_factor_per_second() as u128);
    v.push(mk.state().trade_count() as u128);
    v.push(world::mint_supply(db, &m.market_token) as u128);
    v
}

impl Perp {
    fn markets(&self) -> [&MarketKeys; 2] {
        [&self.w.m1, &self.w.m2]
    }
    fn key_of(&self, owner: Pubkey, who: Who) -> Pubkey {
        match who {
            Who::Owner => owner,
            Who::Keeper => self.w.keeper,
            Who::Stranger => self.w.stranger,
        }
    }
    /// (markets of the path, token in, token out) of a swap slot
    fn swap_route(&self, s: &Slot) -> (Vec<&MarketKeys>, Pubkey, Pubkey) {
        let (m, o) = (self.markets()[s.market], self.markets()[1 - s.market]);
        if s.swap == 1 { (vec![m], self.w.a, self.w.b) } else { (vec![o, m], self.w.b, self.w.b) }
    }
    fn order_account(&self, s: &Slot) -> Pubkey {
        if s.shift { self.w.shift_pda(&s.owner, &s.nonce) } else { self.w.order_pda(&s.owner, &s.nonce) }
    }
    fn phase_on_chain(&self, db: &Db, s: &Slot) -> Phase {
        let k = self.order_account(s);
        if !db.exists(&k) {
            return Phase::Absent;
        }
        let st = if s.shift { db.pod::<gmsol_store::states::Shift>(&k).and_then(|d| d.header().action_state().ok()) } else { db.pod::<Order>(&k).and_then(|d| d.header().action_state().ok()) };
        match st {
            Some(ActionState::Pending) => Phase::Pending,
            Some(ActionState::Completed) => Phase::Completed,
            Some(ActionState::Cancelled) => Phase::Cancelled,
            _ => Phase::Absent,
        }
    }
    fn tokens(&self, db: &Db, who: &Pubkey) -> [u64; 4] {
        [token_amount(db, &ata(who, &self.w.a)), token_amount(db, &ata(who, &self.w.b)), token_amount(db, &ata(who, &self.w.m1.market_token)), token_amount(db, &ata(who, &self.w.m2.market_token))]
    }
    fn holdings(&self, db: &Db, owner: &Pubkey) -> ([u64; 4], u64) {
        (self.tokens(db, owner), db.get(owner).lamports)
    }
    fn escrow(&self, db: &Db, s: &Slot) -> [u64; 4] {
        self.tokens(db, &self.order_account(s))
    }

    /// C22: recorded balances cover pools and collateral; the collateral and open-interest pools equal what the
    /// position accounts hold; markets sharing a vault never exceed it
    fn solvency(&self, db: &Db, what: &str, out: &mut StepOut) {
        let mut recorded = [0u128; 2];
        for (mi, m) in self.markets().iter().enumerate() {
            let mk: Market = self.w.market(db, m);
            let pool = |k: PoolKind| mk.pool(k).map(|p| (p.long_amount().unwrap_or(u128::MAX), p.short_amount().unwrap_or(u128::MAX))).unwrap_or((0, 0));
            let (liq, imp, fee) = (pool(PoolKind::Primary), pool(PoolKind::SwapImpact), pool(PoolKind::ClaimableFee));
            let (cl, cs) = (pool(PoolKind::CollateralSumForLong), pool(PoolKind::CollateralSumForShort));
            let bal = [mk.state().long_token_balance_raw() as u128, mk.state().short_token_balance_raw() as u128];
            let pools = [liq.0 + imp.0 + fee.0, liq.1 + imp.1 + fee.1];
            let coll = [cl.0 + cs.0, cl.1 + cs.1];
            for t in 0..2 {
                if bal[t] < pools[t] {
                    out.fail("C22/recorded_balance_below_pools", format!("{what}: market {mi} token {t}: balance {} < liquidity+impact+fees {}", bal[t], pools[t]));
                }
                if bal[t] < coll[t] {
                    out.fail("C22/recorded_balance_below_collateral", format!("{what}: market {mi} token {t}: balance {} < collateral {}", bal[t], coll[t]));
                }
                recorded[t] += bal[t];
            }
            // the pools against the position accounts
            let mut want_coll = [[0u128; 2]; 2]; // [is_long][token]
            let mut want_oi = [0u128; 2];
            let mut want_oit = [0u128; 2];
            for (owner, pmi, side) in &self.positions {
                if *pmi != mi {
                    continue;
                }
                if let Some(p) = db.pod::<Position>(&self.w.position_pda(owner, m, *side)) {
                    let l = if side.is_long { 0 } else { 1 };
                    want_coll[l][if side.collateral_long { 0 } else { 1 }] += p.state.collateral_amount;
                    want_oi[l] += p.state.size_in_usd;
                    want_oit[l] += p.state.size_in_tokens;
                }
            }
            let got_coll = [[cl.0, cl.1], [cs.0, cs.1]];
            if got_coll != want_coll {
                out.fail("C22/collateral_sum_differs_from_positions", format!("{what}: market {mi}: collateral pools (long positions, short positions) x (long token, short token) = {got_coll:?}, the position accounts hold {want_coll:?}"));
            }
            let (oil, ois) = (pool(PoolKind::OpenInterestForLong), pool(PoolKind::OpenInterestForShort));
            let (otl, ots) = (pool(PoolKind::OpenInterestInTokensForLong), pool(PoolKind::OpenInterestInTokensForShort));
            let got_oi = [oil.0 + oil.1, ois.0 + ois.1];
            let got_oit = [otl.0 + otl.1, ots.0 + ots.1];
            if got_oi != want_oi || got_oit != want_oit {
                out.fail("C22/open_interest_differs_from_positions", format!("{what}: market {mi}: open interest {got_oi:?} / in tokens {got_oit:?}, the position accounts hold {want_oi:?} / {want_oit:?}"));
            }
        }
        for (t, mint) in [self.w.a, self.w.b].iter().enumerate() {
            let vault = token_amount(db, &self.w.vault(mint)) as u128;
            if recorded[t] > vault {
                out.fail("C22/recorded_balances_exceed_vault", format!("{what}: token {t}: markets record {} but the vault holds {vault}", recorded[t]));
            }
        }
    }
}

impl Machine for Perp {
    type State = St;
    type Action = Act;
    fn actions(&self) -> &[Act] {
        &self.acts
    }
    fn key(&self, s: &St) -> u128 {
        use std::hash::Hasher;
        let mut h = std::collections::hash_map::DefaultHasher::new();
        s.db.hash_into(&mut h);
        mc_core::hash128(&(h.finish(), s.now, s.price, s.phase, s.snap))
    }
    fn check_start(&self, s: &St, out: &mut StepOut) {
        self.solvency(&s.db, "start", out);
    }
    fn step(&self, s: &St, a: &Act, out: &mut StepOut) -> St {
        let mut n = s.clone();
        W::set_time(s.now);
        crate::svm::set_last_restart_slot(0);
        let w = &self.w;
        let on23 = self.props & P23 != 0;
        let views_before: Vec<Vec<u128>> = self.markets().iter().map(|m| market_view(w, &s.db, m)).collect();
        let vaults_before = (token_amount(&s.db, &w.vault(&w.a)), token_amount(&s.db, &w.vault(&w.b)));
        let res: Option<std::result::Result<(), TxError>> = match *a {
            Act::Create(i) => {
                let sl = &self.slots[i];
                let m = self.markets()[sl.market];
                // the position account is prepared by the client before the first increase
                if sl.increase && sl.swap == 0 && !sl.shift && !n.db.exists(&w.position_pda(&sl.owner, m, sl.side)) {
                    let _ = w.prepare_position(&mut n.db, m, sl.owner, sl.side);
                }
                let unreachable = sl.unreachable_price.then_some(if sl.side.is_long == sl.increase { 1u128 } else { u128::MAX / 4 });
                let r = if sl.swap != 0 {
                    let (path, tin, tout) = self.swap_route(sl);
                    w.create_swap(&mut n.db, &path, sl.owner, sl.nonce, tin, tout, sl.collateral, if sl.unreachable_price { u128::MAX } else { 0 })
                } else if sl.shift {
                    w.create_shift(&mut n.db, m, self.markets()[1 - sl.market], sl.owner, sl.nonce, sl.collateral, if sl.unreachable_price { u64::MAX } else { 0 })
                } else if sl.increase {
                    w.create_increase_with(&mut n.db, m, sl.owner, sl.receiver, sl.nonce, sl.side, sl.collateral, sl.size, unreachable)
                } else {
                    w.create_decrease_with(&mut n.db, m, sl.owner, sl.receiver, sl.nonce, sl.side, sl.collateral, sl.size, unreachable)
                };
                if r.is_ok() {
                    n.snap[i] = Snapshot { escrow: self.escrow(&n.db, sl) };
                }
                Some(r)
            }
            Act::Exec(i, who) => {
                let sl = &self.slots[i];
                let m = self.markets()[sl.market];
                let by = self.key_of(sl.owner, who);
                Some(if sl.swap != 0 {
                    let (path, tin, tout) = self.swap_route(sl);
                    w.execute_swap(&mut n.db, &path, sl.owner, sl.nonce, tin, tout, by, false)
                } else if sl.shift {
                    w.execute_shift(&mut n.db, m, self.markets()[1 - sl.market], sl.owner, sl.nonce, by, false)
                } else if sl.increase {
                    w.execute_increase(&mut n.db, m, sl.owner, sl.nonce, sl.side, by, false)
                } else {
                    w.execute_decrease(&mut n.db, m, sl.owner, sl.nonce, sl.side, by, false)
                })
            }
            Act::Close(i, who) => {
                let sl = &self.slots[i];
                let m = self.markets()[sl.market];
                let by = self.key_of(sl.owner, who);
                Some(if sl.swap != 0 {
                    let (_, tin, tout) = self.swap_route(sl);
                    w.close_swap(&mut n.db, sl.owner, sl.nonce, tin, tout, by)
                } else if sl.shift { w.close_shift(&mut n.db, m, self.markets()[1 - sl.market], sl.owner, sl.nonce, by) } else { w.close_order(&mut n.db, m, sl.owner, sl.receiver, sl.nonce, sl.side, sl.increase, by) })
            }
            Act::Price(k) => {
                n.price = k;
                w.set_feeds(&mut n.db, s.now, PRICES[k].0, PRICES[k].1);
                None
            }
            Act::Adv(dt) => {
                n.now += dt;
                w.set_feeds(&mut n.db, n.now, PRICES[s.price].0, PRICES[s.price].1);
                None
            }
            Act::Liquidate(p, who) => {
                let (owner, mi, side) = self.positions[p];
                let m = self.markets()[mi];
                let by = self.key_of(owner, who);
                n.liq_nonce = n.liq_nonce.wrapping_add(1);
                let r = w.liquidate(&mut n.db, m, owner, [0xE0 ^ n.liq_nonce; 32], side, by);
                if r.is_err() {
                    n.liq_nonce = s.liq_nonce;
                }
                Some(r)
            }
            Act::ClaimFees(is_long) => Some(w.claim_fees(&mut n.db, self.markets()[0], if is_long { w.a } else { w.b }, w.admin)),
        };
        let Some(res) = res else {
            out.label = "env";
            return n;
        };
        out.label = if res.is_ok() { "ok" } else { "err" };
        if let Err(e) = &res {
            if e.is_panic() {
                // an abort is a failed transaction: nothing is committed (the property allows executions that fail hard)
                out.count("instructions_aborted_by_a_panic", 1);
            }
            if matches!(e, TxError::Runtime(_)) {
                out.fail("C23/runtime_rule_violated", format!("{a:?}: {e:?}"));
            }
        }
        for (i, sl) in self.slots.iter().enumerate() {
            let (old, new) = (s.phase[i], self.phase_on_chain(&n.db, sl));
            n.phase[i] = new;
            if !on23 {
                continue;
            }
            let touched = matches!(*a, Act::Create(j) | Act::Exec(j, _) | Act::Close(j, _) if j == i);
            let legal = match (old, new) {
                (x, y) if x == y => true,
                (Phase::Absent, Phase::Pending) => matches!(a, Act::Create(_)) && touched,
                (Phase::Pending, Phase::Completed) | (Phase::Pending, Phase::Cancelled) => matches!(a, Act::Exec(_, Who::Keeper)) && touched,
                (_, Phase::Absent) => matches!(a, Act::Close(..)) && touched,
                _ => false,
            };
            if !legal {
                out.fail("C23/illegal_state_transition", format!("{a:?}: order slot {i} moved {old:?} -> {new:?}"));
            }
        }
        if let (Act::Liquidate(_, who), true) = (a, res.is_ok()) {
            out.count("liquidations", 1);
            if *who != Who::Keeper {
                out.fail("C23/liquidated_by_non_keeper", format!("{a:?} succeeded"));
            }
        }
        if on23 {
            match *a {
                Act::Exec(i, who) => {
                    let sl = &self.slots[i];
                    if who != Who::Keeper && res.is_ok() {
                        out.fail("C23/executed_by_non_keeper", format!("{a:?} succeeded"));
                    }
                    if s.phase[i] != Phase::Pending && res.is_ok() {
                        out.fail("C23/executed_twice_or_absent", format!("{a:?} succeeded in phase {:?}", s.phase[i]));
                    }
                    if res.is_ok() {
                        let acc = self.order_account(sl);
                        let (l0, l1) = (s.db.get(&acc).lamports, n.db.get(&acc).lamports);
                        if l1 + 5_000 < l0 {
                            out.fail("C23/more_than_the_execution_fee_charged", format!("{a:?}: order account lamports {l0} -> {l1}"));
                        }
                    }
                    if res.is_ok() && who == Who::Keeper {
                        if sl.unreachable_price && n.phase[i] != Phase::Cancelled {
                            out.fail("C23/unacceptable_price_not_cancelled", format!("{a:?}: phase {:?}", n.phase[i]));
                        }
                        if n.phase[i] == Phase::Cancelled {
                            out.count("orders_cancelled_by_execution", 1);
                            let views_after: Vec<Vec<u128>> = self.markets().iter().map(|m| market_view(w, &n.db, m)).collect();
                            if views_after != views_before {
                                out.fail("C23/cancelled_execution_touched_a_market", format!("{a:?}: market state before {views_before:?} after {views_after:?}"));
                            }
                            if (token_amount(&n.db, &w.vault(&w.a)), token_amount(&n.db, &w.vault(&w.b))) != vaults_before {
                                out.fail("C23/cancelled_execution_moved_vault_tokens", format!("{a:?}"));
                            }
                            if self.escrow(&n.db, sl) != s.snap[i].escrow {
                                out.fail("C23/cancelled_execution_did_not_restore_escrow", format!("{a:?}: escrow {:?}, at creation {:?}", self.escrow(&n.db, sl), s.snap[i].escrow));
                            }
                            // nor any position
                            for (owner, mi, side) in &self.positions {
                                let k = w.position_pda(owner, self.markets()[*mi], *side);
                                // (an empty position account may be removed together with the failed order: it holds nothing)
                                let view = |d: &Db| d.pod::<Position>(&k).map(|p| (p.state.size_in_usd, p.state.size_in_tokens, p.state.collateral_amount)).unwrap_or((0, 0, 0));
                                if view(&s.db) != view(&n.db) {
                                    out.fail("C23/cancelled_execution_touched_a_position", format!("{a:?}: position of {owner}: (size, size in tokens, collateral) {:?} -> {:?}", view(&s.db), view(&n.db)));
                                }
                            }
                        } else if n.phase[i] == Phase::Completed {
                            out.count("orders_completed", 1);
                        }
                    }
                }
                Act::Close(i, who) => {
                    let sl = &self.slots[i];
                    let expect = s.phase[i] != Phase::Absent && match who { Who::Owner => true, Who::Keeper => s.phase[i] != Phase::Pending, Who::Stranger => false };
                    if res.is_ok() != expect {
                        let key = if res.is_ok() { if who == Who::Stranger { "C23/closed_by_stranger" } else { "C23/pending_action_closed_by_keeper" } } else { "C23/legitimate_close_rejected" };
                        out.fail(key, format!("{a:?} in phase {:?} returned {res:?}", s.phase[i]));
                    }
                    if res.is_ok() {
                        let (before, after) = (self.holdings(&s.db, &sl.owner), self.holdings(&n.db, &sl.owner));
                        let (rbefore, rafter) = (self.holdings(&s.db, &sl.receiver), self.holdings(&n.db, &sl.receiver));
                        let esc = self.escrow(&s.db, sl);
                        // the input funds of an action that did not complete go back to the owner; what a completed one
                        // produced goes to the receiver
                        let add = |x: [u64; 4], y: [u64; 4]| [x[0] + y[0], x[1] + y[1], x[2] + y[2], x[3] + y[3]];
                        let to_owner = s.phase[i] != Phase::Completed || sl.receiver == sl.owner;
                        let ok = if sl.receiver == sl.owner {
                            after.0 == add(before.0, esc)
                        } else if to_owner {
                            after.0 == add(before.0, esc) && rafter.0 == rbefore.0
                        } else {
                            rafter.0 == add(rbefore.0, esc) && after.0 == before.0
                        };
                        if !ok {
                            out.fail("C23/escrow_not_returned", format!("{a:?} ({:?}): escrow {esc:?}; owner held {before:?} and now holds {after:?}; receiver held {rbefore:?} and now holds {rafter:?}", s.phase[i]));
                        }
                        if matches!(s.phase[i], Phase::Pending | Phase::Cancelled) && esc != s.snap[i].escrow {
                            out.fail("C23/escrow_not_returned", format!("{a:?} ({:?}): escrow at close {esc:?}, at creation {:?}", s.phase[i], s.snap[i].escrow));
                        }
                        if s.phase[i] == Phase::Completed && (sl.increase || sl.shift) && sl.swap != 2 && esc != [0; 4] && s.snap[i].escrow == esc {
                            out.fail("C23/completed_action_escrow_wrong", format!("{a:?}: a completed increase still holds its collateral {esc:?}"));
                        }
                        let action_lamports = s.db.get(&self.order_account(sl)).lamports;
                        let new_atas = [ata(&sl.owner, &w.a), ata(&sl.owner, &w.b), ata(&sl.owner, &w.m1.market_token), ata(&sl.owner, &w.m2.market_token)].iter().filter(|k| !s.db.exists(k) && n.db.exists(k)).count() as u64;
                        // when a keeper closes, the rent and fee still go to the owner / rent receiver
                        if who == Who::Owner && (after.1 as i128) < before.1 as i128 + action_lamports as i128 - (new_atas * 2_039_280) as i128 {
                            out.fail("C23/execution_fee_not_refunded", format!("{a:?}: owner lamports {} -> {}, the action account held {action_lamports}", before.1, after.1));
                        }
                        if self.escrow(&n.db, sl) != [0; 4] {
                            out.fail("C23/tokens_left_in_escrow_after_close", format!("{a:?}: {:?}", self.escrow(&n.db, sl)));
                        }
                    }
                }
                _ => {}
            }
        }
        if res.is_ok() && self.props & P22 != 0 {
            self.solvency(&n.db, &format!("{a:?}"), out);
        }
        n
    }
}

/// build the world, the machine and the start state
pub fn build(props: u32, th: bool) -> (Perp, St) {
    let (mut db, w) = world::build();
    W::set_time(1_000);
    let seed = [9u8; 32];
    for m in [w.m1.clone(), w.m2.clone()] {
        w.create_deposit(&mut db, &m, w.user2, seed, 400_000_000, 5_000_000_000, 0, w.user2).expect("seed create");
        w.execute_deposit(&mut db, &m, w.user2, seed, w.keeper, true).expect("seed execute");
        w.close_deposit(&mut db, &m, w.user2, seed, w.user2).expect("seed close");
    }
    for u in [w.user, w.user2] {
        w.prepare_user(&mut db, u).expect("prepare_user");
    }
    w.prepare_event_buffer(&mut db, w.keeper, 0).expect("event buffer");
    w.prepare_event_buffer(&mut db, w.stranger, 0).expect("event buffer");
    let long_b = Side { is_long: true, collateral_long: false };
    let short_a = Side { is_long: false, collateral_long: true };
    let positions = vec![(w.user, 0, long_b), (w.user2, 0, short_a), (w.user, 1, long_b)];
    let slots = vec![
        Slot { owner: w.user, receiver: w.user, market: 0, side: long_b, increase: true, collateral: 120_000_000, size: 300 * UNIT, unreachable_price: false, shift: false, swap: 0, nonce: [0x11; 32] },
        Slot { owner: w.user, receiver: w.user, market: 0, side: long_b, increase: false, collateral: 0, size: 300 * UNIT, unreachable_price: false, shift: false, swap: 0, nonce: [0x12; 32] },
        Slot { owner: w.user2, receiver: w.user2, market: 0, side: short_a, increase: true, collateral: 10_000_000, size: 400 * UNIT, unreachable_price: false, shift: false, swap: 0, nonce: [0x13; 32] },
        Slot { owner: w.user, receiver: w.stranger, market: 0, side: long_b, increase: false, collateral: 10_000_000, size: 100 * UNIT, unreachable_price: false, shift: false, swap: 0, nonce: [0x14; 32] },
        Slot { owner: w.user, receiver: w.stranger, market: 0, side: long_b, increase: true, collateral: 50_000_000, size: 100 * UNIT, unreachable_price: true, shift: false, swap: 0, nonce: [0x15; 32] },
        Slot { owner: w.user2, receiver: w.user2, market: 0, side: short_a, increase: false, collateral: 0, size: 400 * UNIT, unreachable_price: false, shift: false, swap: 0, nonce: [0x16; 32] },
        Slot { owner: w.user, receiver: w.user, market: 1, side: long_b, increase: true, collateral: 60_000_000, size: 200 * UNIT, unreachable_price: false, shift: false, swap: 0, nonce: [0x17; 32] },
        // shifts of the liquidity provider's market tokens between the two markets (one with an unreachable minimum)
        Slot { owner: w.user2, receiver: w.user2, market: 0, side: long_b, increase: false, collateral: 900_000_000_000, size: 0, unreachable_price: false, shift: true, swap: 0, nonce: [0x18; 32] },
        Slot { owner: w.user2, receiver: w.user2, market: 1, side: long_b, increase: false, collateral: 500_000_000_000, size: 0, unreachable_price: true, shift: true, swap: 0, nonce: [0x19; 32] },
        // market swap orders: one hop, two hops through both markets, one with an unreachable minimum output
        Slot { owner: w.user, receiver: w.user, market: 0, side: long_b, increase: true, collateral: 5_000_000, size: 0, unreachable_price: false, shift: false, swap: 1, nonce: [0x1a; 32] },
        Slot { owner: w.user, receiver: w.user, market: 1, side: long_b, increase: true, collateral: 40_000_000, size: 0, unreachable_price: false, shift: false, swap: 2, nonce: [0x1b; 32] },
        Slot { owner: w.user2, receiver: w.user2, market: 1, side: long_b, increase: true, collateral: 3_000_000, size: 0, unreachable_price: true, shift: false, swap: 1, nonce: [0x1c; 32] },
    ];
    let order_slots = if th { 7 } else { 5 };
    let mut acts = vec![];
    let used: Vec<usize> = (0..order_slots).chain(if th { vec![7usize, 8, 9, 10, 11] } else { vec![7usize, 8, 9, 11] }).collect();
    for i in used {
        acts.extend([Act::Create(i), Act::Exec(i, Who::Keeper), Act::Close(i, Who::Owner)]);
        if props & P23 != 0 {
            acts.extend([Act::Exec(i, Who::Stranger), Act::Close(i, Who::Keeper), Act::Close(i, Who::Stranger)]);
        }
    }
    acts.extend([Act::Price(1), Act::Price(2), Act::Price(3), Act::Adv(3_600)]);
    if th {
        acts.extend([Act::Price(0), Act::Price(4), Act::Price(5), Act::Adv(30), Act::Adv(100_000)]);
    }
    acts.extend([Act::Liquidate(0, Who::Keeper), Act::Liquidate(1, Who::Keeper)]);
    if props & P23 != 0 {
        acts.push(Act::Liquidate(0, Who::Stranger));
    }
    if props & P22 != 0 {
        acts.extend([Act::ClaimFees(true), Act::ClaimFees(false)]);
    }
    NPOS.min(positions.len());
    let start = St { db, now: 1_000, price: 0, phase: [Phase::Absent; NSLOT], snap: [Snapshot::default(); NSLOT], liq_nonce: 0 };
    (Perp { w, acts, slots, positions, props }, start)
}

pub fn run_section(rep: &mut Report, cli: &Cli, props: u32) {
    let th = cli.tier.thorough();
    let (m, start) = build(props, th);
    // a second start state in which both traders' positions are already open (orders executed and closed)
    let mut opened = start.clone();
    for i in [0usize, 2] {
        for a in [Act::Create(i), Act::Exec(i, Who::Keeper), Act::Close(i, Who::Owner)] {
            let mut out = StepOut::default();
            opened = m.step(&opened, &a, &mut out);
            assert!(out.violations.is_empty() && out.label == "ok", "perp start state: {a:?}: {} {:?}", out.label, out.violations);
        }
    }
    let starts = vec![start, opened];
    if let Some(rv) = &cli.replay {
        e2::replay_into(rep, &m, &starts, rv);
        return;
    }
    // (depth 6 needs more than the 40 GB address-space cap: about 8.4 successors per state and a ledger copy in every state)
    let depth = if th { 5 } else { 4 };
    let o = e2::explore(rep, "position-order histories over two markets", &m, starts, &e2::Config { depth, max_states: 6_000_000 }, json!({"machine": "perp", "thorough": th}));
    let mut needed = vec!["Create:ok", "Exec:ok", "Exec:err", "Close:ok", "Liquidate:ok", "Liquidate:err"];
    if props & P23 != 0 {
        needed.push("Close:err");
    }
    for k in needed {
        if o.histogram.get(k).copied().unwrap_or(0) == 0 && rep.violations_total() == 0 {
            rep.machinery(format!("vacuous position-order exploration: outcome {k} never occurred"));
        }
    }
    if props & P23 != 0 {
        for k in ["orders_cancelled_by_execution", "orders_completed"] {
            if o.counters.get(k).copied().unwrap_or(0) == 0 && rep.violations_total() == 0 {
                rep.machinery(format!("vacuous position-order exploration: {k} never occurred"));
            }
        }
    }
}
