//! C09, auto-deleveraging clause (E3): `update_adl_state` and `auto_deleverage` of the real store on real
//! positions: an ADL order succeeds only if the pnl-to-pool factor exceeded its limit, and it strictly lowers that
//! factor without going below the configured minimum. Liquidations in the same machine: succeed only for a
//! position that is liquidatable under the liquidation thresholds, and close the whole position.
use std::sync::Arc;

use anchor_lang::prelude::*;
use gmsol_model::{price::{Price, Prices}, BaseMarketExt, PnlFactorKind, PositionExt};
use gmsol_programs::model::{MarketModel, PositionModel};
use mc_core::{
    e2::{self, Machine, StepOut},
    json, Cli, Report,
};

use crate::orders::Side;
use crate::svm::{process, Db};
use crate::world::{self, ix, MarketKeys, W};

const UNIT: u128 = 100_000_000_000_000_000_000;
/// ADL limit 1 %, minimum after ADL 0.5 % (unit 10^20)
const ADL_LIMIT: u128 = UNIT / 100;
const ADL_MIN_AFTER: u128 = UNIT / 200;

#[derive(Clone, Copy, Debug)]
enum Act {
    Price(usize),
    /// refresh the ADL flag of one side
    UpdateAdl(bool),
    /// deleverage position p by 1/den of its size
    Adl(usize, u128),
    /// liquidate position p
    Liquidate(usize),
    Adv(i64),
}

const PRICES: [(u128, u128); 5] = [(12_0000_0000, 12_0000_0000), (13_5000_0000, 13_6000_0000), (15_0000_0000, 15_0000_0000), (10_5000_0000, 10_6000_0000), (8_0000_0000, 8_0000_0000)];

#[derive(Clone)]
struct St {
    db: Db,
    now: i64,
    price: usize,
    nonce: u8,
}

struct Adl {
    w: W,
    acts: Vec<Act>,
    positions: Vec<(Pubkey, Side)>,
}

impl Adl {
    fn m(&self) -> &MarketKeys {
        &self.w.m1
    }
    fn prices(&self, db: &Db) -> Prices<u128> {
        let get = |feed: &Pubkey| -> Price<u128> {
            let f: gmsol_store::states::PriceFeed = db.pod(feed).expect("feed");
            let conv = |v: u128| gmsol_utils::price::Decimal::try_from_price(v, 8, 6, 4).expect("price").to_unit_price();
            Price { min: conv(*f.price().min_price()), max: conv(*f.price().max_price()) }
        };
        let (a, b) = (get(&self.w.feed_a), get(&self.w.feed_b));
        Prices { index_token_price: a, long_token_price: a, short_token_price: b }
    }
    fn model(&self, db: &Db) -> MarketModel {
        let acc = db.get(&self.m().market);
        let sdk: gmsol_programs::gmsol_store::accounts::Market = bytemuck::pod_read_unaligned(&acc.data[8..8 + std::mem::size_of::<gmsol_programs::gmsol_store::accounts::Market>()]);
        MarketModel::from_parts(Arc::new(sdk), world::mint_supply(db, &self.m().market_token))
    }
    /// pnl-to-pool factor of one side (maximised), from the stored market
    fn factor(&self, db: &Db, is_long: bool) -> Option<i128> {
        self.model(db).pnl_factor(&self.prices(db), is_long, true).ok()
    }
    fn position(&self, db: &Db, p: usize) -> Option<gmsol_programs::gmsol_store::accounts::Position> {
        let (owner, side) = self.positions[p];
        let k = self.w.position_pda(&owner, self.m(), side);
        db.accounts.get(&k).filter(|a| a.data.len() >= 8 + std::mem::size_of::<gmsol_programs::gmsol_store::accounts::Position>()).map(|a| bytemuck::pod_read_unaligned(&a.data[8..8 + std::mem::size_of::<gmsol_programs::gmsol_store::accounts::Position>()]))
    }
    /// liquidatable under the liquidation thresholds, by the model on the stored accounts
    fn liquidatable(&self, db: &Db, p: usize) -> Option<bool> {
        let pos = self.position(db, p)?;
        let pm = PositionModel::new(self.model(db), Arc::new(pos)).ok()?;
        pm.check_liquidatable(&self.prices(db), true, true).ok().map(|r| r.is_some())
    }
    fn adl_ix(&self, db: &mut Db, p: usize, size: u128, nonce: [u8; 32]) -> solana_program::instruction::Instruction {
        let (owner, side) = self.positions[p];
        // same accounts as a liquidation; the instruction differs. The keeper prepares the claimable accounts first.
        let (ts0, _) = crate::svm::clock();
        let holding = *db.pod::<gmsol_store::states::Store>(&self.w.store).expect("store").holding();
        let pnl_token = if side.is_long { self.m().long } else { self.m().short };
        for (mint, who) in [(self.m().long, owner), (self.m().short, owner), (pnl_token, holding)] {
            let _ = self.w.use_claimable(db, mint, who, ts0, self.w.keeper);
        }
        let mut i = self.w.liquidate_ix(db, self.m(), owner, nonce, side, self.w.keeper);
        let (ts, _) = crate::svm::clock();
        use anchor_lang::InstructionData;
        i.data = gmsol_store::instruction::AutoDeleverage { nonce, recent_timestamp: ts, size_delta_in_usd: size, execution_fee: 5_000 }.data();
        i
    }
}

impl Machine for Adl {
    type State = St;
    type Action = Act;
    fn actions(&self) -> &[Act] {
        &self.acts
    }
    fn key(&self, s: &St) -> u128 {
        use std::hash::Hasher;
        let mut h = std::collections::hash_map::DefaultHasher::new();
        s.db.hash_into(&mut h);
        mc_core::hash128(&(h.finish(), s.now, s.price))
    }
    fn step(&self, s: &St, a: &Act, out: &mut StepOut) -> St {
        W::set_time(s.now);
        gmsol_programs::model::clock_verif::set_now(Some(s.now));
        crate::svm::set_last_restart_slot(0);
        let mut n = s.clone();
        let w = &self.w;
        match *a {
            Act::Price(k) => {
                n.price = k;
                w.set_feeds(&mut n.db, s.now, PRICES[k], (1_0000_0000, 1_0000_0000));
                out.label = "env";
            }
            Act::Adv(dt) => {
                n.now += dt;
                w.set_feeds(&mut n.db, n.now, PRICES[s.price], (1_0000_0000, 1_0000_0000));
                out.label = "env";
            }
            Act::UpdateAdl(is_long) => {
                let accounts = gmsol_store::accounts::UpdateAdlState { authority: w.keeper, store: w.store, token_map: w.token_map, oracle: w.oracle, market: self.m().market, chainlink_program: None };
                let mut i = ix(w.pid, accounts, gmsol_store::instruction::UpdateAdlState { is_long });
                i.accounts.extend(w.feeds_for(self.m()));
                let r = process(&mut n.db, &i, &[w.keeper]);
                out.label = if r.is_ok() { "ok" } else { "err" };
                if r.is_ok() {
                    let mk: gmsol_store::states::Market = w.market(&n.db, self.m());
                    let exceeded = self.factor(&s.db, is_long).map(|f| f > 0 && f as u128 > ADL_LIMIT);
                    out.count(if mk.is_adl_enabled(is_long) { "adl_flag_set" } else { "adl_flag_cleared" }, 1);
                    if Some(mk.is_adl_enabled(is_long)) != exceeded {
                        out.count("adl_flag_differs_from_factor_test", 1);
                    }
                }
            }
            Act::Adl(p, den) => {
                let Some(pos) = self.position(&s.db, p) else {
                    out.label = "noop";
                    out.prune = true;
                    return n;
                };
                let (_, side) = self.positions[p];
                let size = pos.state.size_in_usd / den;
                let before = self.factor(&s.db, side.is_long);
                n.nonce = s.nonce.wrapping_add(1);
                let i = self.adl_ix(&mut n.db, p, size, [0xA0 ^ n.nonce; 32]);
                let pre = n.db.clone();
                let r = process(&mut n.db, &i, &[w.keeper]);
                out.label = if r.is_ok() { "ok" } else { "err" };
                if let Err(e) = &r {
                    if e.is_panic() {
                        out.fail("C09/panic", format!("{a:?}: {e:?}"));
                    }
                    n.db = pre;
                    n.nonce = s.nonce;
                    return n;
                }
                let after = self.factor(&n.db, side.is_long);
                match (before, after) {
                    (Some(b), Some(af)) => {
                        out.count("adl_orders_executed", 1);
                        if !(b > 0 && b as u128 > ADL_LIMIT) {
                            out.fail("C09/adl_executed_without_exceeded_factor", format!("{a:?}: the pnl-to-pool factor was {b} (limit {ADL_LIMIT}) and the order succeeded"));
                        }
                        if af >= b {
                            out.fail("C09/adl_did_not_lower_the_factor", format!("{a:?}: factor {b} -> {af}"));
                        }
                        if af < ADL_MIN_AFTER as i128 {
                            out.fail("C09/adl_went_below_the_minimum_factor", format!("{a:?}: factor {b} -> {af}, minimum after ADL {ADL_MIN_AFTER}"));
                        }
                    }
                    other => out.fail("C09/machinery_factor_not_computable", format!("{a:?}: {other:?}")),
                }
            }
            Act::Liquidate(p) => {
                let Some(pos) = self.position(&s.db, p) else {
                    out.label = "noop";
                    out.prune = true;
                    return n;
                };
                let (owner, side) = self.positions[p];
                let liq = self.liquidatable(&s.db, p);
                n.nonce = s.nonce.wrapping_add(1);
                let pre = n.db.clone();
                let r = w.liquidate(&mut n.db, self.m(), owner, [0xB0 ^ n.nonce; 32], side, w.keeper);
                out.label = if r.is_ok() { "ok" } else { "err" };
                match &r {
                    Err(e) => {
                        if e.is_panic() {
                            out.fail("C09/panic", format!("{a:?}: {e:?}"));
                        }
                        n.db = pre;
                        n.nonce = s.nonce;
                        if liq == Some(true) {
                            out.count("liquidatable_position_not_liquidated", 1);
                        }
                    }
                    Ok(()) => {
                        out.count("liquidations", 1);
                        if liq != Some(true) {
                            out.fail("C09/healthy_position_liquidated", format!("{a:?}: position of size {} collateral {} is not liquidatable under the liquidation thresholds at the published prices ({liq:?}) and was liquidated", pos.state.size_in_usd, pos.state.collateral_amount));
                        }
                        if let Some(left) = self.position(&n.db, p) {
                            if left.state.size_in_usd != 0 || left.state.collateral_amount != 0 {
                                out.fail("C09/liquidation_left_part_of_the_position", format!("{a:?}: size {} collateral {} left", left.state.size_in_usd, left.state.collateral_amount));
                            }
                        }
                    }
                }
            }
        }
        n
    }
}

pub fn run(cli: &Cli) -> Report {
    let mut rep = Report::new(cli, "model_checking");
    rep.rule("E3 (program part of C09), breadth first: real positions (a long with short-token collateral, a short with long-token collateral, a small long) on a real market whose ADL limit is configured to 1 % and whose minimum factor after ADL to 0.5 %; actions: five price sets (two with a spread), update_adl_state for either side, auto_deleverage of 1/4, 1/2 or all of a position, liquidate, clock advance. An executed ADL order requires the pnl-to-pool factor (model on the stored accounts, maximised) to have exceeded the limit, must strictly lower it and must not take it below the minimum; a liquidation succeeds only for a position the model reports liquidatable under the liquidation thresholds at the published prices and leaves nothing of the position");
    rep.assume("svm-lite runtime trusted; factors and the liquidation predicate of the reference come from the SDK model on the stored account bytes (validated against the program by C40, against the definition by the model-level part of this check); what is decided here is the program's use of them");
    let th = cli.tier.thorough();
    let (mut db, w) = world::build();
    W::set_time(1_000);
    gmsol_programs::model::clock_verif::set_now(Some(1_000));
    let seed = [9u8; 32];
    w.create_deposit(&mut db, &w.m1, w.user2, seed, 400_000_000, 5_000_000_000, 0, w.user2).expect("seed create");
    w.execute_deposit(&mut db, &w.m1, w.user2, seed, w.keeper, true).expect("seed execute");
    for key in ["max_pnl_factor_for_long_adl", "max_pnl_factor_for_short_adl"] {
        process(&mut db, &ix(w.pid, gmsol_store::accounts::UpdateMarketConfig { authority: w.keeper, store: w.store, market: w.m1.market }, gmsol_store::instruction::UpdateMarketConfig { key: key.into(), value: ADL_LIMIT }), &[w.keeper]).unwrap_or_else(|e| panic!("config {key}: {e:?}"));
    }
    for key in ["min_pnl_factor_after_long_adl", "min_pnl_factor_after_short_adl"] {
        process(&mut db, &ix(w.pid, gmsol_store::accounts::UpdateMarketConfig { authority: w.keeper, store: w.store, market: w.m1.market }, gmsol_store::instruction::UpdateMarketConfig { key: key.into(), value: ADL_MIN_AFTER }), &[w.keeper]).unwrap_or_else(|e| panic!("config {key}: {e:?}"));
    }
    for u in [w.user, w.user2, w.stranger] {
        w.prepare_user(&mut db, u).expect("prepare_user");
    }
    db.set(world::ata(&w.stranger, &w.b), world::token_acc(w.b, w.stranger, 1_000_000_000));
    w.prepare_event_buffer(&mut db, w.keeper, 0).expect("event buffer");
    let long_b = Side { is_long: true, collateral_long: false };
    let short_a = Side { is_long: false, collateral_long: true };
    let positions = vec![(w.user, long_b), (w.user2, short_a), (w.stranger, long_b)];
    for (k, (owner, side, coll, size)) in [(w.user, long_b, 150_000_000u64, 600u128), (w.user2, short_a, 12_000_000, 500), (w.stranger, long_b, 30_000_000, 100)].into_iter().enumerate() {
        let n = [0x90 + k as u8; 32];
        w.prepare_position(&mut db, &w.m1, owner, side).expect("prepare_position");
        w.create_increase(&mut db, &w.m1, owner, n, side, coll, size * UNIT).expect("create increase");
        w.execute_increase(&mut db, &w.m1, owner, n, side, w.keeper, true).expect("execute increase");
        w.close_order(&mut db, &w.m1, owner, owner, n, side, true, owner).expect("close order");
    }
    let mut acts = vec![Act::Price(1), Act::Price(2), Act::Price(3), Act::Price(4), Act::UpdateAdl(true), Act::UpdateAdl(false)];
    for p in 0..2 {
        acts.extend([Act::Adl(p, 2), Act::Adl(p, 1), Act::Liquidate(p)]);
    }
    if th {
        acts.extend([Act::Price(0), Act::Adl(0, 4), Act::Adl(1, 4), Act::Adl(2, 1), Act::Liquidate(2), Act::Adv(3_600)]);
    }
    let m = Adl { w, acts, positions };
    let start = St { db, now: 1_000, price: 0, nonce: 0 };
    if let Some(rv) = &cli.replay {
        e2::replay_into(&mut rep, &m, &[start], rv);
        gmsol_programs::model::clock_verif::set_now(None);
        return rep;
    }
    let depth = if th { 6 } else { 5 };
    let o = e2::explore(&mut rep, "auto-deleveraging and liquidation histories", &m, vec![start], &e2::Config { depth, max_states: 3_000_000 }, json!({"machine": "adl"}));
    for k in ["Adl:ok", "Adl:err", "Liquidate:ok", "Liquidate:err", "UpdateAdl:ok"] {
        if o.histogram.get(k).copied().unwrap_or(0) == 0 && rep.violations_total() == 0 {
            rep.machinery(format!("vacuous ADL exploration: outcome {k} never occurred"));
        }
    }
    for k in ["adl_flag_set", "adl_flag_cleared", "adl_orders_executed"] {
        if o.counters.get(k).copied().unwrap_or(0) == 0 && rep.violations_total() == 0 {
            rep.machinery(format!("vacuous ADL exploration: {k} never occurred"));
        }
    }
    gmsol_programs::model::clock_verif::set_now(None);
    rep
}
