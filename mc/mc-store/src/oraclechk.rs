//! Oracle-side properties on the real store code through the visibility hooks:
//! C24 (price validation: age / future / deviation / range / well-formedness),
//! C25 (custom price feed updates, E2), C29 (price adjustment band, E1).
use anchor_lang::prelude::*;
use gmsol_store::states::oracle::verif as ov;
use gmsol_store::states::{PriceFeed, PriceProviderKind, PriceValidator, Store};
use gmsol_utils::price::{feed_price::PriceFeedPrice, Decimal, Price};
use gmsol_utils::token_config::{TokenConfig as TC, UpdateTokenConfigParams};
use mc_core::{
    e1,
    e2::{self, Machine, StepOut},
    json, Cli, Report,
};

use crate::svm;

const UNIT: u128 = gmsol_store::constants::MARKET_USD_UNIT;

fn new_store() -> Box<Store> {
    svm::install();
    let mut store: Box<Store> = Box::new(bytemuck::Zeroable::zeroed());
    store.init(svm::addr("o-auth"), "", 255, svm::addr("o-r"), svm::addr("o-h")).expect("store init");
    store
}

fn token_config(adjustment: u32, max_deviation_factor: Option<u128>) -> Option<TC> {
    let mut tc: TC = bytemuck::Zeroable::zeroed();
    let mut params = UpdateTokenConfigParams::default();
    params.timestamp_adjustments[0] = adjustment;
    params.feeds[0] = svm::addr("o-feed");
    params.expected_provider = Some(0);
    gmsol_store::verif::token_config_update(&mut tc, "T", false, 6, params, true, true).ok()?;
    if let Some(f) = max_deviation_factor {
        // stored as a ratio with 10^12 granularity; `None` when the factor is not representable
        let kind = PriceProviderKind::ChainlinkDataStreams;
        let fc = (*tc.get_feed_config(&kind).ok()?).with_max_deviation_factor(Some(f)).ok()?;
        tc.set_feed_config(&kind, fc).ok()?;
    }
    Some(tc)
}

/// the deviation factor the token config really holds
fn effective_factor(tc: &TC) -> Option<u128> {
    tc.max_deviation_factor(&PriceProviderKind::ChainlinkDataStreams).ok().flatten()
}

fn dec(v: u32, m: u8) -> Decimal {
    Decimal { value: v, decimal_multiplier: m }
}

// ------------------------------------------------------------------------------------------ C24

pub fn run_c24(cli: &Cli) -> Report {
    let mut rep = Report::new(cli, "exploration");
    rep.rule("E1 on the real PriceValidator / SmallPrices (through visibility hooks): (a) age and future rules over boundary alphabets of clock, oracle timestamp offset, timestamp adjustment, max age and future excess (i64/u64/u32 limits) against the statement evaluated in i128; (b) deviation rule over dense prices x reference x factors x multipliers; (c) timestamp-range rule over all pairs/triples of validated timestamps; (d) well-formedness (0 < min <= max, equal multipliers) over a dense grid; non-trivial = the validator accepted the price and the acceptance was compared with the statement; (e) see assumptions");
    rep.assume("(e) instruction level: execute_deposit over all pairs of eight feed kinds (good, stale, future, far from the other feed, wrong provider, wrong feed id, inverted, zero) x three operation kinds (completes, fails softly, fails hard): a deposit is executed only with two good feeds, and the oracle account as the program leaves it in memory on return (observed also for failed, uncommitted instructions) is byte-identical to a cleared oracle; svm-lite runtime trusted");
    let th = cli.tier.thorough();
    if let Some(rv) = &cli.replay {
        rep.sample(json!({"note": "C24 cases are closed-form: re-run the quick tier", "case": rv}));
        rep.evaluations = 1;
        return rep;
    }
    // (a) time rules
    let ages: Vec<u64> = vec![0, 1, 30, 3600, u32::MAX as u64, i64::MAX as u64, u64::MAX];
    let nows: Vec<i64> = vec![i64::MIN, i64::MIN + 1, -1, 0, 1, 1000, i64::MAX - 31, i64::MAX - 1, i64::MAX];
    let mut dts: Vec<i64> = vec![-3601, -3600, -3599, -40, -31, -30, -29, -6, -5, -4, -2, -1, 0, 1, 2, 9, 10, 11, 3600, i64::MAX, i64::MIN];
    if th {
        dts.extend(-70..=70);
    }
    dts.sort();
    dts.dedup();
    e1::run(&mut rep, "age and future rules", &ages, |&max_age, sink| {
        let mut store = new_store();
        for future in [0u64, 1, 10, u32::MAX as u64, u64::MAX] {
            for adj in [0u32, 1, 5, 30, u32::MAX] {
                *store.get_amount_mut("oracle_max_age").unwrap() = max_age;
                *store.get_amount_mut("oracle_max_future_timestamp_excess").unwrap() = future;
                let Some(tc) = token_config(adj, None) else { continue };
                for &now in &nows {
                    for &dt in &dts {
                        let Some(ots) = now.checked_add(dt) else { continue };
                        svm::set_clock(now, 10);
                        let Ok(mut v) = PriceValidator::try_from(&*store) else { continue };
                        let price = Price { min: dec(10, 2), max: dec(10, 2) };
                        let r = mc_core::catch(|| ov::validate_one(&mut v, &tc, &PriceProviderKind::ChainlinkDataStreams, ots, 1, &price, None).is_ok());
                        let rp = || json!({"now": now, "oracle_ts": ots, "adjustment": adj, "max_age": max_age, "future": future});
                        let Ok(accepted) = r else {
                            sink.case(false);
                            sink.fail("C24/panic", format!("validate_one panicked: now {now} oracle ts {ots} adj {adj} max age {max_age}"), rp());
                            continue;
                        };
                        sink.case(accepted);
                        // the statement in i128: adjusted timestamp no older than max_age, raw timestamp not beyond now + future
                        let ts = ots as i128 - adj as i128;
                        let fresh = ts + max_age as i128 >= now as i128;
                        let not_future = ots as i128 <= now as i128 + future as i128;
                        if accepted && !fresh {
                            sink.fail("C24/stale_price_accepted", format!("now {now} oracle ts {ots} adjustment {adj} max age {max_age}"), rp());
                        }
                        if accepted && !not_future {
                            sink.fail("C24/future_price_accepted", format!("now {now} oracle ts {ots} future excess {future}"), rp());
                        }
                        if !accepted && fresh && not_future {
                            // rejection of a valid price is only legitimate when the i64 arithmetic cannot represent the bound
                            let overflow = ts < i64::MIN as i128 || ts + (max_age as i128) > i64::MAX as i128;
                            if !overflow {
                                sink.fail("C24/valid_price_rejected", format!("now {now} oracle ts {ots} adjustment {adj} max age {max_age} future {future}"), rp());
                            }
                        }
                    }
                }
            }
        }
    });
    // (b) deviation rule + well-formedness through the acceptance pipeline (validate_one then SmallPrices::from_price)
    let mults: Vec<u8> = vec![0, 1, 2, 10];
    let top: u32 = if th { 64 } else { 40 };
    e1::run(&mut rep, "deviation rule and well-formedness", &mults, |&mult, sink| {
        let store = new_store();
        svm::set_clock(1_000, 10);
        let step = 10u128.pow(mult as u32);
        let factors = [0u128, 1, UNIT / 1000, UNIT / 100, UNIT / 20, UNIT / 10, UNIT / 3, UNIT / 2, UNIT - 1, UNIT, 2 * UNIT];
        for &factor in &factors {
            let Some(tc) = token_config(0, Some(factor)) else { continue };
            let Some(factor) = effective_factor(&tc) else { continue };
            for minv in 0..=top {
                for maxv in 0..=top {
                    for refv in [None, Some(0u32), Some(1), Some(7), Some(20), Some(33), Some(40)] {
                        for max_mult in [mult, mult + 1] {
                            if max_mult != mult && (minv % 9 != 0 || maxv % 9 != 0) {
                                continue; // mismatching multipliers: a thinner grid is enough
                            }
                            let price = Price { min: dec(minv, mult), max: dec(maxv, max_mult) };
                            let refd = refv.map(|v| dec(v, mult));
                            let Ok(mut v) = PriceValidator::try_from(&*store) else { continue };
                            let r = mc_core::catch(|| {
                                ov::validate_one(&mut v, &tc, &PriceProviderKind::ChainlinkDataStreams, 1_000, 1, &price, refd.as_ref()).is_ok() && ov::small_prices(&price, false, true).is_ok()
                            });
                            let rp = || json!({"min": minv, "max": maxv, "mult": mult, "max_mult": max_mult, "ref": refv, "factor": factor.to_string()});
                            let Ok(accepted) = r else {
                                sink.case(false);
                                sink.fail("C24/panic", "validation pipeline panicked".into(), rp());
                                continue;
                            };
                            sink.case(accepted);
                            if !accepted {
                                continue;
                            }
                            if minv == 0 || max_mult != mult || minv > maxv {
                                sink.fail("C24/malformed_price_accepted", format!("min {minv}e{mult} max {maxv}e{max_mult}"), rp());
                                continue;
                            }
                            let (umin, umax) = (minv as u128 * step, maxv as u128 * step);
                            let refp = match refv { Some(v) => v as u128 * step, None => (umin + umax) / 2 };
                            // configured deviation, rounded up to one step of the price's own precision (as the validator defines it)
                            let dev = refp * factor / UNIT;
                            let dev_rounded = (dev + step - 1) / step * step;
                            if dev == 0 {
                                sink.count("deviation_check_skipped_because_band_is_zero");
                                continue;
                            }
                            if umin.abs_diff(refp) > dev_rounded || umax.abs_diff(refp) > dev_rounded {
                                sink.fail("C24/out_of_band_price_accepted", format!("price ({umin},{umax}) ref {refp} allowed deviation {dev_rounded}"), rp());
                            }
                        }
                    }
                }
            }
        }
    });
    // (c) range of timestamps across tokens
    let ranges: Vec<u64> = vec![0, 1, 10, u32::MAX as u64, u64::MAX];
    e1::run(&mut rep, "timestamp range across tokens", &ranges, |&range, sink| {
        let mut store = new_store();
        *store.get_amount_mut("oracle_max_timestamp_range").unwrap() = range;
        *store.get_amount_mut("oracle_max_age").unwrap() = u32::MAX as u64;
        *store.get_amount_mut("oracle_max_future_timestamp_excess").unwrap() = u32::MAX as u64;
        let tss: [i64; 9] = [-20, -11, -10, -9, -1, 0, 1, 10, 11];
        let price = Price { min: dec(10, 2), max: dec(10, 2) };
        for adj_a in [0u32, 1, 10] {
            for adj_b in [0u32, 1, 10] {
                let (Some(ta), Some(tb)) = (token_config(adj_a, None), token_config(adj_b, None)) else { continue };
                for &a in &tss {
                    for &b in &tss {
                        for third in [None, Some(0i64), Some(-10), Some(11)] {
                            svm::set_clock(1_000, 10);
                            let Ok(mut v) = PriceValidator::try_from(&*store) else { continue };
                            let mut all = vec![];
                            let mut ok = true;
                            for (tc, t, adj) in [(&ta, Some(a), adj_a), (&tb, Some(b), adj_b), (&ta, third, adj_a)] {
                                let Some(t) = t else { continue };
                                ok &= ov::validate_one(&mut v, tc, &PriceProviderKind::ChainlinkDataStreams, 1_000 + t, 5, &price, None).is_ok();
                                all.push(1_000 + t as i128 - adj as i128);
                            }
                            if !ok {
                                sink.case(false);
                                continue;
                            }
                            let r = mc_core::catch(|| ov::finish(v).ok());
                            let rp = || json!({"range": range, "a": a, "b": b, "third": third, "adj": [adj_a, adj_b]});
                            let Ok(r) = r else {
                                sink.case(false);
                                sink.fail("C24/panic", "finish panicked".into(), rp());
                                continue;
                            };
                            let spread = all.iter().max().unwrap() - all.iter().min().unwrap();
                            sink.case(r.is_some());
                            match r {
                                Some(Some((_slot, lo, hi))) => {
                                    if spread > range as i128 {
                                        sink.fail("C24/timestamp_spread_beyond_range_accepted", format!("adjusted timestamps {all:?} spread {spread} > {range}"), rp());
                                    }
                                    if lo as i128 != *all.iter().min().unwrap() || hi as i128 != *all.iter().max().unwrap() {
                                        sink.fail("C24/wrong_timestamp_range_reported", format!("reported ({lo},{hi}) for {all:?}"), rp());
                                    }
                                }
                                Some(None) => sink.fail("C24/wrong_timestamp_range_reported", "no range reported although prices were validated".into(), rp()),
                                None => {
                                    if spread <= range as i128 {
                                        sink.fail("C24/valid_price_rejected", format!("spread {spread} within {range} rejected"), rp());
                                    }
                                }
                            }
                        }
                    }
                }
            }
        }
    });
    instruction_use(&mut rep);
    rep
}

// ------------------------------------------------------------------------------------------ C29

pub fn run_c29(cli: &Cli) -> Report {
    let mut rep = Report::new(cli, "exploration");
    rep.rule("E1: try_adjust_price_with_max_deviation_factor on every (min, max) in a dense grid x reference (explicit or mid) x multiplier x deviation factor; an adjusted price that the acceptance pipeline (validator deviation rule + SmallPrices::from_price) lets through must lie inside reference +- deviation with min <= max; a price inside the band must not be changed; non-trivial = an adjustment was produced");
    if let Some(rv) = &cli.replay {
        rep.sample(json!({"note": "closed-form case: re-run the quick tier", "case": rv}));
        rep.evaluations = 1;
        return rep;
    }
    let th = cli.tier.thorough();
    let top: u32 = if th { 96 } else { 48 };
    let mults: Vec<u8> = vec![0, 1, 2, 9, 20];
    e1::run(&mut rep, "adjust then accept", &mults, |&mult, sink| {
        let store = new_store();
        svm::set_clock(1_000, 10);
        let step = 10u128.pow(mult as u32);
        let mut factors = vec![0u128, 1, UNIT / 1000, UNIT / 100, UNIT / 20, UNIT / 10, UNIT / 7, UNIT / 3, UNIT / 2, UNIT - 1, UNIT, UNIT + 1, 2 * UNIT, u128::MAX];
        if th {
            factors.extend((1..=20).map(|k| UNIT * k / 40));
        }
        for &factor in &factors {
            let Some(tc) = token_config(0, Some(factor)) else { continue };
            let Some(factor) = effective_factor(&tc) else { continue };
            for minv in 0..=top {
                for maxv in 0..=top {
                    for refv in [None, Some(0u32), Some(1), Some(7), Some(20), Some(33), Some(48), Some(u32::MAX)] {
                        let price = Price { min: dec(minv, mult), max: dec(maxv, mult) };
                        let refd = refv.map(|v| dec(v, mult));
                        let rp = || json!({"min": minv, "max": maxv, "mult": mult, "ref": refv, "factor": factor.to_string()});
                        let r = mc_core::catch(|| ov::try_adjust_price(&factor, &price, refd.as_ref()));
                        let Ok(r) = r else {
                            sink.case(false);
                            sink.fail("C29/panic", "try_adjust_price panicked".into(), rp());
                            continue;
                        };
                        sink.case(r.is_some());
                        let (umin, umax) = (minv as u128 * step, maxv as u128 * step);
                        let refp = match refv { Some(v) => v as u128 * step, None => (umin + umax) / 2 };
                        let Some(dev) = mc_core::big::fits(&(mc_core::big::bu(refp) * mc_core::big::bu(factor) / mc_core::big::bu(UNIT)), 128) else { continue };
                        let in_band = |p: u128| p.abs_diff(refp) <= dev;
                        match r {
                            None => {
                                // no adjustment: legitimate when the price already is in the band (or nothing can be computed)
                            }
                            Some(adj) => {
                                let (amin, amax) = (adj.min.to_unit_price(), adj.max.to_unit_price());
                                if in_band(umin) && in_band(umax) {
                                    sink.fail("C29/in_band_price_changed", format!("price ({umin},{umax}) ref {refp} dev {dev} became ({amin},{amax})"), rp());
                                }
                                // a bound that was inside the band must be untouched
                                if in_band(umin) && amin != umin || in_band(umax) && amax != umax {
                                    sink.fail("C29/in_band_bound_changed", format!("price ({umin},{umax}) ref {refp} dev {dev} became ({amin},{amax})"), rp());
                                }
                                // clamping moves every out-of-band bound into the band whenever the band contains a
                                // value representable at the price's precision (otherwise the result is rejected below)
                                let lo_rep = (refp.saturating_sub(dev) + step - 1) / step * step; // smallest representable value >= ref - dev
                                let hi_rep = refp.saturating_add(dev) / step * step; // largest representable value <= ref + dev
                                let band_representable = lo_rep <= hi_rep && in_band(lo_rep) && in_band(hi_rep) && hi_rep / step <= u32::MAX as u128;
                                if band_representable && (!in_band(amin) || !in_band(amax)) {
                                    sink.fail("C29/out_of_band_bound_left_unclamped", format!("price ({umin},{umax}) ref {refp} dev {dev} clamped to ({amin},{amax}) although [{lo_rep},{hi_rep}] is representable inside the band"), rp());
                                }
                                // acceptance pipeline on the adjusted price
                                let accepted = ov::small_prices(&adj, false, true).is_ok()
                                    && PriceValidator::try_from(&*store).ok().map(|mut v| ov::validate_one(&mut v, &tc, &PriceProviderKind::ChainlinkDataStreams, 1_000, 1, &adj, refd.as_ref()).is_ok()).unwrap_or(false);
                                if accepted {
                                    sink.count("adjusted_and_accepted");
                                    if !(in_band(amin) && in_band(amax) && amin <= amax && amin > 0) {
                                        sink.fail("C29/out_of_band_or_inverted_price_accepted", format!("price ({umin},{umax}) ref {refp} dev {dev} adjusted to ({amin},{amax}) and accepted"), rp());
                                    }
                                } else {
                                    sink.count("adjusted_but_rejected");
                                }
                            }
                        }
                    }
                }
            }
        }
    });
    rep
}

// ------------------------------------------------------------------------------------------ C25

#[derive(Clone, Copy, Debug)]
struct Upd {
    ts: i64,
    min: u128,
    p: u128,
    max: u128,
    dclock: i64,
    dslot: i64,
    idem: bool,
    future_excess: u64,
}

#[derive(Clone, Copy, PartialEq, Eq, Hash, Debug, Default)]
struct FeedRef {
    ts: i64,
    min: u128,
    p: u128,
    max: u128,
    at: i64,
    slot: u64,
}

#[derive(Clone)]
struct FeedSt {
    feed: Box<PriceFeed>,
    reference: FeedRef,
    clock: i64,
    slot: u64,
}

struct FeedM {
    acts: Vec<Upd>,
}

impl Machine for FeedM {
    type State = FeedSt;
    type Action = Upd;
    fn actions(&self) -> &[Upd] {
        &self.acts
    }
    fn key(&self, s: &FeedSt) -> u128 {
        mc_core::hash128(&(bytemuck::bytes_of(&*s.feed), s.reference, s.clock, s.slot))
    }
    fn step(&self, s: &FeedSt, a: &Upd, out: &mut StepOut) -> FeedSt {
        let mut n = s.clone();
        let (nc, ns) = (s.clock + a.dclock, (s.slot as i64 + a.dslot).max(0) as u64);
        n.clock = nc;
        n.slot = ns;
        svm::set_clock(nc, ns);
        let price = PriceFeedPrice::new(8, a.ts, a.p, a.min, a.max, 0);
        let before = bytemuck::bytes_of(&*s.feed).to_vec();
        let res = mc_core::catch(|| ov::feed_update(&mut n.feed, &price, a.future_excess, a.idem).map_err(|_| ()));
        let rf = s.reference;
        let mut nr = rf;
        let want: std::result::Result<bool, ()> = if ns < rf.slot || nc < rf.at {
            Err(())
        } else if a.idem && a.ts < rf.ts {
            Ok(false)
        } else if a.ts < rf.ts || (a.ts as i128) > nc as i128 + a.future_excess as i128 || !(a.min <= a.p && a.p <= a.max) {
            Err(())
        } else {
            nr = FeedRef { ts: a.ts, min: a.min, p: a.p, max: a.max, at: nc, slot: ns };
            Ok(true)
        };
        n.reference = nr;
        match res {
            Err(p) => {
                out.label = "panic";
                out.fail("C25/panic", format!("{a:?}: {p}"));
                out.prune = true;
            }
            Ok(got) => {
                out.label = match got { Ok(true) => "updated", Ok(false) => "skipped", Err(()) => "rejected" };
                if got != want {
                    let key = match (got, want) {
                        (Ok(true), _) => "C25/invalid_update_accepted",
                        (Ok(false), _) => "C25/update_skipped_wrongly",
                        (Err(()), Ok(true)) => "C25/valid_update_rejected",
                        _ => "C25/idempotent_older_update_not_skipped",
                    };
                    out.fail(key, format!("{a:?} at clock {nc} slot {ns} on feed {rf:?}: got {got:?}, expected {want:?}"));
                    out.prune = true;
                }
                if got != Ok(true) && bytemuck::bytes_of(&*n.feed) != &before[..] {
                    out.fail("C25/rejected_update_changed_feed", format!("{a:?}: feed bytes changed although the update returned {got:?}"));
                }
            }
        }
        let f = &n.feed;
        let (fp, fmin, fmax) = (*f.price().price(), *f.price().min_price(), *f.price().max_price());
        if f.price().ts() < s.feed.price().ts() {
            out.fail("C25/timestamp_went_backwards", format!("{a:?}: {} -> {}", s.feed.price().ts(), f.price().ts()));
        }
        if !(fmin <= fp && fp <= fmax) {
            out.fail("C25/stored_price_invalid", format!("{a:?}: stored ({fmin},{fp},{fmax})"));
        }
        if (f.price().ts(), fmin, fp, fmax, f.last_published_at_slot()) != (nr.ts, nr.min, nr.p, nr.max, nr.slot) && !out.prune {
            out.fail("C25/stored_state_differs_from_reference", format!("{a:?}: stored ts {} ({fmin},{fp},{fmax}) slot {} vs {nr:?}", f.price().ts(), f.last_published_at_slot()));
        }
        n
    }
}

pub fn run_c25(cli: &Cli) -> Report {
    let mut rep = Report::new(cli, "model_checking");
    rep.rule("E2: every sequence of PriceFeed::update calls (real code through the hook, stubbed clock) over price timestamps around the stored one and the clock, ordered and inverted (min, price, max) triples, clock/slot steps {-1,0,+1}, strict and idempotent mode, future excess {0,1}; outcome, stored state, unchanged-on-rejection, monotone timestamp and min<=price<=max compared with a reference feed in every state");
    let th = cli.tier.thorough();
    let mut acts = vec![];
    for ts in [998i64, 999, 1000, 1001, 1002] {
        for (min, p, max) in [(1u128, 1u128, 1u128), (1, 2, 3), (2, 1, 3), (1, 3, 2), (3, 2, 1), (0, 0, 0)] {
            for (dclock, dslot) in [(0i64, 0i64), (1, 1), (-1, 0), (0, -1)] {
                for idem in [false, true] {
                    for future_excess in [0u64, 1] {
                        if !th && future_excess == 0 && (min, p, max) != (1, 2, 3) {
                            continue;
                        }
                        acts.push(Upd { ts, min, p, max, dclock, dslot, idem, future_excess });
                    }
                }
            }
        }
    }
    if th {
        acts.push(Upd { ts: i64::MAX, min: 1, p: 1, max: 1, dclock: 0, dslot: 0, idem: false, future_excess: u64::MAX });
        acts.push(Upd { ts: i64::MIN, min: 1, p: 1, max: 1, dclock: 0, dslot: 0, idem: true, future_excess: 0 });
    }
    let m = FeedM { acts };
    let start = FeedSt { feed: Box::new(PriceFeed::default()), reference: FeedRef::default(), clock: 1000, slot: 10 };
    if let Some(rv) = &cli.replay {
        e2::replay_into(&mut rep, &m, &[start], rv);
        return rep;
    }
    let depth = if th { 4 } else { 3 };
    let o = e2::explore(&mut rep, "price feed updates", &m, vec![start], &e2::Config { depth, max_states: 20_000_000 }, json!({"thorough": th}));
    for needed in ["Upd:updated", "Upd:skipped", "Upd:rejected"] {
        if o.histogram.get(needed).copied().unwrap_or(0) == 0 {
            rep.machinery(format!("vacuous exploration: outcome {needed} never occurred"));
        }
    }
    rep
}

// ------------------------------------------------------------------ C24 (e): the oracle as instructions use it

/// how a feed account deviates from a fresh, well-formed feed of the expected provider
#[derive(Clone, Copy, Debug, PartialEq, Eq)]
enum FeedKind {
    Good,
    /// older than the maximum age
    Stale,
    /// published after the clock (no future excess allowed by default)
    Future,
    /// fresh, but further from the other feed than the allowed timestamp range
    FarFromOther,
    /// another provider than the token config expects
    WrongProvider,
    /// a feed id the token config does not list
    WrongFeedId,
    /// min > max
    Inverted,
    /// a zero price
    Zero,
}

/// E3/E1: execute_deposit over feed pairs x operation kinds; whenever a feed is not acceptable the instruction must
/// fail; in every case the oracle account, as the program left it in memory on return, is cleared
pub fn instruction_use(rep: &mut Report) {
    use crate::world::{self, feed_account, W};
    use FeedKind::*;
    let (mut db, w) = world::build();
    W::set_time(10_000);
    w.set_feeds(&mut db, 10_000, (12_0000_0000, 12_0000_0000), (1_0000_0000, 1_0000_0000));
    let seed = [9u8; 32];
    w.create_deposit(&mut db, &w.m1, w.user2, seed, 5_000_000, 60_000_000, 0, w.user2).expect("seed create");
    w.execute_deposit(&mut db, &w.m1, w.user2, seed, w.keeper, true).expect("seed execute");
    // the cleared oracle, byte for byte, after a clean use
    let cleared = db.get(&w.oracle).data;
    let kinds = [Good, Stale, Future, FarFromOther, WrongProvider, WrongFeedId, Inverted, Zero];
    let mut cases = vec![];
    for ka in kinds {
        for kb in kinds {
            for op in 0..3u8 {
                cases.push((ka, kb, op));
            }
        }
    }
    let counters = e1::run(rep, "oracle use by execute_deposit: feed pairs x operation kinds", &cases, |&(ka, kb, op), sink| {
        let now = 10_000i64;
        W::set_time(now);
        let mut d = db.clone();
        let n = [0x24u8; 32];
        // op 0: reachable; 1: unreachable minimum, soft failure; 2: unreachable minimum, hard failure
        let min_out = if op == 0 { 0 } else { u64::MAX };
        if w.create_deposit(&mut d, &w.m1, w.user, n, 1_000_000, 12_000_000, min_out, w.user).is_err() {
            sink.case(false);
            return;
        }
        let mk = |kind: FeedKind, token: &Pubkey, feed_id: &Pubkey, price: u128| {
            let (ts, provider, fid, min, max) = match kind {
                Good => (now, 0u8, *feed_id, price, price),
                Stale => (now - 3_601, 0, *feed_id, price, price),
                Future => (now + 1, 0, *feed_id, price, price),
                FarFromOther => (now - 301, 0, *feed_id, price, price),
                WrongProvider => (now, 1, *feed_id, price, price),
                WrongFeedId => (now, 0, crate::svm::addr("c24-other-feed-id"), price, price),
                Inverted => (now, 0, *feed_id, price * 2, price),
                Zero => (now, 0, *feed_id, 0, 0),
            };
            feed_account(&w.store, token, &fid, provider, ts, (ts.max(0) as u64) / 100, min, (min + max) / 2, max, 8, true)
        };
        d.set(w.feed_a, mk(ka, &w.a, &w.feed_id_a, 12_0000_0000));
        d.set(w.feed_b, mk(kb, &w.b, &w.feed_id_b, 1_0000_0000));
        // the deposit was created at `now`: prices must not be older than the request, so only Good / Future / wrong-* feeds are
        // recent enough; everything else must be refused at the latest by the time validation
        crate::svm::observe(&[w.oracle]);
        let r = w.execute_deposit(&mut d, &w.m1, w.user, n, w.keeper, op == 2);
        let seen = crate::svm::take_observed();
        let rp = || json!({"section": "instruction_use", "feed_a": format!("{ka:?}"), "feed_b": format!("{kb:?}"), "op": op});
        let acceptable = |k: FeedKind| k == Good;
        let both = acceptable(ka) && acceptable(kb);
        sink.case(both);
        if !both && r.is_ok() {
            // the instruction may only succeed without using the prices (cancelling the deposit); a completed deposit used them
            use gmsol_store::states::common::action::Action;
            let st = d.pod::<gmsol_store::states::Deposit>(&w.deposit_pda(&w.user, &n)).and_then(|x| x.header().action_state().ok());
            if st == Some(gmsol_utils::action::ActionState::Completed) {
                sink.fail("C24/unacceptable_feed_used_for_execution", format!("feeds ({ka:?}, {kb:?}): the deposit was executed"), rp());
            } else {
                sink.count("unacceptable_feed_cancelled_softly");
            }
        }
        if both {
            match (op, &r) {
                (0, Ok(())) | (1, Ok(())) | (2, Err(_)) => sink.count("good_feeds_outcome_as_expected"),
                _ => sink.fail("C24/machinery_unexpected_outcome", format!("good feeds, op {op}: {r:?}"), rp()),
            }
        }
        if r.is_err() {
            sink.count("instruction_failed");
        }
        match seen.get(&w.oracle) {
            None => sink.fail("C24/machinery_oracle_not_observed", "the oracle account was not observed".into(), rp()),
            Some(data) => {
                if *data != cleared {
                    let diff: Vec<usize> = (0..data.len().min(cleared.len())).filter(|i| data[*i] != cleared[*i]).take(8).collect();
                    sink.fail(if r.is_ok() { "C24/oracle_not_cleared_after_use" } else { "C24/oracle_not_cleared_after_failed_use" }, format!("feeds ({ka:?}, {kb:?}), op {op}, instruction result {:?}: the oracle account differs from the cleared oracle at bytes {diff:?}", r.as_ref().map_err(|e| format!("{e:?}"))), rp());
                }
                sink.count("oracle_observed");
            }
        }
        // and in the committed state
        if d.get(&w.oracle).data != cleared {
            sink.fail("C24/oracle_not_cleared_after_use", format!("feeds ({ka:?}, {kb:?}), op {op}: committed oracle account is not cleared"), rp());
        }
    });
    for k in ["good_feeds_outcome_as_expected", "instruction_failed", "oracle_observed"] {
        if counters.get(k).copied().unwrap_or(0) == 0 {
            rep.machinery(format!("vacuous oracle-use section: {k} never occurred"));
        }
    }
}
