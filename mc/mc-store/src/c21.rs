//! C21 — uncommitted market operations never leak into stored state (E2 on the real
//! `RevertibleMarket` over an in-memory `Market` account, through the visibility hook).
use anchor_lang::prelude::*;
use anchor_lang::Discriminator;
use gmsol_model::{Balance, Bank, BaseMarket, BaseMarketMut, BorrowingFeeMarket, BorrowingFeeMarketMut, ClockKind, PerpMarket, PerpMarketMut, Pool as _, PoolKind, PositionImpactMarket, PositionImpactMarketMut, SwapMarket, SwapMarketMut};
use gmsol_store::states::market::revertible::{market::RevertibleMarket, Revertible};
use gmsol_store::states::Market;
use mc_core::{
    e2::{self, Machine, StepOut},
    json, Cli, Report,
};

use crate::svm::{self, addr};

/// an aligned, loader-style account record (see svm.rs) for a stand-alone AccountLoader
pub fn record(key: &Pubkey, owner: &Pubkey, data: &[u8]) -> (Vec<u128>, AccountInfo<'static>) {
    let total = 88 + data.len() + 10240 + 16;
    let mut buf = vec![0u128; (total + 15) / 16];
    let base = buf.as_mut_ptr() as *mut u8;
    let info = unsafe {
        *base = 0xff;
        *base.add(2) = 1;
        *(base.add(4) as *mut u32) = data.len() as u32;
        std::ptr::copy_nonoverlapping(key.as_ref().as_ptr(), base.add(8), 32);
        std::ptr::copy_nonoverlapping(owner.as_ref().as_ptr(), base.add(40), 32);
        *(base.add(72) as *mut u64) = 1_000_000;
        *(base.add(80) as *mut u64) = data.len() as u64;
        std::ptr::copy_nonoverlapping(data.as_ptr(), base.add(88), data.len());
        AccountInfo::new(&*(base.add(8) as *const Pubkey), false, true, &mut *(base.add(72) as *mut u64), std::slice::from_raw_parts_mut(base.add(88), data.len()), &*(base.add(40) as *const Pubkey), false, 0)
    };
    (buf, info)
}

const N_SLOTS: usize = 23;
const SLOT_NAMES: [&str; N_SLOTS] = [
    "liquidity.long", "liquidity.short", "swap_impact.long", "claimable_fee.short", "oi_long.long", "oi_short.short", "oi_tokens_long.long", "oi_tokens_short.short", "position_impact.long",
    "borrowing_factor.long", "borrowing_factor.short", "funding_per_size_long.long", "funding_per_size_short.short", "claimable_funding_long.short", "claimable_funding_short.long",
    "collateral_sum_long.long", "collateral_sum_short.short", "total_borrowing.long", "clock.funding", "clock.borrowing", "clock.position_impact", "other.funding_factor", "other.long_balance",
];

type Vals = [i128; N_SLOTS];

/// read every slot through the given market view (model traits)
fn view<M>(m: &M, balance: Option<u64>) -> Option<Vals>
where
    M: BaseMarket<20, Num = u128, Signed = i128> + SwapMarket<20> + PositionImpactMarket<20> + BorrowingFeeMarket<20> + PerpMarket<20>,
{
    let l = |p: gmsol_model::Result<&<M as BaseMarket<20>>::Pool>| p.ok().and_then(|p| p.long_amount().ok()).map(|v| v as i128);
    let s = |p: gmsol_model::Result<&<M as BaseMarket<20>>::Pool>| p.ok().and_then(|p| p.short_amount().ok()).map(|v| v as i128);
    Some([
        l(m.liquidity_pool())?, s(m.liquidity_pool())?, l(m.swap_impact_pool())?, s(m.claimable_fee_pool())?, l(m.open_interest_pool(true))?, s(m.open_interest_pool(false))?,
        l(m.open_interest_in_tokens_pool(true))?, s(m.open_interest_in_tokens_pool(false))?, l(m.position_impact_pool())?, l(m.borrowing_factor_pool())?, s(m.borrowing_factor_pool())?,
        l(m.funding_amount_per_size_pool(true))?, s(m.funding_amount_per_size_pool(false))?, s(m.claimable_funding_amount_per_size_pool(true))?, l(m.claimable_funding_amount_per_size_pool(false))?,
        l(m.collateral_sum_pool(true))?, s(m.collateral_sum_pool(false))?, l(m.total_borrowing_pool())?,
        0, 0, 0, // clocks are read from the account (the model traits only expose elapsed time)
        *m.funding_factor_per_second(), balance? as i128,
    ])
}

fn storage_view(m: &Market, long: &Pubkey) -> Option<Vals> {
    let _ = long;
    let mut v = view(m, Some(m.state().long_token_balance_raw()))?;
    v[18] = m.clock(ClockKind::Funding)? as i128;
    v[19] = m.clock(ClockKind::Borrowing)? as i128;
    v[20] = m.clock(ClockKind::PriceImpactDistribution)? as i128;
    Some(v)
}

fn write(rm: &mut RevertibleMarket<'_, '_>, slot: usize, long: &Pubkey, now: i64, overlay: &mut Vals) -> gmsol_model::Result<()> {
    use gmsol_model::PoolExt as _;
    let one: i128 = 1;
    macro_rules! pool {
        ($get:expr, long) => {{ $get?.apply_delta_to_long_amount(&one)?; overlay[slot] += 1; }};
        ($get:expr, short) => {{ $get?.apply_delta_to_short_amount(&one)?; overlay[slot] += 1; }};
    }
    match slot {
        0 => pool!(rm.liquidity_pool_mut(), long),
        1 => pool!(rm.liquidity_pool_mut(), short),
        2 => pool!(rm.swap_impact_pool_mut(), long),
        3 => pool!(rm.claimable_fee_pool_mut(), short),
        4 => pool!(rm.open_interest_pool_mut(true), long),
        5 => pool!(rm.open_interest_pool_mut(false), short),
        6 => pool!(rm.open_interest_in_tokens_pool_mut(true), long),
        7 => pool!(rm.open_interest_in_tokens_pool_mut(false), short),
        8 => pool!(rm.position_impact_pool_mut(), long),
        9 => pool!(rm.borrowing_factor_pool_mut(), long),
        10 => pool!(rm.borrowing_factor_pool_mut(), short),
        11 => pool!(rm.funding_amount_per_size_pool_mut(true), long),
        12 => pool!(rm.funding_amount_per_size_pool_mut(false), short),
        13 => pool!(rm.claimable_funding_amount_per_size_pool_mut(true), short),
        14 => pool!(rm.claimable_funding_amount_per_size_pool_mut(false), long),
        15 => pool!(rm.collateral_sum_pool_mut(true), long),
        16 => pool!(rm.collateral_sum_pool_mut(false), short),
        17 => pool!(rm.total_borrowing_pool_mut(), long),
        18 => {
            rm.just_passed_in_seconds_for_funding()?;
            overlay[slot] = now as i128;
        }
        19 => {
            rm.just_passed_in_seconds_for_borrowing()?;
            overlay[slot] = now as i128;
        }
        20 => {
            rm.just_passed_in_seconds_for_position_impact_distribution()?;
            overlay[slot] = now as i128;
        }
        21 => {
            *rm.funding_factor_per_second_mut() += 1;
            overlay[slot] += 1;
        }
        _ => {
            rm.record_transferred_in_by_token(long, &1)?;
            overlay[slot] += 1;
        }
    }
    Ok(())
}

#[derive(Clone, Debug)]
struct Op {
    writes: Vec<usize>,
    commit: bool,
}

#[derive(Clone)]
struct St {
    data: Vec<u8>,
    vals: Vals,
    now: i64,
}

struct Rev {
    ops: Vec<Op>,
    long: Pubkey,
    mkey: Pubkey,
    event_authority: Pubkey,
    event_bump: u8,
}

impl Machine for Rev {
    type State = St;
    type Action = Op;
    fn actions(&self) -> &[Op] {
        &self.ops
    }
    fn key(&self, s: &St) -> u128 {
        mc_core::hash128(&(&s.data, s.now))
    }
    fn action_name(&self, a: &Op) -> String {
        (if a.commit { "commit" } else { "abandon" }).to_string()
    }
    fn step(&self, s: &St, op: &Op, out: &mut StepOut) -> St {
        let pid = gmsol_store::ID;
        let now = s.now + 5;
        svm::set_clock(now, 10);
        svm::ENV.with(|e| {
            let mut e = e.borrow_mut();
            e.stack.clear();
            e.stack.push(pid); // the event CPI of a commit is a self-CPI of the store program
        });
        let (_buf, info) = record(&self.mkey, &pid, &s.data);
        let (_ebuf, einfo) = record(&self.event_authority, &pid, &[]);
        // SAFETY: the records outlive every use below; lifetimes are erased for AccountLoader's signature
        let info_ref: &'static AccountInfo<'static> = unsafe { &*(&info as *const AccountInfo<'static>) };
        let einfo_ref: &'static AccountInfo<'static> = unsafe { &*(&einfo as *const AccountInfo<'static>) };
        let loader: AccountLoader<Market> = AccountLoader::try_from(info_ref).expect("market loader");
        let loader_ref: &'static AccountLoader<'static, Market> = unsafe { &*(&loader as *const AccountLoader<'static, Market>) };
        let mut overlay = s.vals;
        let long = self.long;
        let r = mc_core::catch(|| -> std::result::Result<Vec<(String, String)>, String> {
            let mut bad = vec![];
            let mut rm = gmsol_store::verif::revertible_market(loader_ref, einfo_ref, self.event_bump).map_err(|e| format!("begin: {e:?}"))?;
            let cmp = |got: Option<Vals>, want: &Vals, what: &str, bad: &mut Vec<(String, String)>| match got {
                Some(g) => {
                    for i in 0..N_SLOTS {
                        if (18..=20).contains(&i) {
                            continue;
                        }
                        if g[i] != want[i] {
                            bad.push((format!("C21/{what}"), format!("slot {} reads {} expected {} (op {op:?})", SLOT_NAMES[i], g[i], want[i])));
                        }
                    }
                }
                None => bad.push(("C21/read_failed".into(), format!("{what}: a read failed (op {op:?})"))),
            };
            // a new operation reads exactly the stored state, never what an abandoned one left behind
            cmp(view(&rm, rm.balance(&long).ok()), &s.vals, "stale_or_uncommitted_value_read_at_begin", &mut bad);
            for wslot in &op.writes {
                write(&mut rm, *wslot, &long, now, &mut overlay).map_err(|e| format!("write: {e:?}"))?;
                cmp(view(&rm, rm.balance(&long).ok()), &overlay, "own_write_not_read_back", &mut bad);
                // storage must not move before the commit
                // (the revertible market holds the account borrow: peek at the record's bytes directly)
                let peek: Market = unsafe {
                    let base = _buf.as_ptr() as *const u8;
                    bytemuck::pod_read_unaligned(std::slice::from_raw_parts(base.add(88 + 8), std::mem::size_of::<Market>()))
                };
                let st = storage_view(&peek, &long).ok_or("storage view".to_string())?;
                if st != s.vals {
                    bad.push(("C21/storage_changed_before_commit".into(), format!("after writing {} (op {op:?})", SLOT_NAMES[*wslot])));
                }
            }
            if op.commit {
                rm.commit();
            }
            Ok(bad)
        });
        svm::ENV.with(|e| e.borrow_mut().stack.clear());
        let mut n = s.clone();
        n.now = now;
        match r {
            Err(p) => {
                out.label = "panic";
                out.fail("C21/panic", format!("{op:?}: {p}"));
                out.prune = true;
                return n;
            }
            Ok(Err(e)) => {
                out.label = "error";
                out.fail("C21/operation_failed", format!("{op:?}: {e}"));
                out.prune = true;
                return n;
            }
            Ok(Ok(bad)) => out.violations.extend(bad),
        }
        out.label = if op.commit { "commit" } else { "abandon" };
        let want = if op.commit { overlay } else { s.vals };
        let after = loader.load().ok().and_then(|m| storage_view(&m, &long));
        match after {
            Some(a) if a == want => {}
            other => out.fail(if op.commit { "C21/committed_state_differs_from_observed_writes" } else { "C21/abandoned_operation_changed_storage" }, format!("{op:?}: storage {other:?}, expected {want:?}")),
        }
        n.data = info.data.borrow().to_vec();
        n.vals = want;
        n
    }
}

pub fn run(cli: &Cli) -> Report {
    let mut rep = Report::new(cli, "model_checking");
    rep.rule("E2: every sequence of revertible operations on a real Market account (RevertibleMarket through the visibility hook; each operation = begin, up to two writes with a read of all 23 slots after each, then commit or abandon), for a family of runs whose three-slot write alphabets together cover every pool kind, the three clocks and the other-state fields; reads at begin must equal storage, reads after a write the overlay, storage moves only at commit and then equals the overlay; the state key is the full account data (revision counters and stale buffer contents included). Program part (E3): breadth-first exploration of real create / execute / close instructions of deposits (two mints in one operation), withdrawals (one burn) and shifts (a burn in one market and a mint in another: two revertible markets in one operation), half of them with an unreachable minimum output (abandoned after the operation observed its writes), with clock advances and feed re-publication: an abandoned operation leaves pools, balances, other state, clocks, the market-token supply and every market-token holding unchanged, every other pending operation executes identically with and without the abandoned one before it, and a committed operation leaves exactly the state, supply change and payout that the same generic operation produces on a plain in-memory market (SDK MarketModel on the pre-state)");
    rep.assume("operations cannot overlap (the revertible market borrows the account), so an interleaving is a sequence of whole operations; the mint/burn deferral of RevertibleLiquidityMarket is exercised through the real instructions (program part), not through a direct handle");
    svm::install();
    svm::set_clock(1_000, 10);
    let (long, short) = (addr("c21-long"), addr("c21-short"));
    let mut market = Box::new(Market::default());
    market.init(255, addr("c21-store"), "M", addr("c21-mt"), long, long, short, true).expect("market init");
    let mut data0 = Market::DISCRIMINATOR.to_vec();
    data0.extend_from_slice(bytemuck::bytes_of(&*market));
    let (event_authority, event_bump) = Pubkey::find_program_address(&[b"__event_authority"], &gmsol_store::ID);
    let vals0 = storage_view(&market, &long).expect("initial view");
    let th = cli.tier.thorough();
    // runs: triples of slots covering all 23 slots; deliberately mixing a pool, a clock and other-state
    let runs: Vec<[usize; 3]> = vec![[0, 18, 21], [1, 19, 22], [2, 20, 21], [3, 4, 22], [5, 6, 18], [7, 8, 19], [9, 10, 20], [11, 12, 21], [13, 14, 22], [15, 16, 17]];
    for (ri, slots) in runs.iter().enumerate() {
        let mut ops = vec![];
        for commit in [true, false] {
            ops.push(Op { writes: vec![], commit });
            for a in slots {
                ops.push(Op { writes: vec![*a], commit });
                for b in slots {
                    ops.push(Op { writes: vec![*a, *b], commit });
                }
            }
        }
        let m = Rev { ops, long, mkey: addr("c21-market"), event_authority, event_bump };
        let start = St { data: data0.clone(), vals: vals0, now: 1_000 };
        let name = format!("run {ri}: slots {:?}", slots.map(|s| SLOT_NAMES[s]));
        if let Some(rv) = &cli.replay {
            if rv["section"] == name.as_str() {
                e2::replay_into(&mut rep, &m, &[start], rv);
            }
            continue;
        }
        let depth = if th { 4 } else { 3 };
        e2::explore(&mut rep, &name, &m, vec![start], &e2::Config { depth, max_states: 2_000_000 }, json!({}));
    }
    crate::c21liq::run_section(&mut rep, cli);
    rep
}
