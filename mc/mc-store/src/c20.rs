//! C20 — market config updates follow the keeper permission policy (E3-light: real store
//! instructions through `gmsol_store::entry`; exhaustive key/flag matrices, buffer scenarios and a
//! BFS over permission/update/buffer/expiry histories).
use anchor_lang::prelude::*;
use gmsol_store::states::market::config::{EntryArgs, MarketConfigFlag, MarketConfigKey};
use gmsol_store::states::Market;
use mc_core::{
    e1,
    e2::{self, Machine, StepOut},
    json, Cli, Report,
};
use solana_program::instruction::Instruction;
use strum::IntoEnumIterator;

use crate::svm::{addr, process, Acc, Db};
use crate::world::{self, ix, sys, W};

#[derive(Clone, Copy, Debug, PartialEq, Eq, Hash)]
enum Who {
    MarketKeeper,
    ConfigKeeper,
    Stranger,
}

fn who_key(w: &W, a: Who) -> Pubkey {
    match a {
        Who::MarketKeeper => w.keeper,
        Who::ConfigKeeper => w.config_keeper,
        Who::Stranger => w.stranger,
    }
}

fn upd(w: &W, by: Pubkey, key: &str, value: u128) -> Instruction {
    ix(w.pid, gmsol_store::accounts::UpdateMarketConfig { authority: by, store: w.store, market: w.m1.market }, gmsol_store::instruction::UpdateMarketConfig { key: key.into(), value })
}
fn updf(w: &W, by: Pubkey, key: &str, value: bool) -> Instruction {
    ix(w.pid, gmsol_store::accounts::UpdateMarketConfig { authority: by, store: w.store, market: w.m1.market }, gmsol_store::instruction::UpdateMarketConfigFlag { key: key.into(), value })
}
fn setu(w: &W, by: Pubkey, is_flag: bool, key: &str, updatable: bool) -> Instruction {
    ix(w.pid, gmsol_store::accounts::SetMarketConfigUpdatable { authority: by, store: w.store }, gmsol_store::instruction::SetMarketConfigUpdatable { is_flag, key: key.into(), updatable })
}
fn cfg(w: &W, db: &Db, key: &str) -> Option<u128> {
    let m: Market = w.market(db, &w.m1);
    m.get_config(key).ok().copied()
}
fn flag(w: &W, db: &Db, key: &str) -> Option<bool> {
    let m: Market = w.market(db, &w.m1);
    m.get_config_flag(key).ok()
}
fn market_bytes(w: &W, db: &Db) -> Vec<u8> {
    db.get(&w.m1.market).data
}

fn matrices(rep: &mut Report, w: &W, db0: &Db) {
    let keys: Vec<String> = MarketConfigKey::iter().map(|k| k.to_string()).collect();
    e1::run(rep, "every config key x updatable x actor", &keys, |name, sink| {
        W::set_time(1_000);
        let mut db = db0.clone();
        if cfg(w, &db, name).is_none() {
            sink.case(false);
            return;
        }
        for updatable in [false, true] {
            if updatable {
                if let Err(e) = process(&mut db, &setu(w, w.keeper, false, name, true), &[w.keeper]) {
                    sink.fail("C20/keeper_cannot_change_permission", format!("{name}: {e:?}"), json!({"key": name}));
                    return;
                }
            }
            for (i, actor) in [Who::MarketKeeper, Who::ConfigKeeper, Who::Stranger].into_iter().enumerate() {
                let by = who_key(w, actor);
                let before = market_bytes(w, &db);
                let value = 1_000 + i as u128 + 10 * updatable as u128;
                let mut d2 = db.clone();
                let r = process(&mut d2, &upd(w, by, name, value), &[by]);
                let allowed = actor == Who::MarketKeeper || (actor == Who::ConfigKeeper && updatable);
                sink.case(r.is_ok());
                let rp = || json!({"key": name, "updatable": updatable, "actor": format!("{actor:?}")});
                if r.is_ok() != allowed {
                    sink.fail(if r.is_ok() { "C20/unauthorised_update_accepted" } else { "C20/authorised_update_rejected" }, format!("{actor:?} updating {name} (updatable {updatable}): {r:?}"), rp());
                }
                if r.is_ok() && cfg(w, &d2, name) != Some(value) {
                    sink.fail("C20/update_not_applied", format!("{name} reads {:?} after writing {value}", cfg(w, &d2, name)), rp());
                }
                if r.is_err() && market_bytes(w, &d2) != before {
                    sink.fail("C20/rejected_update_changed_market", format!("{name}"), rp());
                }
            }
            // only the market keeper may change permissions
            for actor in [Who::ConfigKeeper, Who::Stranger] {
                let by = who_key(w, actor);
                let mut d2 = db.clone();
                sink.case(false);
                if process(&mut d2, &setu(w, by, false, name, !updatable), &[by]).is_ok() {
                    sink.fail("C20/permission_changed_by_non_keeper", format!("{actor:?} changed the updatable bit of {name}"), json!({"key": name}));
                }
            }
        }
    });
    let flags: Vec<String> = MarketConfigFlag::iter().map(|k| k.to_string()).collect();
    e1::run(rep, "every config flag x updatable x actor", &flags, |name, sink| {
        W::set_time(1_000);
        let mut db = db0.clone();
        for updatable in [false, true] {
            if updatable && process(&mut db, &setu(w, w.keeper, true, name, true), &[w.keeper]).is_err() {
                sink.fail("C20/keeper_cannot_change_permission", format!("flag {name}"), json!({"flag": name}));
                return;
            }
            for actor in [Who::MarketKeeper, Who::ConfigKeeper, Who::Stranger] {
                let by = who_key(w, actor);
                let before = flag(w, &db, name).unwrap_or(false);
                let bytes = market_bytes(w, &db);
                let mut d2 = db.clone();
                let r = process(&mut d2, &updf(w, by, name, !before), &[by]);
                let allowed = actor == Who::MarketKeeper || (actor == Who::ConfigKeeper && updatable);
                sink.case(r.is_ok());
                let rp = || json!({"flag": name, "updatable": updatable, "actor": format!("{actor:?}")});
                if r.is_ok() != allowed {
                    sink.fail(if r.is_ok() { "C20/unauthorised_update_accepted" } else { "C20/authorised_update_rejected" }, format!("{actor:?} updating flag {name} (updatable {updatable}): {r:?}"), rp());
                }
                if r.is_ok() && flag(w, &d2, name) != Some(!before) {
                    sink.fail("C20/update_not_applied", format!("flag {name}"), rp());
                }
                if r.is_err() && market_bytes(w, &d2) != bytes {
                    sink.fail("C20/rejected_update_changed_market", format!("flag {name}"), rp());
                }
            }
        }
    });
}

// ---------------------------------------------------------------------------- histories (E2)

const K: [&str; 2] = ["swap_fee_receiver_factor", "reserve_factor"];
const F: &str = "skip_borrowing_fee_for_smaller_side";

#[derive(Clone, Copy, Debug)]
enum Act {
    SetUpdatable(usize, bool),
    SetFlagUpdatable(bool),
    Update(usize, Who),
    UpdateFlag(Who),
    /// (owner, entry mask over K) — creates the owner's buffer with these entries
    MakeBuffer(Who, u8),
    ApplyBuffer(Who),
    Adv(i64),
    /// the store admin disables / re-enables the MARKET_CONFIG_KEEPER role (real disable_role / enable_role)
    SetConfigRole(bool),
}

#[derive(Clone)]
struct St {
    db: Db,
    now: i64,
    updatable: [bool; 2],
    flag_updatable: bool,
    values: [u128; 2],
    flag: bool,
    /// per owner (index by Who): entry mask and expiry, if a buffer exists
    buffers: [Option<(u8, i64)>; 3],
    counter: u128,
    /// is the MARKET_CONFIG_KEEPER role enabled in the store? (a disabled role entitles nobody)
    config_role: bool,
}

struct Pol {
    w: W,
    acts: Vec<Act>,
}

fn idx(a: Who) -> usize {
    match a {
        Who::MarketKeeper => 0,
        Who::ConfigKeeper => 1,
        Who::Stranger => 2,
    }
}

impl Pol {
    fn buffer_key(&self, owner: Who) -> Pubkey {
        addr(&format!("c20-buffer-{owner:?}"))
    }
    fn check_values(&self, st: &St, out: &mut StepOut, a: &Act) {
        for i in 0..2 {
            if cfg(&self.w, &st.db, K[i]) != Some(st.values[i]) {
                out.fail("C20/market_value_differs_from_policy_reference", format!("{a:?}: {} reads {:?}, reference {}", K[i], cfg(&self.w, &st.db, K[i]), st.values[i]));
            }
        }
        if flag(&self.w, &st.db, F) != Some(st.flag) {
            out.fail("C20/market_value_differs_from_policy_reference", format!("{a:?}: flag reads {:?}, reference {}", flag(&self.w, &st.db, F), st.flag));
        }
    }
}

impl Machine for Pol {
    type State = St;
    type Action = Act;
    fn actions(&self) -> &[Act] {
        &self.acts
    }
    fn key(&self, s: &St) -> u128 {
        mc_core::hash128(&(s.updatable, s.flag_updatable, s.values, s.flag, s.buffers, s.now, s.config_role))
    }
    fn step(&self, s: &St, a: &Act, out: &mut StepOut) -> St {
        let mut n = s.clone();
        let w = &self.w;
        W::set_time(s.now);
        n.counter += 1;
        let (r, expect): (Option<std::result::Result<(), crate::svm::TxError>>, bool) = match *a {
            Act::SetUpdatable(i, v) => {
                let r = process(&mut n.db, &setu(w, w.keeper, false, K[i], v), &[w.keeper]);
                if r.is_ok() {
                    n.updatable[i] = v;
                }
                // setting a permission to the value it already has is refused
                (Some(r), s.updatable[i] != v)
            }
            Act::SetFlagUpdatable(v) => {
                let r = process(&mut n.db, &setu(w, w.keeper, true, F, v), &[w.keeper]);
                if r.is_ok() {
                    n.flag_updatable = v;
                }
                (Some(r), s.flag_updatable != v)
            }
            Act::Update(i, by) => {
                let value = 5_000 + idx(by) as u128 + i as u128 * 100;
                let r = process(&mut n.db, &upd(w, who_key(w, by), K[i], value), &[who_key(w, by)]);
                let ok = by == Who::MarketKeeper || (by == Who::ConfigKeeper && s.config_role && s.updatable[i]);
                if ok {
                    n.values[i] = value;
                }
                (Some(r), ok)
            }
            Act::UpdateFlag(by) => {
                let r = process(&mut n.db, &updf(w, who_key(w, by), F, !s.flag), &[who_key(w, by)]);
                let ok = by == Who::MarketKeeper || (by == Who::ConfigKeeper && s.config_role && s.flag_updatable);
                if ok {
                    n.flag = !s.flag;
                }
                (Some(r), ok)
            }
            Act::MakeBuffer(owner, mask) => {
                // environment-like: anyone may create and fill their own buffer
                let o = who_key(w, owner);
                let buffer = self.buffer_key(owner);
                if s.buffers[idx(owner)].is_some() {
                    return n; // one buffer per owner in this exploration
                }
                let r0 = process(&mut n.db, &ix(w.pid, gmsol_store::accounts::InitializeMarketConfigBuffer { authority: o, store: w.store, buffer, system_program: sys() }, gmsol_store::instruction::InitializeMarketConfigBuffer { expire_after_secs: 100 }), &[o, buffer]);
                let entries: Vec<EntryArgs> = (0..2).filter(|i| mask & (1 << i) != 0).map(|i| EntryArgs { key: K[i].to_string(), value: 700 + i as u128 }).collect();
                let r1 = if entries.is_empty() { Ok(()) } else { process(&mut n.db, &ix(w.pid, gmsol_store::accounts::PushToMarketConfigBuffer { authority: o, buffer, system_program: sys() }, gmsol_store::instruction::PushToMarketConfigBuffer { new_configs: entries }), &[o]) };
                if r0.is_ok() && r1.is_ok() {
                    n.buffers[idx(owner)] = Some((mask, s.now + 100));
                } else {
                    out.fail("C20/cannot_prepare_buffer", format!("{a:?}: {r0:?} {r1:?}"));
                }
                out.label = "env";
                return n;
            }
            Act::ApplyBuffer(owner) => {
                let o = who_key(w, owner);
                let buffer = self.buffer_key(owner);
                let r = process(&mut n.db, &ix(w.pid, gmsol_store::accounts::UpdateMarketConfigWithBuffer { authority: o, store: w.store, market: w.m1.market, buffer }, gmsol_store::instruction::UpdateMarketConfigWithBuffer {}), &[o]);
                let ok = match s.buffers[idx(owner)] {
                    None => false,
                    Some((mask, expiry)) => {
                        let all_updatable = (0..2).all(|i| mask & (1 << i) == 0 || s.updatable[i]);
                        s.now < expiry && (owner == Who::MarketKeeper || (owner == Who::ConfigKeeper && s.config_role && all_updatable))
                    }
                };
                if ok {
                    let mask = s.buffers[idx(owner)].unwrap().0;
                    for i in 0..2 {
                        if mask & (1 << i) != 0 {
                            n.values[i] = 700 + i as u128;
                        }
                    }
                }
                (Some(r), ok)
            }
            Act::Adv(dt) => {
                n.now += dt;
                (None, true)
            }
            Act::SetConfigRole(enable) => {
                let role = "MARKET_CONFIG_KEEPER".to_string();
                let r = if enable {
                    process(&mut n.db, &ix(w.pid, gmsol_store::accounts::EnableRole { authority: w.admin, store: w.store }, gmsol_store::instruction::EnableRole { role }), &[w.admin])
                } else {
                    process(&mut n.db, &ix(w.pid, gmsol_store::accounts::DisableRole { authority: w.admin, store: w.store }, gmsol_store::instruction::DisableRole { role }), &[w.admin])
                };
                if r.is_ok() {
                    n.config_role = enable;
                } else if s.config_role != enable {
                    out.fail("C20/cannot_switch_the_config_keeper_role", format!("{a:?}: {r:?}"));
                }
                out.label = "env";
                return n;
            }
        };
        if let Some(r) = r {
            out.label = if r.is_ok() { "ok" } else { "err" };
            if r.is_ok() != expect {
                let key = match (a, r.is_ok()) {
                    (Act::ApplyBuffer(_), true) => "C20/buffer_applied_against_policy",
                    (_, true) => "C20/unauthorised_update_accepted",
                    (_, false) => "C20/authorised_update_rejected",
                };
                out.fail(key, format!("{a:?} at t={} returned {r:?}; updatable {:?}/{} buffers {:?}", s.now, s.updatable, s.flag_updatable, s.buffers));
            }
            if r.is_err() && market_bytes(w, &n.db) != market_bytes(w, &s.db) {
                out.fail("C20/rejected_update_changed_market", format!("{a:?}"));
            }
        } else {
            out.label = "env";
        }
        self.check_values(&n, out, a);
        n
    }
}

pub fn run(cli: &Cli) -> Report {
    let mut rep = Report::new(cli, "model_checking");
    rep.rule("real store instructions through gmsol_store::entry: (1) E1 matrices — every MarketConfigKey and MarketConfigFlag x {not updatable, updatable} x {market keeper, market-config keeper, stranger} for update_market_config(_flag) and set_market_config_updatable; (2) E2 BFS over histories of permission changes, updates by every actor, per-owner config buffers with updatable/mixed/empty entries, buffer application, clock advances across the buffer expiry and the admin disabling (thorough: re-enabling) the MARKET_CONFIG_KEEPER role, against a reference policy; rejected calls must leave the market account byte-identical");
    rep.assume("svm-lite runtime trusted; roles are fabricated through the public Store role functions");
    let (db, w) = world::build();
    let mut db = db;
    db.set(w.config_keeper, Acc::wallet(100_000_000_000));
    if let Some(rv) = &cli.replay {
        if rv.get("path").is_none() {
            rep.sample(json!({"note": "matrix case: re-run the quick tier", "case": rv}));
            rep.evaluations = 1;
            return rep;
        }
    }
    let th = cli.tier.thorough();
    let values = [cfg(&w, &db, K[0]).expect("key"), cfg(&w, &db, K[1]).expect("key")];
    let flag0 = flag(&w, &db, F).expect("flag");
    let mut acts = vec![
        Act::SetUpdatable(0, true), Act::SetUpdatable(0, false), Act::SetUpdatable(1, true), Act::SetFlagUpdatable(true),
        Act::Update(0, Who::MarketKeeper), Act::Update(0, Who::ConfigKeeper), Act::Update(0, Who::Stranger), Act::Update(1, Who::ConfigKeeper),
        Act::UpdateFlag(Who::ConfigKeeper), Act::UpdateFlag(Who::Stranger),
        Act::MakeBuffer(Who::ConfigKeeper, 0b01), Act::MakeBuffer(Who::ConfigKeeper, 0b11), Act::MakeBuffer(Who::MarketKeeper, 0b11), Act::MakeBuffer(Who::Stranger, 0b01),
        Act::ApplyBuffer(Who::ConfigKeeper), Act::ApplyBuffer(Who::MarketKeeper), Act::ApplyBuffer(Who::Stranger),
        Act::Adv(99), Act::Adv(1),
        Act::SetConfigRole(false),
    ];
    if th {
        acts.extend([Act::MakeBuffer(Who::ConfigKeeper, 0b10), Act::MakeBuffer(Who::ConfigKeeper, 0b00), Act::SetUpdatable(1, false), Act::SetFlagUpdatable(false), Act::UpdateFlag(Who::MarketKeeper), Act::Update(1, Who::MarketKeeper), Act::SetConfigRole(true)]);
    }
    let pol = Pol { w: w.clone(), acts };
    let start = St { db: db.clone(), now: 1_000, updatable: [false; 2], flag_updatable: false, values, flag: flag0, buffers: [None; 3], counter: 0, config_role: true };
    if let Some(rv) = &cli.replay {
        e2::replay_into(&mut rep, &pol, &[start], rv);
        return rep;
    }
    matrices(&mut rep, &w, &db);
    let depth = if th { 6 } else { 5 };
    let o = e2::explore(&mut rep, "permission / update / buffer histories", &pol, vec![start], &e2::Config { depth, max_states: 5_000_000 }, json!({"thorough": th}));
    for needed in ["Update:ok", "Update:err", "ApplyBuffer:ok", "ApplyBuffer:err", "UpdateFlag:ok", "UpdateFlag:err"] {
        if o.histogram.get(needed).copied().unwrap_or(0) == 0 {
            rep.machinery(format!("vacuous exploration: outcome {needed} never occurred"));
        }
    }
    rep
}
