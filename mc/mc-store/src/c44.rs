//! C44 — multi-market swaps follow the declared path and move recorded balances (E3: every swap
//! path up to three hops over five markets sharing three tokens, executed through real deposit
//! instructions whose initial token is swapped into the deposit market's long token).
use anchor_lang::prelude::*;
use gmsol_model::{price::{Price, Prices}, MarketAction, SwapMarketMutExt};
use gmsol_programs::model::MarketModel;
use gmsol_store::states::{Deposit, Market, Seed};
use crate::svm::meta as _meta_unused;
use gmsol_store::states::common::action::Action;
use gmsol_utils::action::ActionState;
use mc_core::{e1, json, Cli, Report};
use std::sync::Arc;

use crate::svm::{addr, meta, process, Db, TxError};
use crate::world::{self, ata, feed_account, ix, mint_acc, sys, token_acc, token_amount, MarketKeys, W};

/// the first markets are enumerated exhaustively as short paths; all of them serve the long-path section
const N_ENUM: usize = 5;

struct X {
    w: W,
    c: Pubkey,
    feed_c: Pubkey,
    markets: Vec<MarketKeys>, // m1 (A|A/B), m2 (B|A/B), m3 (C|B/C), m4 (C|A/C), m5 (B|B/A)
}

fn build() -> (Db, X) {
    let (mut db, w) = world::build();
    let pid = w.pid;
    let run = |db: &mut Db, name: &str, i: solana_program::instruction::Instruction, signers: &[Pubkey]| process(db, &i, signers).unwrap_or_else(|e| panic!("c44 world: {name}: {e:?}"));
    let c = addr("w-token-c");
    db.set(c, mint_acc(6, 1_000_000_000_000_000, None));
    let feed_id_c = addr("w-feed-id-c");
    let mut builder = gmsol_utils::token_config::UpdateTokenConfigParams::default();
    builder.feeds[0] = feed_id_c;
    builder.expected_provider = Some(0);
    builder.heartbeat_duration = 60;
    builder.precision = 4;
    run(&mut db, "push_to_token_map", ix(pid, gmsol_store::accounts::PushToTokenMap { authority: w.keeper, store: w.store, token_map: w.token_map, token: c, system_program: sys() }, gmsol_store::instruction::PushToTokenMap { name: "C".into(), builder, enable: true, new: true }), &[w.keeper]);
    run(&mut db, "initialize_market_vault", ix(pid, gmsol_store::accounts::InitializeMarketVault { authority: w.keeper, store: w.store, mint: c, vault: w.vault(&c), system_program: sys(), token_program: spl_token::ID }, gmsol_store::instruction::InitializeMarketVault {}), &[w.keeper]);
    let mut mk = |index: Pubkey, long: Pubkey, short: Pubkey, name: &str| {
        let market_token = Pubkey::find_program_address(&[b"market_token_mint", w.store.as_ref(), index.as_ref(), long.as_ref(), short.as_ref()], &pid).0;
        let market = Pubkey::find_program_address(&[Market::SEED, w.store.as_ref(), market_token.as_ref()], &pid).0;
        run(&mut db, "initialize_market", ix(pid, gmsol_store::accounts::InitializeMarket { authority: w.keeper, store: w.store, market_token_mint: market_token, long_token_mint: long, short_token_mint: short, market, token_map: w.token_map, long_token_vault: w.vault(&long), short_token_vault: w.vault(&short), system_program: sys(), token_program: spl_token::ID }, gmsol_store::instruction::InitializeMarket { index_token_mint: index, name: name.into(), enable: true }), &[w.keeper]);
        MarketKeys { market_token, market, index, long, short }
    };
    let m3 = mk(c, w.b, c, "C/USD[B-C]");
    let m4 = mk(c, w.a, c, "C/USD[A-C]");
    let m5 = mk(w.b, w.b, w.a, "B/USD[B-A]");
    // further markets, used only by the long-path section (distinct (index, long, short) triples over the three tokens)
    let mut extra = vec![];
    for (k, (index, long, short)) in [(c, w.a, w.b), (w.a, w.b, w.a), (c, w.b, w.a), (w.a, w.a, c), (w.b, w.a, c), (w.a, c, w.a), (w.b, c, w.a), (w.a, w.b, c), (w.b, w.b, c), (w.a, c, w.b), (w.b, c, w.b), (c, c, w.b)].into_iter().enumerate() {
        extra.push(mk(index, long, short, &format!("X{k}")));
    }
    let feed_c = addr("w-feed-c");
    db.set(feed_c, feed_account(&w.store, &c, &feed_id_c, 0, 1_000, 10, 2_0000_0000, 2_0000_0000, 2_0000_0000, 8, true));
    for u in [w.user, w.user2] {
        db.set(ata(&u, &c), token_acc(c, u, 1_000_000_000_000));
    }
    let mut markets = vec![w.m1.clone(), w.m2.clone(), m3, m4, m5];
    markets.extend(extra);
    let x = X { markets, w, c, feed_c };
    // liquidity in every market
    for (i, m) in x.markets.clone().iter().enumerate() {
        let n = [40 + i as u8; 32];
        let (la, sa) = (50_000_000u64, 300_000_000u64);
        create_deposit(&x, &mut db, m, x.w.user2, n, m.long, la, &[], Some((m.short, sa))).unwrap_or_else(|e| panic!("seed create {i}: {e:?}"));
        execute_deposit(&x, &mut db, m, x.w.user2, n, m.long, &[], Some(m.short), true).unwrap_or_else(|e| panic!("seed execute {i}: {e:?}"));
    }
    // what open positions leave behind in the deposit market: collateral held in both pool tokens (recorded balance above the pools,
    // backed by the vault), fabricated through a real RevertibleMarket — slack that lets a mis-recorded hop pass the balance validation
    {
        use gmsol_model::{Bank as _, PerpMarketMut as _, Pool as _, PoolExt as _};
        let m0 = x.markets[0].clone();
        let (ca, cb): (u64, u64) = (3_000_000, 60_000_000);
        x.w.edit_market(&mut db, &m0, |rm| {
            rm.collateral_sum_pool_mut(true).unwrap().apply_delta_to_long_amount(&(ca as i128)).unwrap();
            rm.collateral_sum_pool_mut(true).unwrap().apply_delta_to_short_amount(&(cb as i128)).unwrap();
            rm.record_transferred_in_by_token(&m0.long, &ca).unwrap();
            rm.record_transferred_in_by_token(&m0.short, &cb).unwrap();
        });
        for (t, amt) in [(m0.long, ca), (m0.short, cb)] {
            let v = x.w.vault(&t);
            let cur = token_amount(&db, &v);
            db.set(v, token_acc(t, x.w.store, cur + amt));
        }
    }
    (db, x)
}

fn feed_of(x: &X, token: &Pubkey) -> Pubkey {
    if *token == x.w.a { x.w.feed_a } else if *token == x.w.b { x.w.feed_b } else { x.feed_c }
}

fn deposit_pda(x: &X, owner: &Pubkey, nonce: &[u8; 32]) -> Pubkey {
    Pubkey::find_program_address(&[Deposit::SEED, x.w.store.as_ref(), owner.as_ref(), nonce], &x.w.pid).0
}

/// deposit into `m`'s long side: `initial` tokens of `token`, swapped along `path` (markets); optionally a plain short-side amount
#[allow(clippy::too_many_arguments)]
fn create_deposit(x: &X, db: &mut Db, m: &MarketKeys, owner: Pubkey, nonce: [u8; 32], token: Pubkey, amount: u64, path: &[&MarketKeys], short: Option<(Pubkey, u64)>) -> std::result::Result<(), TxError> {
    let w = &x.w;
    let deposit = deposit_pda(x, &owner, &nonce);
    for (o, mint) in [(deposit, m.market_token), (deposit, token), (owner, m.market_token)] {
        w.ensure_ata(db, &o, &mint);
    }
    if let Some((st, _)) = short {
        w.ensure_ata(db, &deposit, &st);
    }
    let accounts = gmsol_store::accounts::CreateDeposit {
        owner, receiver: owner, store: w.store, market: m.market, deposit, market_token: m.market_token,
        initial_long_token: Some(token), initial_short_token: short.map(|s| s.0),
        market_token_escrow: ata(&deposit, &m.market_token), initial_long_token_escrow: Some(ata(&deposit, &token)), initial_short_token_escrow: short.map(|s| ata(&deposit, &s.0)),
        market_token_ata: ata(&owner, &m.market_token), initial_long_token_source: Some(ata(&owner, &token)), initial_short_token_source: short.map(|s| ata(&owner, &s.0)),
        system_program: sys(), token_program: spl_token::ID, associated_token_program: spl_associated_token_account::ID,
    };
    let params = gmsol_store::ops::deposit::CreateDepositParams { execution_lamports: 5_000_000, long_token_swap_length: path.len() as u8, short_token_swap_length: 0, initial_long_token_amount: amount, initial_short_token_amount: short.map(|s| s.1).unwrap_or(0), min_market_token_amount: 0, should_unwrap_native_token: false };
    let mut i = ix(w.pid, accounts, gmsol_store::instruction::CreateDeposit { nonce, params });
    i.accounts.extend(path.iter().map(|p| meta(p.market, false, false)));
    process(db, &i, &[owner])
}

#[allow(clippy::too_many_arguments)]
fn execute_deposit(x: &X, db: &mut Db, m: &MarketKeys, owner: Pubkey, nonce: [u8; 32], token: Pubkey, path: &[&MarketKeys], short: Option<Pubkey>, throw: bool) -> std::result::Result<(), TxError> {
    let w = &x.w;
    let deposit = deposit_pda(x, &owner, &nonce);
    let accounts = gmsol_store::accounts::ExecuteDeposit {
        authority: w.keeper, store: w.store, token_map: w.token_map, oracle: w.oracle, market: m.market, deposit, market_token: m.market_token,
        initial_long_token: Some(token), initial_short_token: short,
        market_token_escrow: ata(&deposit, &m.market_token), initial_long_token_escrow: Some(ata(&deposit, &token)), initial_short_token_escrow: short.map(|s| ata(&deposit, &s)),
        initial_long_token_vault: Some(w.vault(&token)), initial_short_token_vault: short.map(|s| w.vault(&s)),
        token_program: spl_token::ID, system_program: sys(), chainlink_program: None, event_authority: w.event_authority, program: w.pid,
    };
    let mut i = ix(w.pid, accounts, gmsol_store::instruction::ExecuteDeposit { execution_fee: 5_000, throw_on_execution_error: throw });
    // feeds in the order of the action's (sorted) token set, then the swap markets (unique, excluding the current one)
    let mut tokens: std::collections::BTreeSet<Pubkey> = [m.index, m.long, m.short].into_iter().collect();
    for p in path {
        tokens.extend([p.index, p.long, p.short]);
    }
    i.accounts.extend(tokens.iter().map(|t| meta(feed_of(x, t), false, false)));
    let mut seen = vec![m.market_token];
    for p in path {
        if !seen.contains(&p.market_token) {
            seen.push(p.market_token);
            i.accounts.push(meta(p.market, false, true));
        }
    }
    process(db, &i, &[w.keeper])
}

fn balances(x: &X, db: &Db) -> Vec<[u64; 2]> {
    x.markets.iter().map(|m| { let mk: Market = x.w.market(db, m); [mk.state().long_token_balance_raw(), mk.state().short_token_balance_raw()] }).collect()
}

fn unit_price(db: &Db, feed: &Pubkey) -> Price<u128> {
    let f: gmsol_store::states::PriceFeed = db.pod(feed).expect("feed");
    let conv = |v: u128| gmsol_utils::price::Decimal::try_from_price(v, 8, 6, 4).expect("price").to_unit_price();
    Price { min: conv(*f.price().min_price()), max: conv(*f.price().max_price()) }
}

/// reference: does the path chain from `token` to `target`, without duplicates? returns the token sequence
fn chain(path: &[&MarketKeys], token: Pubkey, target: Pubkey) -> Option<Vec<Pubkey>> {
    if path.len() > gmsol_utils::swap::SwapActionParams::MAX_TOTAL_LENGTH {
        return None;
    }
    let mut seen: Vec<Pubkey> = vec![];
    let mut cur = token;
    let mut seq = vec![cur];
    for p in path {
        if seen.contains(&p.market_token) {
            return None;
        }
        seen.push(p.market_token);
        cur = if p.long == cur && p.short != cur { p.short } else if p.short == cur && p.long != cur { p.long } else { return None };
        seq.push(cur);
    }
    (cur == target).then_some(seq)
}

fn check_path(x: &X, db0: &Db, pidx: &[usize], token: Pubkey, amount: u64, tamper: u8, sink: &mut e1::Sink) {
    W::set_time(1_000);
    gmsol_programs::model::clock_verif::set_now(Some(1_000));
    let m = &x.markets[0];
    let path: Vec<&MarketKeys> = pidx.iter().map(|i| &x.markets[*i]).collect();
    let want = chain(&path, token, m.long);
    let rp = || json!({"path": pidx, "token": if token == x.w.a { "A" } else if token == x.w.b { "B" } else { "C" }, "amount": amount, "tamper": tamper});
    let mut db = db0.clone();
    let n = [77u8; 32];
    let created = create_deposit(x, &mut db, m, x.w.user, n, token, amount, &path, None);
    if let Err(e) = &created {
        if e.is_panic() {
            sink.fail("C44/panic", format!("create_deposit panicked: {e:?}"), rp());
        }
    }
    sink.case(created.is_ok());
    match (&created, &want) {
        (Ok(()), None) => {
            sink.fail("C44/invalid_path_accepted_at_creation", format!("path {pidx:?} from token {:?} does not chain into the market's long token without duplicates, yet the deposit was created", rp()["token"]), rp());
            return;
        }
        (Err(e), Some(_)) => {
            if amount > 0 {
                sink.fail("C44/valid_path_rejected_at_creation", format!("path {pidx:?}: {e:?}"), rp());
            }
            return;
        }
        (Err(_), None) => return,
        (Ok(()), Some(_)) => {}
    }
    let seq = want.unwrap();
    let deposit = deposit_pda(x, &x.w.user, &n);
    let mut exec_path = path.clone();
    if tamper == 1 {
        // rewrite the stored path so that it contains a duplicate (first market twice): execution must not complete
        if path.len() < 2 {
            return;
        }
        let mut acc = db.get(&deposit);
        let (first, second) = (path[0].market_token.to_bytes(), path[1].market_token.to_bytes());
        let pos: Vec<usize> = (0..acc.data.len().saturating_sub(32)).filter(|i| acc.data[*i..*i + 32] == second).collect();
        // the path array entry is the occurrence right after the first market's entry
        let Some(p0) = (0..acc.data.len().saturating_sub(32)).find(|i| acc.data[*i..*i + 32] == first) else { return };
        let Some(p1) = pos.into_iter().find(|p| *p == p0 + 32) else { return };
        acc.data[p1..p1 + 32].copy_from_slice(&first);
        db.set(deposit, acc);
    } else if tamper == 2 {
        // rewrite a stored one-hop path [p] into [p, q, p] where q is another market over the same token pair:
        // every hop chains (t -> A -> t -> A), q is a market other than the deposit market whose index token the action already lists, and only the no-market-twice rule stands between this path and its execution
        if path.len() != 1 {
            return;
        }
        let p = path[0];
        let Some(q) = x.markets.iter().find(|q| q.market_token != p.market_token && q.market_token != m.market_token && ((q.long == p.long && q.short == p.short) || (q.long == p.short && q.short == p.long)) && (q.index == p.index || [m.long, m.short, m.index].contains(&q.index))) else { return };
        exec_path.push(q);
        let mut acc = db.get(&deposit);
        let Some(d) = db.pod::<Deposit>(&deposit) else { return };
        let off = 8 + (d.swap() as *const _ as usize - &d as *const _ as usize);
        let mut sw: gmsol_utils::swap::SwapActionParams = bytemuck::pod_read_unaligned(&acc.data[off..off + std::mem::size_of::<gmsol_utils::swap::SwapActionParams>()]);
        if sw.primary_length != 1 || sw.paths[0] != p.market_token {
            sink.fail("C44/machinery_swap_params_not_located", "could not locate the stored swap parameters".into(), rp());
            return;
        }
        sw.primary_length = 3;
        sw.paths[1] = q.market_token;
        sw.paths[2] = p.market_token;
        acc.data[off..off + std::mem::size_of::<gmsol_utils::swap::SwapActionParams>()].copy_from_slice(bytemuck::bytes_of(&sw));
        db.set(deposit, acc);
        sink.count("revisit_tampered");
    }
    let before = balances(x, &db);
    let vaults_before: Vec<u64> = [x.w.a, x.w.b, x.c].iter().map(|t| token_amount(&db, &x.w.vault(t))).collect();
    let executed = execute_deposit(x, &mut db, m, x.w.user, n, token, &exec_path, None, false);
    let state = db.pod::<Deposit>(&deposit).and_then(|d| d.header().action_state().ok());
    let after = balances(x, &db);
    let vaults_after: Vec<u64> = [x.w.a, x.w.b, x.c].iter().map(|t| token_amount(&db, &x.w.vault(t))).collect();
    if tamper != 0 {
        sink.case(false);
        if executed.is_ok() && state == Some(ActionState::Completed) {
            sink.fail("C44/duplicate_path_executed", format!("a stored path with a duplicate market ({pidx:?} tampered) was executed to completion"), rp());
        }
        return;
    }
    if let Err(e) = &executed {
        sink.count("execution_failed_hard");
        if e.is_panic() {
            sink.fail("C44/panic", format!("execute_deposit panicked: {e:?}"), rp());
        }
        return;
    }
    if state != Some(ActionState::Completed) {
        sink.count("execution_cancelled");
        if after != before || vaults_after != vaults_before {
            sink.fail("C44/cancelled_swap_moved_balances", format!("path {pidx:?}: balances {before:?} -> {after:?}"), rp());
        }
        return;
    }
    sink.count("executed");
    // (i) recorded balances and vaults move together, token by token
    for (ti, t) in [x.w.a, x.w.b, x.c].iter().enumerate() {
        let mut d: i128 = 0;
        for (mi, mk) in x.markets.iter().enumerate() {
            if mk.long == *t {
                d += after[mi][0] as i128 - before[mi][0] as i128;
            }
            if mk.short == *t {
                d += after[mi][1] as i128 - before[mi][1] as i128;
            }
        }
        if d != vaults_after[ti] as i128 - vaults_before[ti] as i128 {
            sink.fail("C44/recorded_balances_and_vault_diverge", format!("token {ti}: recorded balances moved by {d}, the vault by {}", vaults_after[ti] as i128 - vaults_before[ti] as i128), rp());
        }
    }
    // (ii) markets outside the path (and other than the deposit market) are untouched
    for (mi, _) in x.markets.iter().enumerate() {
        if mi != 0 && !pidx.contains(&mi) && after[mi] != before[mi] {
            sink.fail("C44/market_outside_the_path_touched", format!("market {mi}: {:?} -> {:?} (path {pidx:?})", before[mi], after[mi]), rp());
        }
    }
    // (iii) per hop: exactly the swapped amount enters one side and the next hop's input leaves the other,
    // with the amounts the (C40-validated) SDK model computes for each declared market in order
    let delta = |mi: usize, tok: Pubkey| -> i128 {
        let mk = &x.markets[mi];
        let mut d = 0i128;
        if mk.long == tok {
            d += after[mi][0] as i128 - before[mi][0] as i128;
        }
        if mk.short == tok {
            d += after[mi][1] as i128 - before[mi][1] as i128;
        }
        d
    };
    let mut expected: Vec<std::collections::BTreeMap<Pubkey, i128>> = vec![Default::default(); x.markets.len()];
    let mut amt = amount as u128;
    let mut sim_ok = true;
    for (h, mi) in pidx.iter().enumerate() {
        let mk = &x.markets[*mi];
        let (tin, tout) = (seq[h], seq[h + 1]);
        let prices = Prices { index_token_price: unit_price(&db, &feed_of(x, &mk.index)), long_token_price: unit_price(&db, &feed_of(x, &mk.long)), short_token_price: unit_price(&db, &feed_of(x, &mk.short)) };
        // the model of the market *before* the execution, plus what earlier hops already did to it (only when it repeats: never, duplicates are rejected)
        let acc = db0.get(&mk.market);
        let sdk: gmsol_programs::gmsol_store::accounts::Market = bytemuck::pod_read_unaligned(&acc.data[8..8 + std::mem::size_of::<gmsol_programs::gmsol_store::accounts::Market>()]);
        let mut model = MarketModel::from_parts(Arc::new(sdk), world::mint_supply(db0, &mk.market_token));
        let out = match model.swap(mk.long == tin, amt, prices).and_then(|a| a.execute()) {
            Ok(r) => *r.token_out_amount(),
            Err(_) => {
                sim_ok = false;
                break;
            }
        };
        *expected[*mi].entry(tin).or_default() += amt as i128;
        *expected[*mi].entry(tout).or_default() -= out as i128;
        amt = out;
    }
    if sim_ok && !pidx.contains(&0) {
        // the deposit market receives the final amount
        *expected[0].entry(m.long).or_default() += amt as i128;
        for (mi, exp) in expected.iter().enumerate() {
            for (tok, want) in exp {
                let got = delta(mi, *tok);
                if got != *want {
                    sink.fail("C44/hop_moved_a_different_amount", format!("path {pidx:?}: market {mi} recorded balance of token {tok} moved by {got}, the declared hop implies {want}"), rp());
                }
            }
        }
    } else if !sim_ok {
        sink.count("reference_swap_failed");
    }
}

pub fn run(cli: &Cli) -> Report {
    let mut rep = Report::new(cli, "exploration");
    rep.rule("E1 over swap paths: every sequence of 0..=3 markets out of five (A|A/B, B|A/B, C|B/C, C|A/C, B|B/A; so paths with duplicates, non-chaining paths and paths through the deposit market itself all occur) x initial token in {A,B,C} x amounts, as the long-side swap path of a real create_deposit + execute_deposit into the first market: creation must accept exactly the duplicate-free paths that chain from the initial token into the market's long token; after a completed execution recorded balances and vault balances move together, markets outside the path are untouched, and each declared hop moved exactly the amounts the (C40-validated) SDK swap computes, in order; stored paths tampered to contain a duplicate (adjacent: [p,p,..]; revisiting: [p,q,p] over one token pair, where every hop chains) must not execute; non-trivial = the deposit was created");
    rep.assume("svm-lite runtime trusted; swap orders use the same SwapMarkets code (executed in C22/C23). Long paths: two paths each of eight, nine, ten and eleven hops (depth-first over seventeen markets) per initial token: within the ten-step limit they are created, executed and every hop compared with the reference; eleven hops must be refused at creation. Second section: real create/execute withdrawal from the first market with every pair of (long-side path, short-side path) of length 0..=2 over the four other markets: creation accepts exactly the pairs whose paths chain without a repeated market; after completion the recorded balances of every market moved exactly as the withdrawal followed by the two declared paths implies (SDK model threaded through both sides in order), and the escrow received the reference amounts. Third section: the SwapActionParams accessors (paths, first/last market of each side, duplicate validation, unique markets) over every (primary, secondary) length pair within the total limit x three fillings against the declared slices");
    let (db, x) = build();
    if let Some(rv) = &cli.replay {
        let pidx: Vec<usize> = rv["path"].as_array().map(|a| a.iter().map(|v| v.as_u64().unwrap_or(0) as usize).collect()).unwrap_or_default();
        let token = match rv["token"].as_str() { Some("A") => x.w.a, Some("B") => x.w.b, _ => x.c };
        for _ in 0..2 {
            e1::run(&mut rep, "replay", &[0u8], |_, sink| check_path(&x, &db, &pidx, token, rv["amount"].as_u64().unwrap_or(0), rv["tamper"].as_u64().unwrap_or(0) as u8, sink));
        }
        if rep.per_key.values().any(|c| c % 2 != 0) {
            rep.machinery("replay is not deterministic");
        }
        for v in rep.per_key.values_mut() {
            *v /= 2;
        }
        return rep;
    }
    let th = cli.tier.thorough();
    let mut paths: Vec<Vec<usize>> = vec![vec![]];
    let max_len = 3;
    let mut frontier: Vec<Vec<usize>> = vec![vec![]];
    for _ in 0..max_len {
        let mut next = vec![];
        for p in &frontier {
            for k in 0..N_ENUM {
                let mut q = p.clone();
                q.push(k);
                next.push(q);
            }
        }
        paths.extend(next.iter().cloned());
        frontier = next;
    }
    let amounts: Vec<u64> = if th { vec![1, 1_000, 1_000_000, 7_777_777, 40_000_000] } else { vec![1_000, 1_000_000] };
    let counters = e1::run(&mut rep, "swap paths through deposits", &paths, |p, sink| {
        for token in [x.w.a, x.w.b, x.c] {
            for &amount in &amounts {
                check_path(&x, &db, p, token, amount, 0, sink);
            }
            check_path(&x, &db, p, token, 1_000_000, 1, sink);
            check_path(&x, &db, p, token, 1_000_000, 2, sink);
        }
    });
    if counters.get("revisit_tampered").copied().unwrap_or(0) == 0 {
        rep.machinery("vacuous exploration: no revisiting path was fabricated");
    }
    if counters.get("executed").copied().unwrap_or(0) == 0 {
        rep.machinery("vacuous exploration: no swap path was executed");
    }
    long_paths(&mut rep, &x, &db);
    withdrawals(&mut rep, &x, &db, th);
    accessors(&mut rep);
    gmsol_programs::model::clock_verif::set_now(None);
    rep
}

// ------------------------------------------------------------------ withdrawals: both sides, each with its own path

fn withdrawal_pda(x: &X, owner: &Pubkey, nonce: &[u8; 32]) -> Pubkey {
    Pubkey::find_program_address(&[gmsol_store::states::Withdrawal::SEED, x.w.store.as_ref(), owner.as_ref(), nonce], &x.w.pid).0
}

/// withdraw `amount` market tokens of market 0; the long output (A) is swapped along `lp`, the short output (B) along `sp`
fn check_withdrawal(x: &X, db0: &Db, lp: &[usize], sp: &[usize], amount: u64, sink: &mut e1::Sink) {
    use gmsol_model::LiquidityMarketMutExt;
    W::set_time(1_000);
    gmsol_programs::model::clock_verif::set_now(Some(1_000));
    let w = &x.w;
    let m = &x.markets[0];
    let owner = w.user2;
    let n = [0x57u8; 32];
    let rp = || json!({"section": "withdrawal", "long_path": lp, "short_path": sp, "amount": amount});
    let (lpath, spath): (Vec<&MarketKeys>, Vec<&MarketKeys>) = (lp.iter().map(|i| &x.markets[*i]).collect(), sp.iter().map(|i| &x.markets[*i]).collect());
    // where each side ends up when the path chains (any final token is allowed for a withdrawal)
    let end = |path: &[&MarketKeys], start: Pubkey| -> Option<Vec<Pubkey>> {
        let mut cur = start;
        let mut seq = vec![cur];
        let mut seen: Vec<Pubkey> = vec![];
        for p in path {
            if seen.contains(&p.market_token) {
                return None;
            }
            seen.push(p.market_token);
            cur = if p.long == cur && p.short != cur { p.short } else if p.short == cur && p.long != cur { p.long } else { return None };
            seq.push(cur);
        }
        Some(seq)
    };
    let (lseq, sseq) = (end(&lpath, m.long), end(&spath, m.short));
    let (fl, fs) = (lseq.as_ref().map(|s| *s.last().unwrap()).unwrap_or(m.long), sseq.as_ref().map(|s| *s.last().unwrap()).unwrap_or(m.short));
    let mut db = db0.clone();
    let wd = withdrawal_pda(x, &owner, &n);
    for (o, mint) in [(wd, m.market_token), (wd, fl), (wd, fs), (owner, m.market_token)] {
        w.ensure_ata(&mut db, &o, &mint);
    }
    let accounts = gmsol_store::accounts::CreateWithdrawal {
        owner, receiver: owner, store: w.store, market: m.market, withdrawal: wd, market_token: m.market_token, final_long_token: fl, final_short_token: fs,
        market_token_escrow: ata(&wd, &m.market_token), final_long_token_escrow: ata(&wd, &fl), final_short_token_escrow: ata(&wd, &fs), market_token_source: ata(&owner, &m.market_token),
        system_program: sys(), token_program: spl_token::ID, associated_token_program: spl_associated_token_account::ID,
    };
    let params = gmsol_store::ops::withdrawal::CreateWithdrawalParams { execution_lamports: 5_000_000, long_token_swap_path_length: lp.len() as u8, short_token_swap_path_length: sp.len() as u8, market_token_amount: amount, min_long_token_amount: 0, min_short_token_amount: 0, should_unwrap_native_token: false };
    let mut i = ix(w.pid, accounts, gmsol_store::instruction::CreateWithdrawal { nonce: n, params });
    i.accounts.extend(lpath.iter().chain(spath.iter()).map(|p| meta(p.market, false, false)));
    let created = process(&mut db, &i, &[owner]);
    let valid = lseq.is_some() && sseq.is_some();
    sink.case(created.is_ok());
    match (&created, valid) {
        (Ok(()), false) => {
            sink.fail("C44/invalid_path_accepted_at_creation", format!("withdrawal with long path {lp:?} / short path {sp:?} was created"), rp());
            return;
        }
        (Err(e), true) => {
            sink.fail("C44/valid_path_rejected_at_creation", format!("withdrawal with long path {lp:?} / short path {sp:?}: {e:?}"), rp());
            return;
        }
        (Err(_), false) => return,
        _ => {}
    }
    let (lseq, sseq) = (lseq.unwrap(), sseq.unwrap());
    let before = balances(x, &db);
    // execute
    let accounts = gmsol_store::accounts::ExecuteWithdrawal {
        authority: w.keeper, store: w.store, token_map: w.token_map, oracle: w.oracle, market: m.market, withdrawal: wd, market_token: m.market_token, final_long_token: fl, final_short_token: fs,
        market_token_escrow: ata(&wd, &m.market_token), final_long_token_escrow: ata(&wd, &fl), final_short_token_escrow: ata(&wd, &fs),
        market_token_vault: w.vault(&m.market_token), final_long_token_vault: w.vault(&fl), final_short_token_vault: w.vault(&fs),
        token_program: spl_token::ID, system_program: sys(), chainlink_program: None, event_authority: w.event_authority, program: w.pid,
    };
    let mut i = ix(w.pid, accounts, gmsol_store::instruction::ExecuteWithdrawal { execution_fee: 5_000, throw_on_execution_error: false });
    let mut tokens: std::collections::BTreeSet<Pubkey> = [m.index, m.long, m.short].into_iter().collect();
    for p in lpath.iter().chain(spath.iter()) {
        tokens.extend([p.index, p.long, p.short]);
    }
    i.accounts.extend(tokens.iter().map(|t| meta(feed_of(x, t), false, false)));
    let mut seen = vec![m.market_token];
    for p in lpath.iter().chain(spath.iter()) {
        if !seen.contains(&p.market_token) {
            seen.push(p.market_token);
            i.accounts.push(meta(p.market, false, true));
        }
    }
    let executed = process(&mut db, &i, &[w.keeper]);
    use gmsol_store::states::common::action::Action as _;
    let state = db.pod::<gmsol_store::states::Withdrawal>(&wd).and_then(|d| d.header().action_state().ok());
    if executed.is_err() || state != Some(ActionState::Completed) {
        sink.count("withdrawal_not_completed");
        if balances(x, &db) != before && state != Some(ActionState::Completed) && executed.is_ok() {
            sink.fail("C44/cancelled_swap_moved_balances", format!("withdrawal with paths {lp:?} / {sp:?} was cancelled but balances moved"), rp());
        }
        return;
    }
    sink.count("withdrawals_executed");
    let after = balances(x, &db);
    // reference: the SDK model of every market as it was before, threaded through the withdrawal and both paths in order
    let model_of = |mi: usize| -> MarketModel {
        let mk = &x.markets[mi];
        let acc = db0.get(&mk.market);
        let sdk: gmsol_programs::gmsol_store::accounts::Market = bytemuck::pod_read_unaligned(&acc.data[8..8 + std::mem::size_of::<gmsol_programs::gmsol_store::accounts::Market>()]);
        MarketModel::from_parts(Arc::new(sdk), world::mint_supply(db0, &mk.market_token))
    };
    let prices_of = |mi: usize| -> Prices<u128> {
        let mk = &x.markets[mi];
        Prices { index_token_price: unit_price(&db, &feed_of(x, &mk.index)), long_token_price: unit_price(&db, &feed_of(x, &mk.long)), short_token_price: unit_price(&db, &feed_of(x, &mk.short)) }
    };
    let mut models: std::collections::BTreeMap<usize, MarketModel> = Default::default();
    let mut expected: Vec<[i128; 2]> = vec![[0, 0]; x.markets.len()];
    let mut m0 = model_of(0);
    let Ok((lo, so)) = m0.withdraw(amount as u128, prices_of(0)).and_then(|a| a.execute()).map(|r| (*r.long_token_output(), *r.short_token_output())) else {
        sink.count("reference_withdrawal_failed");
        return;
    };
    expected[0][0] -= lo as i128;
    expected[0][1] -= so as i128;
    let mut finals = [lo, so];
    for (side, (path, seq)) in [(lp, &lseq), (sp, &sseq)].into_iter().enumerate() {
        let mut amt = finals[side];
        if amt == 0 {
            continue;
        }
        for (h, mi) in path.iter().enumerate() {
            let mk = &x.markets[*mi];
            let (tin, tout) = (seq[h], seq[h + 1]);
            let model = models.entry(*mi).or_insert_with(|| model_of(*mi));
            let Ok(out) = model.swap(mk.long == tin, amt, prices_of(*mi)).and_then(|a| a.execute()).map(|r| *r.token_out_amount()) else {
                sink.count("reference_swap_failed");
                return;
            };
            expected[*mi][if mk.long == tin { 0 } else { 1 }] += amt as i128;
            expected[*mi][if mk.long == tout { 0 } else { 1 }] -= out as i128;
            amt = out;
        }
        finals[side] = amt;
    }
    for (mi, e) in expected.iter().enumerate() {
        let got = [after[mi][0] as i128 - before[mi][0] as i128, after[mi][1] as i128 - before[mi][1] as i128];
        if got != *e {
            sink.fail("C44/withdrawal_moved_recorded_balances_of_the_wrong_market", format!("withdrawal of {amount} with long path {lp:?} / short path {sp:?}: market {mi} recorded balances (long token, short token) moved by {got:?}, the declared paths imply {e:?}"), rp());
        }
    }
    // what reached the escrow
    let (gl, gs) = (token_amount(&db, &ata(&wd, &fl)) as u128, token_amount(&db, &ata(&wd, &fs)) as u128);
    let want = if fl == fs { (finals[0] + finals[1], finals[0] + finals[1]) } else { (finals[0], finals[1]) };
    if (gl, gs) != want {
        sink.fail("C44/withdrawal_paid_a_different_amount", format!("long path {lp:?} / short path {sp:?}: escrow received ({gl}, {gs}), the reference gives {want:?}"), rp());
    }
}

fn withdrawals(rep: &mut Report, x: &X, db0: &Db, th: bool) {
    // the withdrawer's market tokens of market 0 must be in its own account
    let mut db = db0.clone();
    W::set_time(1_000);
    let n = [40u8; 32];
    let dep = deposit_pda(x, &x.w.user2, &n);
    let minted = token_amount(&db, &ata(&dep, &x.markets[0].market_token));
    db.set(ata(&dep, &x.markets[0].market_token), world::token_acc(x.markets[0].market_token, dep, 0));
    let user_ata = ata(&x.w.user2, &x.markets[0].market_token);
    let have = token_amount(&db, &user_ata);
    db.set(user_ata, world::token_acc(x.markets[0].market_token, x.w.user2, have + minted));
    // paths over the markets other than the withdrawal market, length 0..=2 per side
    let others: Vec<usize> = (1..N_ENUM).collect();
    let mut paths: Vec<Vec<usize>> = vec![vec![]];
    for a in &others {
        paths.push(vec![*a]);
        for b in &others {
            paths.push(vec![*a, *b]);
        }
    }
    let mut cases = vec![];
    for l in &paths {
        for s in &paths {
            cases.push((l.clone(), s.clone()));
        }
    }
    let amounts: Vec<u64> = if th { vec![1_000_000_000, 37_000_000_001] } else { vec![5_000_000_000] };
    let counters = e1::run(rep, "withdrawals with a swap path per side", &cases, |(l, s), sink| {
        for &a in &amounts {
            check_withdrawal(x, &db, l, s, a, sink);
        }
    });
    if counters.get("withdrawals_executed").copied().unwrap_or(0) == 0 && rep.violations_total() == 0 {
        rep.machinery("vacuous exploration: no withdrawal with swap paths was executed");
    }
}

// ------------------------------------------------------------------ the path accessors every action relies on

/// E1: SwapActionParams with every (primary length, secondary length) up to the total limit over a small market alphabet:
/// the accessors describe exactly the declared paths
fn accessors(rep: &mut Report) {
    use gmsol_utils::swap::SwapActionParams;
    let toks: Vec<Pubkey> = (0..4).map(|i| crate::svm::addr(&format!("c44-mt-{i}"))).collect();
    let lens: Vec<(usize, usize)> = (0..=SwapActionParams::MAX_TOTAL_LENGTH).flat_map(|p| (0..=SwapActionParams::MAX_TOTAL_LENGTH - p).map(move |s| (p, s))).collect();
    e1::run(rep, "swap path accessors", &lens, |&(pl, sl), sink| {
        // three fillings: all distinct-ish (cycling), all the same, first == last
        for fill in 0..3usize {
            let mut sp = SwapActionParams::default();
            sp.primary_length = pl as u8;
            sp.secondary_length = sl as u8;
            sp.current_market_token = toks[3];
            let mut all = vec![];
            for i in 0..pl + sl {
                let t = match fill { 0 => toks[i % 3], 1 => toks[0], _ => if i == 0 || i + 1 == pl + sl { toks[1] } else { toks[2] } };
                sp.paths[i] = t;
                all.push(t);
            }
            let (p, s) = (&all[..pl], &all[pl..]);
            sink.case(pl + sl > 0);
            let rp = || json!({"section": "accessors", "primary": pl, "secondary": sl, "fill": fill});
            let mut bad = vec![];
            if sp.primary_swap_path() != p { bad.push("primary_swap_path"); }
            if sp.secondary_swap_path() != s { bad.push("secondary_swap_path"); }
            if sp.first_market_token(true) != p.first() { bad.push("first_market_token(primary)"); }
            if sp.first_market_token(false) != s.first() { bad.push("first_market_token(secondary)"); }
            if sp.last_market_token(true) != p.last() { bad.push("last_market_token(primary)"); }
            if sp.last_market_token(false) != s.last() { bad.push("last_market_token(secondary)"); }
            let dup = |x: &[Pubkey]| (0..x.len()).any(|i| x[..i].contains(&x[i]));
            if sp.validated_primary_swap_path().is_ok() == dup(p) { bad.push("validated_primary_swap_path"); }
            if sp.validated_secondary_swap_path().is_ok() == dup(s) { bad.push("validated_secondary_swap_path"); }
            let mut uniq: Vec<Pubkey> = vec![];
            for t in &all {
                if *t != toks[3] && !uniq.contains(t) { uniq.push(*t); }
            }
            if sp.unique_market_tokens_excluding_current(&toks[3]).copied().collect::<Vec<_>>() != uniq { bad.push("unique_market_tokens_excluding_current"); }
            for b in bad {
                sink.fail("C44/path_accessor_differs_from_declared_path", format!("{b}: primary length {pl}, secondary length {sl}, filling {fill}"), rp());
            }
        }
    });
}


// ------------------------------------------------------------------ paths at the ten-step limit

/// depth-first search for market-simple paths of exactly `len` hops from `from` to `to` that avoid market 0 (the deposit
/// market); returns up to `want` of them in a fixed order
fn find_paths(x: &X, from: Pubkey, to: Pubkey, len: usize, want: usize) -> Vec<Vec<usize>> {
    fn go(x: &X, cur: Pubkey, to: Pubkey, len: usize, path: &mut Vec<usize>, out: &mut Vec<Vec<usize>>, want: usize) {
        if out.len() >= want {
            return;
        }
        if path.len() == len {
            if cur == to {
                out.push(path.clone());
            }
            return;
        }
        for mi in 1..x.markets.len() {
            if path.contains(&mi) {
                continue;
            }
            let m = &x.markets[mi];
            let next = if m.long == cur && m.short != cur { m.short } else if m.short == cur && m.long != cur { m.long } else { continue };
            path.push(mi);
            go(x, next, to, len, path, out, want);
            path.pop();
        }
    }
    let mut out = vec![];
    go(x, from, to, len, &mut vec![], &mut out, want);
    out
}

fn long_paths(rep: &mut Report, x: &X, db: &Db) {
    let mut cases: Vec<(Vec<usize>, Pubkey)> = vec![];
    for token in [x.w.a, x.w.b, x.c] {
        for len in [8usize, 9, 10, 11] {
            for p in find_paths(x, token, x.markets[0].long, len, 2) {
                cases.push((p, token));
            }
        }
    }
    let counters = e1::run(rep, "swap paths of eight to eleven hops", &cases, |(p, token), sink| {
        check_path(x, db, p, *token, 1_000_000, 0, sink);
        sink.count(if p.len() > 10 { "paths_over_the_limit" } else { "paths_within_the_limit" });
    });
    for k in ["paths_over_the_limit", "paths_within_the_limit"] {
        if counters.get(k).copied().unwrap_or(0) == 0 {
            rep.machinery(format!("vacuous long-path section: {k} never occurred"));
        }
    }
}
