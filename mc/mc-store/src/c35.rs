//! C35 — stored names read back exactly as they were accepted (E1 over structured strings).
use anchor_lang::prelude::*;
use gmsol_store::states::{Market, Store, TokenConfig};
use gmsol_utils::fixed_str::{bytes_to_fixed_str, fixed_str_to_bytes};
use mc_core::{e1, json, Cli, Report};

use crate::svm;

const PIECES: [&str; 5] = ["", "a", "\0", "é", "😀"];

/// Structured strings: prefix + fill*k + suffix for every piece combination, hitting every byte
/// length 0..=max+2 that the pieces can produce, plus a NUL at every position of an otherwise
/// plain name and names that exactly fill / overflow the field with multi-byte characters.
fn names(max: usize) -> Vec<String> {
    let mut v: Vec<String> = vec![];
    for pre in PIECES {
        for fill in &PIECES[1..] {
            for suf in PIECES {
                for total in 0..=max + 2 {
                    let fixed = pre.len() + suf.len();
                    if total < fixed || (total - fixed) % fill.len() != 0 {
                        continue;
                    }
                    let k = (total - fixed) / fill.len();
                    v.push(format!("{pre}{}{suf}", fill.repeat(k)));
                }
            }
        }
    }
    for len in [1usize, 2, max - 1, max, max + 1] {
        for pos in 0..len {
            let mut s: Vec<u8> = vec![b'b'; len];
            s[pos] = 0;
            v.push(String::from_utf8(s).unwrap());
        }
    }
    v.sort();
    v.dedup();
    v
}

fn helper<const MAX: usize>(name: &str, sink: &mut e1::Sink) {
    let r = mc_core::catch(|| fixed_str_to_bytes::<MAX>(name).ok());
    let rp = || json!({"what": "helper", "max": MAX, "name": name});
    match r {
        Err(p) => {
            sink.case(false);
            sink.fail("C35/helper/panic", format!("fixed_str_to_bytes::<{MAX}>({name:?}) panicked: {p}"), rp());
        }
        Ok(None) => {
            sink.case(false);
            // completeness guard: a plain NUL-free name shorter than the field must be accepted
            if name.len() < MAX && !name.contains('\0') {
                sink.fail("C35/helper/valid_name_rejected", format!("fixed_str_to_bytes::<{MAX}>({name:?}) rejected a name that fits"), rp());
            }
        }
        Ok(Some(b)) => {
            sink.case(true);
            match mc_core::catch(|| bytes_to_fixed_str::<MAX>(&b).map(|s| s.to_string()).ok()) {
                Ok(Some(back)) if back == name => {}
                Ok(other) => {
                    let key = if name.contains('\0') { "C35/accepted_name_not_read_back/contains_nul" } else if name.len() == MAX { "C35/accepted_name_not_read_back/exact_fit" } else { "C35/accepted_name_not_read_back" };
                    sink.fail(key, format!("fixed_str_to_bytes::<{MAX}> accepted {name:?} ({} bytes) but it reads back as {other:?}", name.len()), rp());
                }
                Err(p) => sink.fail("C35/helper/panic", format!("bytes_to_fixed_str panicked: {p}"), rp()),
            }
        }
    }
}

fn class(name: &str, max: usize) -> &'static str {
    if name.contains('\0') {
        "contains_nul"
    } else if name.len() == max {
        "exact_fit"
    } else {
        "other"
    }
}

fn constructors(name: &str, sink: &mut e1::Sink) {
    let user = svm::addr("c35-user");
    // --- store key
    let mut store: Box<Store> = Box::new(bytemuck::Zeroable::zeroed());
    let r = mc_core::catch(|| store.init(svm::addr("c35-auth"), name, 255, svm::addr("c35-r"), svm::addr("c35-h")).is_ok());
    sink.case(matches!(r, Ok(true)));
    let rp = |what: &str| json!({"what": what, "name": name});
    match r {
        Ok(true) => {
            let back = store.key().map(|s| s.to_string()).ok();
            if back.as_deref() != Some(name) {
                sink.fail(&format!("C35/store_key_not_read_back/{}", class(name, 32)), format!("Store::init accepted key {name:?}, key() returns {back:?}"), rp("store"));
            }
        }
        Ok(false) => {}
        Err(p) => sink.fail("C35/panic", format!("Store::init panicked on {name:?}: {p}"), rp("store")),
    }
    // --- role: accepted => listed, grantable, checkable, disable-able
    let mut store: Box<Store> = Box::new(bytemuck::Zeroable::zeroed());
    store.init(svm::addr("c35-auth"), "", 255, svm::addr("c35-r"), svm::addr("c35-h")).expect("store init");
    let r = mc_core::catch(|| store.enable_role(name).is_ok());
    sink.case(matches!(r, Ok(true)));
    match r {
        Ok(true) => {
            let listed: Vec<Option<String>> = store.role().roles().map(|r| r.ok().map(|s| s.to_string())).collect();
            let mut problems = vec![];
            if !listed.contains(&Some(name.to_string())) {
                problems.push(format!("roles() lists {listed:?}"));
            }
            if let Err(e) = store.grant(&user, name) {
                problems.push(format!("grant fails: {e:?}"));
            }
            match store.role().has_role(&user, name) {
                Ok(true) => {}
                other => problems.push(format!("has_role after grant: {other:?}")),
            }
            if let Err(e) = store.revoke(&user, name) {
                problems.push(format!("revoke fails: {e:?}"));
            }
            if let Err(e) = store.disable_role(name) {
                problems.push(format!("disable_role fails: {e:?}"));
            }
            if !problems.is_empty() {
                sink.fail(&format!("C35/accepted_role_unusable/{}", class(name, 32)), format!("enable_role accepted {name:?} ({} bytes) but: {}", name.len(), problems.join("; ").chars().take(400).collect::<String>()), rp("role"));
            }
        }
        Ok(false) => {}
        Err(p) => sink.fail("C35/panic", format!("enable_role panicked on {name:?}: {p}"), rp("role")),
    }
    // --- market name
    svm::set_clock(1_000, 1);
    let mut m: Box<Market> = Box::new(Market::default());
    let r = mc_core::catch(|| m.init(254, svm::addr("c35-store"), name, svm::addr("c35-mt"), svm::addr("c35-i"), svm::addr("c35-a"), svm::addr("c35-b"), true).is_ok());
    sink.case(matches!(r, Ok(true)));
    match r {
        Ok(true) => {
            let back = m.name().map(|s| s.to_string()).ok();
            if back.as_deref() != Some(name) {
                sink.fail(&format!("C35/market_name_not_read_back/{}", class(name, 64)), format!("Market::init accepted name {name:?} ({} bytes), name() returns {back:?}", name.len()), rp("market"));
            }
        }
        Ok(false) => {}
        Err(p) => sink.fail("C35/panic", format!("Market::init panicked on {name:?}: {p}"), rp("market")),
    }
    // --- token config name
    let mut tc: TokenConfig = bytemuck::Zeroable::zeroed();
    let builder = gmsol_store::states::UpdateTokenConfigParams::default();
    let r = mc_core::catch(|| gmsol_store::verif::token_config_update(&mut tc, name, false, 6, builder, true, true).is_ok());
    sink.case(matches!(r, Ok(true)));
    match r {
        Ok(true) => {
            let back = tc.name().map(|s| s.to_string()).ok();
            if back.as_deref() != Some(name) {
                sink.fail(&format!("C35/token_name_not_read_back/{}", class(name, 32)), format!("token config accepted name {name:?} ({} bytes), name() returns {back:?}", name.len()), rp("token_config"));
            }
        }
        Ok(false) => {}
        Err(p) => sink.fail("C35/panic", format!("TokenConfig update panicked on {name:?}: {p}"), rp("token_config")),
    }
    // --- timelock executor (through the real initialize_executor instruction)
    crate::tlworld::c35_executor(name, sink);
}

pub fn run(cli: &Cli) -> Report {
    let mut rep = Report::new(cli, "exploration");
    rep.rule("E1: every structured string (prefix + repeated fill + suffix over {\"\", a, NUL, 2-byte, 4-byte characters}, every byte length 0..=capacity+2; a NUL at every position of names around the capacity) through fixed_str_to_bytes/bytes_to_fixed_str for capacities 32 and 64 and through every accepting constructor (Store::init, enable_role -> grant/has_role/revoke/disable_role, Market::init, token config, timelock initialize_executor instruction); non-trivial = the name was accepted and read back");
    if let Some(rv) = &cli.replay {
        let name = rv["name"].as_str().unwrap_or("").to_string();
        for _ in 0..2 {
            e1::run(&mut rep, "replay", &[name.clone()], |n, sink| {
                helper::<32>(n, sink);
                helper::<64>(n, sink);
                constructors(n, sink);
            });
        }
        if rep.per_key.values().any(|c| c % 2 != 0) {
            rep.machinery("replay is not deterministic");
        }
        for v in rep.per_key.values_mut() {
            *v /= 2;
        }
        return rep;
    }
    let n32 = names(32);
    let n64 = names(64);
    e1::run(&mut rep, "helpers, capacity 32", &n32, |n, sink| helper::<32>(n, sink));
    e1::run(&mut rep, "helpers, capacity 64", &n64, |n, sink| helper::<64>(n, sink));
    let mut all = n32.clone();
    all.extend(n64.iter().cloned());
    all.sort();
    all.dedup();
    e1::run(&mut rep, "accepting constructors", &all, |n, sink| constructors(n, sink));
    rep
}
