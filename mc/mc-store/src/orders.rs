//! Position orders in the store world (E3): user / position / trade-event-buffer / claimable-account
//! preparation and market increase / decrease orders, all through the real instructions.
use anchor_lang::prelude::*;
use gmsol_store::events::TradeData;
use gmsol_store::ops::order::CreateOrderParams;
use gmsol_store::states::{order::OrderKind, Order, Position, Seed, Store, UserHeader};
use gmsol_utils::order::PositionKind;

use crate::svm::{meta, process, Db, TxError};
use crate::world::{ata, ix, sys, MarketKeys, W};

/// callback accounts of an order (the competition program as the callback target)
#[derive(Clone, Copy, Debug)]
pub struct Callback {
    pub authority: Pubkey,
    pub program: Pubkey,
    pub shared: Pubkey,
    pub partitioned: Pubkey,
}

thread_local! {
    /// callback used by the order helpers of this thread (None = orders without callback)
    pub static CALLBACK: std::cell::Cell<Option<Callback>> = const { std::cell::Cell::new(None) };
}

pub fn with_callback<R>(cb: Option<Callback>, f: impl FnOnce() -> R) -> R {
    let old = CALLBACK.with(|c| c.replace(cb));
    let r = f();
    CALLBACK.with(|c| c.set(old));
    r
}

fn cb() -> Option<Callback> {
    CALLBACK.with(|c| c.get())
}

/// which position an order works on
#[derive(Clone, Copy, Debug, PartialEq, Eq)]
pub struct Side {
    pub is_long: bool,
    pub collateral_long: bool,
}

impl W {
    pub fn user_pda(&self, owner: &Pubkey) -> Pubkey {
        Pubkey::find_program_address(&[UserHeader::SEED, self.store.as_ref(), owner.as_ref()], &self.pid).0
    }
    pub fn position_pda(&self, owner: &Pubkey, m: &MarketKeys, side: Side) -> Pubkey {
        let collateral = if side.collateral_long { m.long } else { m.short };
        let kind = if side.is_long { PositionKind::Long } else { PositionKind::Short } as u8;
        Pubkey::find_program_address(&[Position::SEED, self.store.as_ref(), owner.as_ref(), m.market_token.as_ref(), collateral.as_ref(), &[kind]], &self.pid).0
    }
    pub fn order_pda(&self, owner: &Pubkey, nonce: &[u8; 32]) -> Pubkey {
        Pubkey::find_program_address(&[Order::SEED, self.store.as_ref(), owner.as_ref(), nonce], &self.pid).0
    }
    pub fn event_pda(&self, authority: &Pubkey, index: u16) -> Pubkey {
        Pubkey::find_program_address(&[TradeData::SEED, self.store.as_ref(), authority.as_ref(), &index.to_le_bytes()], &self.pid).0
    }
    pub fn claimable_pda(&self, db: &Db, mint: &Pubkey, owner: &Pubkey, ts: i64) -> Pubkey {
        let store: Store = db.pod(&self.store).expect("store");
        let key = store.claimable_time_key(ts).expect("claimable time key");
        Pubkey::find_program_address(&[gmsol_store::constants::CLAIMABLE_ACCOUNT_SEED, self.store.as_ref(), mint.as_ref(), owner.as_ref(), &key], &self.pid).0
    }

    pub fn prepare_user(&self, db: &mut Db, owner: Pubkey) -> std::result::Result<(), TxError> {
        let accounts = gmsol_store::accounts::PrepareUser { owner, store: self.store, user: self.user_pda(&owner), system_program: sys() };
        process(db, &ix(self.pid, accounts, gmsol_store::instruction::PrepareUser {}), &[owner])
    }

    pub fn prepare_event_buffer(&self, db: &mut Db, authority: Pubkey, index: u16) -> std::result::Result<(), TxError> {
        let accounts = gmsol_store::accounts::PrepareTradeEventBuffer { authority, store: self.store, event: self.event_pda(&authority, index), system_program: sys() };
        process(db, &ix(self.pid, accounts, gmsol_store::instruction::PrepareTradeEventBuffer { index }), &[authority])
    }

    pub fn use_claimable(&self, db: &mut Db, mint: Pubkey, owner: Pubkey, ts: i64, by: Pubkey) -> std::result::Result<Pubkey, TxError> {
        let account = self.claimable_pda(db, &mint, &owner, ts);
        let i = self.use_claimable_ix(db, mint, owner, ts, by);
        process(db, &i, &[by]).map(|_| account)
    }

    pub fn use_claimable_ix(&self, db: &Db, mint: Pubkey, owner: Pubkey, ts: i64, by: Pubkey) -> solana_program::instruction::Instruction {
        let account = self.claimable_pda(db, &mint, &owner, ts);
        let accounts = gmsol_store::accounts::UseClaimableAccount { authority: by, store: self.store, mint, owner, account, system_program: sys(), token_program: spl_token::ID };
        ix(self.pid, accounts, gmsol_store::instruction::UseClaimableAccount { timestamp: ts, amount: 0 })
    }

    pub fn order_params(kind: OrderKind, side: Side, collateral_delta: u64, size_delta_value: u128) -> CreateOrderParams {
        CreateOrderParams {
            kind,
            decrease_position_swap_type: None,
            execution_lamports: 5_000_000,
            swap_path_length: 0,
            initial_collateral_delta_amount: collateral_delta,
            size_delta_value,
            is_long: side.is_long,
            is_collateral_long: side.collateral_long,
            min_output: None,
            trigger_price: None,
            acceptable_price: None,
            should_unwrap_native_token: false,
            valid_from_ts: None,
        }
    }

    pub fn prepare_position(&self, db: &mut Db, m: &MarketKeys, owner: Pubkey, side: Side) -> std::result::Result<(), TxError> {
        let params = Self::order_params(OrderKind::MarketIncrease, side, 0, 0);
        let accounts = gmsol_store::accounts::PreparePosition { owner, store: self.store, market: m.market, position: self.position_pda(&owner, m, side), system_program: sys() };
        process(db, &ix(self.pid, accounts, gmsol_store::instruction::PreparePosition { params }), &[owner])
    }

    /// market increase order: `collateral` of the side's collateral token, `size` in USD (unit 10^20)
    pub fn create_increase(&self, db: &mut Db, m: &MarketKeys, owner: Pubkey, nonce: [u8; 32], side: Side, collateral: u64, size: u128) -> std::result::Result<(), TxError> {
        self.create_increase_with(db, m, owner, owner, nonce, side, collateral, size, None)
    }

    /// as `create_increase`, with an acceptable price (an unreachable one makes the execution fail softly)
    #[allow(clippy::too_many_arguments)]
    pub fn create_increase_with(&self, db: &mut Db, m: &MarketKeys, owner: Pubkey, receiver: Pubkey, nonce: [u8; 32], side: Side, collateral: u64, size: u128, acceptable_price: Option<u128>) -> std::result::Result<(), TxError> {
        let order = self.order_pda(&owner, &nonce);
        let ctoken = if side.collateral_long { m.long } else { m.short };
        for mint in [m.long, m.short] {
            self.ensure_ata(db, &order, &mint);
        }
        let mut params = Self::order_params(OrderKind::MarketIncrease, side, collateral, size);
        params.acceptable_price = acceptable_price;
        let accounts = gmsol_store::accounts::CreateOrderV2 {
            owner, receiver, store: self.store, market: m.market, user: self.user_pda(&owner), order, position: Some(self.position_pda(&owner, m, side)),
            initial_collateral_token: Some(ctoken), final_output_token: ctoken, long_token: Some(m.long), short_token: Some(m.short),
            initial_collateral_token_escrow: Some(ata(&order, &ctoken)), final_output_token_escrow: None, long_token_escrow: Some(ata(&order, &m.long)), short_token_escrow: Some(ata(&order, &m.short)),
            initial_collateral_token_source: Some(ata(&owner, &ctoken)),
            system_program: sys(), token_program: spl_token::ID, associated_token_program: spl_associated_token_account::ID,
            callback_authority: cb().map(|c| c.authority), callback_program: cb().map(|c| c.program), callback_shared_data_account: cb().map(|c| c.shared), callback_partitioned_data_account: cb().map(|c| c.partitioned),
            event_authority: self.event_authority, program: self.pid,
        };
        process(db, &ix(self.pid, accounts, gmsol_store::instruction::CreateOrderV2 { nonce, params, callback_version: cb().map(|_| 0u8) }), &[owner])
    }

    pub fn execute_increase(&self, db: &mut Db, m: &MarketKeys, owner: Pubkey, nonce: [u8; 32], side: Side, by: Pubkey, throw: bool) -> std::result::Result<(), TxError> {
        process(db, &self.execute_increase_ix(m, owner, nonce, side, by, throw), &[by])
    }

    pub fn execute_increase_ix(&self, m: &MarketKeys, owner: Pubkey, nonce: [u8; 32], side: Side, by: Pubkey, throw: bool) -> solana_program::instruction::Instruction {
        let order = self.order_pda(&owner, &nonce);
        let ctoken = if side.collateral_long { m.long } else { m.short };
        let (ts, _) = crate::svm::clock();
        let accounts = gmsol_store::accounts::ExecuteIncreaseOrSwapOrderV2 {
            authority: by, store: self.store, token_map: self.token_map, oracle: self.oracle, market: m.market, owner, user: self.user_pda(&owner), order,
            position: Some(self.position_pda(&owner, m, side)), event: Some(self.event_pda(&by, 0)),
            initial_collateral_token: Some(ctoken), final_output_token: None, long_token: Some(m.long), short_token: Some(m.short),
            initial_collateral_token_escrow: Some(ata(&order, &ctoken)), final_output_token_escrow: None, long_token_escrow: Some(ata(&order, &m.long)), short_token_escrow: Some(ata(&order, &m.short)),
            initial_collateral_token_vault: Some(self.vault(&ctoken)), final_output_token_vault: None, long_token_vault: Some(self.vault(&m.long)), short_token_vault: Some(self.vault(&m.short)),
            token_program: spl_token::ID, system_program: sys(),
            callback_authority: cb().map(|c| c.authority), callback_program: cb().map(|c| c.program), callback_shared_data_account: cb().map(|c| c.shared), callback_partitioned_data_account: cb().map(|c| c.partitioned),
            event_authority: self.event_authority, program: self.pid,
        };
        let mut i = ix(self.pid, accounts, gmsol_store::instruction::ExecuteIncreaseOrSwapOrderV2 { recent_timestamp: ts, execution_fee: 5_000, throw_on_execution_error: throw });
        i.accounts.extend(self.feeds_for(m));
        i
    }

    /// market decrease order: withdraw `collateral` of the collateral token and reduce the size by `size` USD
    pub fn create_decrease(&self, db: &mut Db, m: &MarketKeys, owner: Pubkey, nonce: [u8; 32], side: Side, collateral: u64, size: u128) -> std::result::Result<(), TxError> {
        self.create_decrease_with(db, m, owner, owner, nonce, side, collateral, size, None)
    }

    #[allow(clippy::too_many_arguments)]
    pub fn create_decrease_with(&self, db: &mut Db, m: &MarketKeys, owner: Pubkey, receiver: Pubkey, nonce: [u8; 32], side: Side, collateral: u64, size: u128, acceptable_price: Option<u128>) -> std::result::Result<(), TxError> {
        let order = self.order_pda(&owner, &nonce);
        let ctoken = if side.collateral_long { m.long } else { m.short };
        for mint in [m.long, m.short] {
            self.ensure_ata(db, &order, &mint);
        }
        let mut params = Self::order_params(OrderKind::MarketDecrease, side, collateral, size);
        params.acceptable_price = acceptable_price;
        let accounts = gmsol_store::accounts::CreateOrderV2 {
            owner, receiver, store: self.store, market: m.market, user: self.user_pda(&owner), order, position: Some(self.position_pda(&owner, m, side)),
            initial_collateral_token: None, final_output_token: ctoken, long_token: Some(m.long), short_token: Some(m.short),
            initial_collateral_token_escrow: None, final_output_token_escrow: Some(ata(&order, &ctoken)), long_token_escrow: Some(ata(&order, &m.long)), short_token_escrow: Some(ata(&order, &m.short)),
            initial_collateral_token_source: None,
            system_program: sys(), token_program: spl_token::ID, associated_token_program: spl_associated_token_account::ID,
            callback_authority: cb().map(|c| c.authority), callback_program: cb().map(|c| c.program), callback_shared_data_account: cb().map(|c| c.shared), callback_partitioned_data_account: cb().map(|c| c.partitioned),
            event_authority: self.event_authority, program: self.pid,
        };
        process(db, &ix(self.pid, accounts, gmsol_store::instruction::CreateOrderV2 { nonce, params, callback_version: cb().map(|_| 0u8) }), &[owner])
    }

    pub fn execute_decrease(&self, db: &mut Db, m: &MarketKeys, owner: Pubkey, nonce: [u8; 32], side: Side, by: Pubkey, throw: bool) -> std::result::Result<(), TxError> {
        let (ts, _) = crate::svm::clock();
        let holding = *db.pod::<Store>(&self.store).expect("store").holding();
        let pnl_token = if side.is_long { m.long } else { m.short };
        self.use_claimable(db, m.long, owner, ts, by)?;
        self.use_claimable(db, m.short, owner, ts, by)?;
        self.use_claimable(db, pnl_token, holding, ts, by)?;
        let i = self.execute_decrease_ix(db, m, owner, nonce, side, by, throw);
        process(db, &i, &[by])
    }

    /// the instruction alone (the claimable accounts of the current time window must have been prepared by a keeper)
    pub fn execute_decrease_ix(&self, db: &Db, m: &MarketKeys, owner: Pubkey, nonce: [u8; 32], side: Side, by: Pubkey, throw: bool) -> solana_program::instruction::Instruction {
        let order = self.order_pda(&owner, &nonce);
        let ctoken = if side.collateral_long { m.long } else { m.short };
        let (ts, _) = crate::svm::clock();
        let holding = *db.pod::<Store>(&self.store).expect("store").holding();
        let pnl_token = if side.is_long { m.long } else { m.short };
        let (cl, cs, ch) = (self.claimable_pda(db, &m.long, &owner, ts), self.claimable_pda(db, &m.short, &owner, ts), self.claimable_pda(db, &pnl_token, &holding, ts));
        let accounts = gmsol_store::accounts::ExecuteDecreaseOrderV2 {
            authority: by, store: self.store, token_map: self.token_map, oracle: self.oracle, market: m.market, owner, user: self.user_pda(&owner), order,
            position: self.position_pda(&owner, m, side), event: self.event_pda(&by, 0),
            final_output_token: ctoken, long_token: m.long, short_token: m.short,
            final_output_token_escrow: ata(&order, &ctoken), long_token_escrow: ata(&order, &m.long), short_token_escrow: ata(&order, &m.short),
            final_output_token_vault: self.vault(&ctoken), long_token_vault: self.vault(&m.long), short_token_vault: self.vault(&m.short),
            claimable_long_token_account_for_user: cl, claimable_short_token_account_for_user: cs, claimable_pnl_token_account_for_holding: ch,
            token_program: spl_token::ID, system_program: sys(),
            callback_authority: cb().map(|c| c.authority), callback_program: cb().map(|c| c.program), callback_shared_data_account: cb().map(|c| c.shared), callback_partitioned_data_account: cb().map(|c| c.partitioned),
            event_authority: self.event_authority, program: self.pid,
        };
        let mut i = ix(self.pid, accounts, gmsol_store::instruction::ExecuteDecreaseOrderV2 { recent_timestamp: ts, execution_fee: 5_000, throw_on_execution_error: throw });
        i.accounts.extend(self.feeds_for(m));
        i
    }

    /// close an order (`increase`: whether it was created by `create_increase`, else by `create_decrease`)
    pub fn close_order(&self, db: &mut Db, m: &MarketKeys, owner: Pubkey, receiver: Pubkey, nonce: [u8; 32], side: Side, increase: bool, by: Pubkey) -> std::result::Result<(), TxError> {
        let order = self.order_pda(&owner, &nonce);
        let ctoken = if side.collateral_long { m.long } else { m.short };
        for mint in [m.long, m.short] {
            self.ensure_ata(db, &owner, &mint);
            self.ensure_ata(db, &receiver, &mint);
        }
        let accounts = gmsol_store::accounts::CloseOrderV2 {
            executor: by, store: self.store, store_wallet: self.store_wallet, owner, receiver, rent_receiver: owner, user: self.user_pda(&owner), referrer_user: None, order,
            initial_collateral_token: increase.then_some(ctoken), final_output_token: (!increase).then_some(ctoken), long_token: Some(m.long), short_token: Some(m.short),
            initial_collateral_token_escrow: increase.then(|| ata(&order, &ctoken)), final_output_token_escrow: (!increase).then(|| ata(&order, &ctoken)), long_token_escrow: Some(ata(&order, &m.long)), short_token_escrow: Some(ata(&order, &m.short)),
            initial_collateral_token_ata: increase.then(|| ata(&owner, &ctoken)), final_output_token_ata: (!increase).then(|| ata(&receiver, &ctoken)), long_token_ata: Some(ata(&receiver, &m.long)), short_token_ata: Some(ata(&receiver, &m.short)),
            system_program: sys(), token_program: spl_token::ID, associated_token_program: spl_associated_token_account::ID,
            callback_authority: cb().map(|c| c.authority), callback_program: cb().map(|c| c.program), callback_shared_data_account: cb().map(|c| c.shared), callback_partitioned_data_account: cb().map(|c| c.partitioned),
            event_authority: self.event_authority, program: self.pid,
        };
        process(db, &ix(self.pid, accounts, gmsol_store::instruction::CloseOrderV2 { reason: "done".into() }), &[by])
    }

    /// liquidate the position of `owner` (keeper instruction; the order account belongs to the keeper)
    pub fn liquidate(&self, db: &mut Db, m: &MarketKeys, owner: Pubkey, nonce: [u8; 32], side: Side, by: Pubkey) -> std::result::Result<(), TxError> {
        let (ts, _) = crate::svm::clock();
        let holding = *db.pod::<Store>(&self.store).expect("store").holding();
        let pnl_token = if side.is_long { m.long } else { m.short };
        self.use_claimable(db, m.long, owner, ts, by)?;
        self.use_claimable(db, m.short, owner, ts, by)?;
        self.use_claimable(db, pnl_token, holding, ts, by)?;
        let i = self.liquidate_ix(db, m, owner, nonce, side, by);
        process(db, &i, &[by])
    }

    /// the instruction alone (escrow accounts are fabricated, claimable accounts must exist)
    pub fn liquidate_ix(&self, db: &mut Db, m: &MarketKeys, owner: Pubkey, nonce: [u8; 32], side: Side, by: Pubkey) -> solana_program::instruction::Instruction {
        let order = self.order_pda(&by, &nonce);
        let (ts, _) = crate::svm::clock();
        let holding = *db.pod::<Store>(&self.store).expect("store").holding();
        let pnl_token = if side.is_long { m.long } else { m.short };
        for mint in [m.long, m.short] {
            self.ensure_ata(db, &order, &mint);
        }
        let (cl, cs, ch) = (self.claimable_pda(db, &m.long, &owner, ts), self.claimable_pda(db, &m.short, &owner, ts), self.claimable_pda(db, &pnl_token, &holding, ts));
        let accounts = gmsol_store::accounts::PositionCut {
            authority: by, owner, user: self.user_pda(&owner), store: self.store, token_map: self.token_map, oracle: self.oracle, market: m.market, order,
            position: self.position_pda(&owner, m, side), event: self.event_pda(&by, 0), long_token: m.long, short_token: m.short,
            long_token_escrow: ata(&order, &m.long), short_token_escrow: ata(&order, &m.short), long_token_vault: self.vault(&m.long), short_token_vault: self.vault(&m.short),
            claimable_long_token_account_for_user: cl, claimable_short_token_account_for_user: cs, claimable_pnl_token_account_for_holding: ch,
            system_program: sys(), token_program: spl_token::ID, associated_token_program: spl_associated_token_account::ID, chainlink_program: None,
            event_authority: self.event_authority, program: self.pid,
        };
        let mut i = ix(self.pid, accounts, gmsol_store::instruction::Liquidate { nonce, recent_timestamp: ts, execution_fee: 5_000 });
        i.accounts.extend(self.feeds_for(m));
        i
    }

    // ------------------------------------------------------------------ swap orders
    /// market swap order: `amount` of `token_in` along `path` (market accounts, the last one is the order's market) into `token_out`
    #[allow(clippy::too_many_arguments)]
    pub fn create_swap(&self, db: &mut Db, path: &[&MarketKeys], owner: Pubkey, nonce: [u8; 32], token_in: Pubkey, token_out: Pubkey, amount: u64, min_out: u128) -> std::result::Result<(), TxError> {
        let order = self.order_pda(&owner, &nonce);
        let m = path.last().expect("swap path");
        for mint in [token_in, token_out] {
            self.ensure_ata(db, &order, &mint);
        }
        let mut params = Self::order_params(OrderKind::MarketSwap, Side { is_long: true, collateral_long: true }, amount, 0);
        params.swap_path_length = path.len() as u8;
        params.min_output = Some(min_out);
        let accounts = gmsol_store::accounts::CreateOrderV2 {
            owner, receiver: owner, store: self.store, market: m.market, user: self.user_pda(&owner), order, position: None,
            initial_collateral_token: Some(token_in), final_output_token: token_out, long_token: None, short_token: None,
            initial_collateral_token_escrow: Some(ata(&order, &token_in)), final_output_token_escrow: Some(ata(&order, &token_out)), long_token_escrow: None, short_token_escrow: None,
            initial_collateral_token_source: Some(ata(&owner, &token_in)),
            system_program: sys(), token_program: spl_token::ID, associated_token_program: spl_associated_token_account::ID,
            callback_authority: None, callback_program: None, callback_shared_data_account: None, callback_partitioned_data_account: None,
            event_authority: self.event_authority, program: self.pid,
        };
        let mut i = ix(self.pid, accounts, gmsol_store::instruction::CreateOrderV2 { nonce, params, callback_version: None });
        i.accounts.extend(path.iter().map(|p| meta(p.market, false, false)));
        process(db, &i, &[owner])
    }

    #[allow(clippy::too_many_arguments)]
    pub fn execute_swap(&self, db: &mut Db, path: &[&MarketKeys], owner: Pubkey, nonce: [u8; 32], token_in: Pubkey, token_out: Pubkey, by: Pubkey, throw: bool) -> std::result::Result<(), TxError> {
        let order = self.order_pda(&owner, &nonce);
        let m = path.last().expect("swap path");
        let (ts, _) = crate::svm::clock();
        let accounts = gmsol_store::accounts::ExecuteIncreaseOrSwapOrderV2 {
            authority: by, store: self.store, token_map: self.token_map, oracle: self.oracle, market: m.market, owner, user: self.user_pda(&owner), order,
            position: None, event: None,
            initial_collateral_token: Some(token_in), final_output_token: Some(token_out), long_token: None, short_token: None,
            initial_collateral_token_escrow: Some(ata(&order, &token_in)), final_output_token_escrow: Some(ata(&order, &token_out)), long_token_escrow: None, short_token_escrow: None,
            initial_collateral_token_vault: Some(self.vault(&token_in)), final_output_token_vault: Some(self.vault(&token_out)), long_token_vault: None, short_token_vault: None,
            token_program: spl_token::ID, system_program: sys(),
            callback_authority: None, callback_program: None, callback_shared_data_account: None, callback_partitioned_data_account: None,
            event_authority: self.event_authority, program: self.pid,
        };
        let mut i = ix(self.pid, accounts, gmsol_store::instruction::ExecuteIncreaseOrSwapOrderV2 { recent_timestamp: ts, execution_fee: 5_000, throw_on_execution_error: throw });
        let mut toks: Vec<Pubkey> = path.iter().flat_map(|p| [p.index, p.long, p.short]).collect();
        toks.sort();
        toks.dedup();
        i.accounts.extend(toks.into_iter().map(|t| meta(if t == self.a { self.feed_a } else { self.feed_b }, false, false)));
        // swap markets: unique, excluding the order's own market
        let mut seen = vec![m.market_token];
        for p in path {
            if !seen.contains(&p.market_token) {
                seen.push(p.market_token);
                i.accounts.push(meta(p.market, false, true));
            }
        }
        process(db, &i, &[by])
    }

    pub fn close_swap(&self, db: &mut Db, owner: Pubkey, nonce: [u8; 32], token_in: Pubkey, token_out: Pubkey, by: Pubkey) -> std::result::Result<(), TxError> {
        let order = self.order_pda(&owner, &nonce);
        for mint in [token_in, token_out] {
            self.ensure_ata(db, &owner, &mint);
        }
        let accounts = gmsol_store::accounts::CloseOrderV2 {
            executor: by, store: self.store, store_wallet: self.store_wallet, owner, receiver: owner, rent_receiver: owner, user: self.user_pda(&owner), referrer_user: None, order,
            initial_collateral_token: Some(token_in), final_output_token: Some(token_out), long_token: None, short_token: None,
            initial_collateral_token_escrow: Some(ata(&order, &token_in)), final_output_token_escrow: Some(ata(&order, &token_out)), long_token_escrow: None, short_token_escrow: None,
            initial_collateral_token_ata: Some(ata(&owner, &token_in)), final_output_token_ata: Some(ata(&owner, &token_out)), long_token_ata: None, short_token_ata: None,
            system_program: sys(), token_program: spl_token::ID, associated_token_program: spl_associated_token_account::ID,
            callback_authority: None, callback_program: None, callback_shared_data_account: None, callback_partitioned_data_account: None,
            event_authority: self.event_authority, program: self.pid,
        };
        process(db, &ix(self.pid, accounts, gmsol_store::instruction::CloseOrderV2 { reason: "done".into() }), &[by])
    }

    // ------------------------------------------------------------------ shifts
    pub fn shift_pda(&self, owner: &Pubkey, nonce: &[u8; 32]) -> Pubkey {
        Pubkey::find_program_address(&[gmsol_store::states::Shift::SEED, self.store.as_ref(), owner.as_ref(), nonce], &self.pid).0
    }

    /// shift `amount` market tokens of `from` into `to`
    #[allow(clippy::too_many_arguments)]
    pub fn create_shift(&self, db: &mut Db, from: &MarketKeys, to: &MarketKeys, owner: Pubkey, nonce: [u8; 32], amount: u64, min_out: u64) -> std::result::Result<(), TxError> {
        let shift = self.shift_pda(&owner, &nonce);
        for (o, mint) in [(shift, from.market_token), (shift, to.market_token), (owner, to.market_token)] {
            self.ensure_ata(db, &o, &mint);
        }
        let accounts = gmsol_store::accounts::CreateShift {
            owner, receiver: owner, store: self.store, from_market: from.market, to_market: to.market, shift, from_market_token: from.market_token, to_market_token: to.market_token,
            from_market_token_escrow: ata(&shift, &from.market_token), to_market_token_escrow: ata(&shift, &to.market_token), from_market_token_source: ata(&owner, &from.market_token), to_market_token_ata: ata(&owner, &to.market_token),
            system_program: sys(), token_program: spl_token::ID, associated_token_program: spl_associated_token_account::ID,
        };
        let params = gmsol_store::ops::shift::CreateShiftParams { execution_lamports: 5_000_000, from_market_token_amount: amount, min_to_market_token_amount: min_out };
        process(db, &ix(self.pid, accounts, gmsol_store::instruction::CreateShift { nonce, params }), &[owner])
    }

    pub fn execute_shift(&self, db: &mut Db, from: &MarketKeys, to: &MarketKeys, owner: Pubkey, nonce: [u8; 32], by: Pubkey, throw: bool) -> std::result::Result<(), TxError> {
        process(db, &self.execute_shift_ix(from, to, owner, nonce, by, throw), &[by])
    }

    pub fn execute_shift_ix(&self, from: &MarketKeys, to: &MarketKeys, owner: Pubkey, nonce: [u8; 32], by: Pubkey, throw: bool) -> solana_program::instruction::Instruction {
        let shift = self.shift_pda(&owner, &nonce);
        let accounts = gmsol_store::accounts::ExecuteShift {
            authority: by, store: self.store, token_map: self.token_map, oracle: self.oracle, from_market: from.market, to_market: to.market, shift, from_market_token: from.market_token, to_market_token: to.market_token,
            from_market_token_escrow: ata(&shift, &from.market_token), to_market_token_escrow: ata(&shift, &to.market_token), from_market_token_vault: self.vault(&from.market_token),
            token_program: spl_token::ID, chainlink_program: None, event_authority: self.event_authority, program: self.pid,
        };
        let mut i = ix(self.pid, accounts, gmsol_store::instruction::ExecuteShift { execution_lamports: 5_000, throw_on_execution_error: throw });
        let mut toks: Vec<Pubkey> = vec![from.index, from.long, from.short, to.index, to.long, to.short];
        toks.sort();
        toks.dedup();
        i.accounts.extend(toks.into_iter().map(|t| meta(if t == self.a { self.feed_a } else { self.feed_b }, false, false)));
        i
    }

    pub fn close_shift(&self, db: &mut Db, from: &MarketKeys, to: &MarketKeys, owner: Pubkey, nonce: [u8; 32], by: Pubkey) -> std::result::Result<(), TxError> {
        let shift = self.shift_pda(&owner, &nonce);
        for mint in [from.market_token, to.market_token] {
            self.ensure_ata(db, &owner, &mint);
        }
        let accounts = gmsol_store::accounts::CloseShift {
            executor: by, store: self.store, store_wallet: self.store_wallet, owner, receiver: owner, shift, from_market_token: from.market_token, to_market_token: to.market_token,
            from_market_token_escrow: ata(&shift, &from.market_token), to_market_token_escrow: ata(&shift, &to.market_token), from_market_token_ata: ata(&owner, &from.market_token), to_market_token_ata: ata(&owner, &to.market_token),
            system_program: sys(), token_program: spl_token::ID, associated_token_program: spl_associated_token_account::ID, event_authority: self.event_authority, program: self.pid,
        };
        process(db, &ix(self.pid, accounts, gmsol_store::instruction::CloseShift { reason: "done".into() }), &[by])
    }

    /// feeds for the tokens of market `m`, in ascending token order (tokens A and B of the base world)
    pub fn feeds_for(&self, m: &MarketKeys) -> Vec<AccountMeta> {
        let mut toks: Vec<Pubkey> = vec![m.index, m.long, m.short];
        toks.sort();
        toks.dedup();
        toks.into_iter().map(|t| meta(if t == self.a { self.feed_a } else { self.feed_b }, false, false)).collect()
    }

    /// a market over the world's tokens created by the real instruction
    pub fn add_market(&self, db: &mut Db, index: Pubkey, long: Pubkey, short: Pubkey, name: &str) -> MarketKeys {
        use gmsol_store::states::Market;
        let market_token = Pubkey::find_program_address(&[b"market_token_mint", self.store.as_ref(), index.as_ref(), long.as_ref(), short.as_ref()], &self.pid).0;
        let market = Pubkey::find_program_address(&[Market::SEED, self.store.as_ref(), market_token.as_ref()], &self.pid).0;
        let accounts = gmsol_store::accounts::InitializeMarket { authority: self.keeper, store: self.store, market_token_mint: market_token, long_token_mint: long, short_token_mint: short, market, token_map: self.token_map, long_token_vault: self.vault(&long), short_token_vault: self.vault(&short), system_program: sys(), token_program: spl_token::ID };
        process(db, &ix(self.pid, accounts, gmsol_store::instruction::InitializeMarket { index_token_mint: index, name: name.into(), enable: true }), &[self.keeper]).unwrap_or_else(|e| panic!("add_market {name}: {e:?}"));
        let accounts = gmsol_store::accounts::InitializeMarketVault { authority: self.keeper, store: self.store, mint: market_token, vault: self.vault(&market_token), system_program: sys(), token_program: spl_token::ID };
        process(db, &ix(self.pid, accounts, gmsol_store::instruction::InitializeMarketVault {}), &[self.keeper]).unwrap_or_else(|e| panic!("add_market vault {name}: {e:?}"));
        MarketKeys { market_token, market, index, long, short }
    }
}

/// a position is opened, increased, partly and fully closed through the real instructions
pub fn selftest() -> std::result::Result<(), String> {
    use gmsol_store::states::common::action::Action;
    use gmsol_utils::action::ActionState;
    let (mut db, w) = crate::world::build();
    W::set_time(1_000);
    let e = |what: &str, r: std::result::Result<(), TxError>| r.map_err(|e| format!("orders selftest: {what}: {e:?}"));
    let m = w.m1.clone();
    let n = [9u8; 32];
    e("seed create", w.create_deposit(&mut db, &m, w.user2, n, 500_000_000, 6_000_000_000, 0, w.user2))?;
    e("seed execute", w.execute_deposit(&mut db, &m, w.user2, n, w.keeper, true))?;
    e("prepare_user", w.prepare_user(&mut db, w.user))?;
    e("prepare_event_buffer", w.prepare_event_buffer(&mut db, w.keeper, 0))?;
    let side = Side { is_long: true, collateral_long: false };
    e("prepare_position", w.prepare_position(&mut db, &m, w.user, side))?;
    let unit = 10u128.pow(20);
    e("create_increase", w.create_increase(&mut db, &m, w.user, [1; 32], side, 100_000_000, 300 * unit))?;
    e("execute_increase", w.execute_increase(&mut db, &m, w.user, [1; 32], side, w.keeper, true))?;
    let st = db.pod::<Order>(&w.order_pda(&w.user, &[1; 32])).and_then(|o| o.header().action_state().ok());
    if st != Some(ActionState::Completed) {
        return Err(format!("orders selftest: increase order state {st:?}"));
    }
    let p: Position = db.pod(&w.position_pda(&w.user, &m, side)).ok_or("position missing")?;
    if p.state.size_in_usd != 300 * unit || p.state.collateral_amount == 0 {
        return Err(format!("orders selftest: position after increase: size {} collateral {}", p.state.size_in_usd, p.state.collateral_amount));
    }
    e("create_decrease", w.create_decrease(&mut db, &m, w.user, [2; 32], side, 0, 300 * unit))?;
    e("execute_decrease", w.execute_decrease(&mut db, &m, w.user, [2; 32], side, w.keeper, true))?;
    // a fully closed position account is removed
    if let Some(p) = db.pod::<Position>(&w.position_pda(&w.user, &m, side)) {
        if p.state.size_in_usd != 0 {
            return Err(format!("orders selftest: position after full decrease: size {}", p.state.size_in_usd));
        }
    }
    Ok(())
}
