//! C21, program part — mint and burn of market tokens are deferred to the commit of a revertible
//! liquidity operation (E3): breadth-first exploration of real create / execute / close instructions
//! of deposits (two mints in one operation), withdrawals (one burn) and shifts (a burn in one market
//! and a mint in another, two revertible markets in one operation), half of them with an
//! unreachable minimum output so that the operation is abandoned after it has observed its writes.
use std::sync::Arc;

use anchor_lang::prelude::*;
use gmsol_model::{price::{Price, Prices}, Bank as _, ClockKind, LiquidityMarketMutExt as _, MarketAction as _, PerpMarketMutExt as _, PositionImpactMarketMutExt as _};
use gmsol_programs::model::{MarketModel, SwapPricingKind};
use gmsol_store::states::common::action::Action;
use gmsol_store::states::{Deposit, Market, Shift, Withdrawal};
use gmsol_utils::action::ActionState;
use mc_core::{
    e2::{self, Machine, StepOut},
    json, Cli, Report,
};

use crate::c40::{model_of, set_now};
use crate::cfgkeys::all_params;
use crate::svm::{Db, TxError};
use crate::world::{self, ata, token_amount, MarketKeys, W};

#[derive(Clone, Copy, Debug, PartialEq, Eq)]
enum Kind {
    Deposit,
    Withdrawal,
    Shift,
}

#[derive(Clone, Copy, Debug)]
enum Act {
    Create(usize),
    Exec(usize),
    Close(usize),
    Adv(i64),
    Refresh,
    Reprice,
}

#[derive(Clone, Copy, Debug, PartialEq, Eq, Hash)]
enum Phase {
    Absent,
    Pending,
    Completed,
    Cancelled,
}

struct Slot {
    kind: Kind,
    owner: Pubkey,
    nonce: [u8; 32],
    /// deposit: (A, B); withdrawal and shift: (market tokens, unused)
    amounts: (u64, u64),
    /// unreachable minimum output: the operation is abandoned after its writes
    abandon: bool,
}

#[derive(Clone)]
struct St {
    db: Db,
    now: i64,
}

struct Liq {
    w: W,
    slots: Vec<Slot>,
    acts: Vec<Act>,
}

/// everything of a market that is stored: pools, balances, other state, clocks, market token supply
fn view(w: &W, db: &Db, m: &MarketKeys) -> Vec<u128> {
    let mut v = crate::perp::market_view(w, db, m);
    let mk: Market = w.market(db, m);
    for k in [ClockKind::PriceImpactDistribution, ClockKind::Borrowing, ClockKind::Funding, ClockKind::AdlForLong, ClockKind::AdlForShort] {
        v.push(mk.clock(k).unwrap_or(-1) as u128);
    }
    v
}

fn prices_of(w: &W, db: &Db, m: &MarketKeys) -> Prices<u128> {
    let get = |token: &Pubkey| -> Price<u128> {
        let feed = if *token == w.a { w.feed_a } else { w.feed_b };
        let f: gmsol_store::states::PriceFeed = db.pod(&feed).expect("feed");
        let p = f.price();
        let conv = |v: u128| gmsol_utils::price::Decimal::try_from_price(v, 8, 6, 4).expect("price").to_unit_price();
        Price { min: conv(*p.min_price()), max: conv(*p.max_price()) }
    };
    Prices { index_token_price: get(&m.index), long_token_price: get(&m.long), short_token_price: get(&m.short) }
}

/// what the pre-execution step of every liquidity operation does to a plain market
fn pre_execute(model: &mut MarketModel, prices: &Prices<u128>) -> std::result::Result<(), String> {
    model.distribute_position_impact().and_then(|a| a.execute()).map_err(|e| e.to_string())?;
    model.update_funding(prices).and_then(|a| a.execute()).map_err(|e| e.to_string())?;
    Ok(())
}

impl Liq {
    fn account(&self, s: &Slot) -> Pubkey {
        match s.kind {
            Kind::Deposit => self.w.deposit_pda(&s.owner, &s.nonce),
            Kind::Withdrawal => self.w.withdrawal_pda(&s.owner, &s.nonce),
            Kind::Shift => self.w.shift_pda(&s.owner, &s.nonce),
        }
    }
    fn phase(&self, db: &Db, s: &Slot) -> Phase {
        let k = self.account(s);
        if !db.exists(&k) {
            return Phase::Absent;
        }
        let st = match s.kind {
            Kind::Deposit => db.pod::<Deposit>(&k).and_then(|d| d.header().action_state().ok()),
            Kind::Withdrawal => db.pod::<Withdrawal>(&k).and_then(|d| d.header().action_state().ok()),
            Kind::Shift => db.pod::<Shift>(&k).and_then(|d| d.header().action_state().ok()),
        };
        match st {
            Some(ActionState::Pending) => Phase::Pending,
            Some(ActionState::Completed) => Phase::Completed,
            Some(ActionState::Cancelled) => Phase::Cancelled,
            _ => Phase::Absent,
        }
    }
    /// market token holdings that a liquidity operation can move: (escrow, owner, vault) per market
    fn gm(&self, db: &Db, s: &Slot) -> Vec<u64> {
        let acc = self.account(s);
        let mut v = vec![];
        for m in [&self.w.m1, &self.w.m2] {
            v.extend([token_amount(db, &ata(&acc, &m.market_token)), token_amount(db, &ata(&s.owner, &m.market_token)), token_amount(db, &self.w.vault(&m.market_token))]);
        }
        v
    }
    fn exec(&self, db: &mut Db, s: &Slot) -> std::result::Result<(), TxError> {
        let w = &self.w;
        match s.kind {
            Kind::Deposit => w.execute_deposit(db, &w.m1, s.owner, s.nonce, w.keeper, false),
            Kind::Withdrawal => w.execute_withdrawal(db, &w.m1, s.owner, s.nonce, w.keeper, false),
            Kind::Shift => w.execute_shift(db, &w.m1, &w.m2, s.owner, s.nonce, w.keeper, false),
        }
    }
    /// the same operation on plain in-memory markets (the generic algorithm over an ordinary market):
    /// (market 1 after, market 2 after, minted in the target market, (long, short) paid out)
    fn plain(&self, db: &Db, s: &Slot) -> std::result::Result<(MarketModel, MarketModel, u128, (u128, u128)), String> {
        let w = &self.w;
        let (mut m1, mut m2) = (model_of(db, &w.m1), model_of(db, &w.m2));
        let (p1, p2) = (prices_of(w, db, &w.m1), prices_of(w, db, &w.m2));
        match s.kind {
            Kind::Deposit => {
                pre_execute(&mut m1, &p1)?;
                let r = m1.deposit(s.amounts.0 as u128, s.amounts.1 as u128, p1).and_then(|a| a.execute()).map_err(|e| e.to_string())?;
                let minted = *r.minted();
                Ok((m1, m2, minted, (0, 0)))
            }
            Kind::Withdrawal => {
                pre_execute(&mut m1, &p1)?;
                let r = m1.withdraw(s.amounts.0 as u128, p1).and_then(|a| a.execute()).map_err(|e| e.to_string())?;
                let out = (*r.long_token_output(), *r.short_token_output());
                let (ol, os) = (u64::try_from(out.0).map_err(|e| e.to_string())?, u64::try_from(out.1).map_err(|e| e.to_string())?);
                m1.record_transferred_out_by_token(&w.m1.long, &ol).map_err(|e| e.to_string())?;
                m1.record_transferred_out_by_token(&w.m1.short, &os).map_err(|e| e.to_string())?;
                Ok((m1, m2, 0, out))
            }
            Kind::Shift => {
                pre_execute(&mut m1, &p1)?;
                let out = m1.with_swap_pricing(SwapPricingKind::Shift, |m| m.withdraw(s.amounts.0 as u128, p1).and_then(|a| a.execute()).map(|r| (*r.long_token_output(), *r.short_token_output()))).map_err(|e| e.to_string())?;
                let (ol, os) = (u64::try_from(out.0).map_err(|e| e.to_string())?, u64::try_from(out.1).map_err(|e| e.to_string())?);
                m1.record_transferred_out_by_token(&w.m1.long, &ol).map_err(|e| e.to_string())?;
                m2.record_transferred_in_by_token(&w.m2.long, &ol).map_err(|e| e.to_string())?;
                m1.record_transferred_out_by_token(&w.m1.short, &os).map_err(|e| e.to_string())?;
                m2.record_transferred_in_by_token(&w.m2.short, &os).map_err(|e| e.to_string())?;
                pre_execute(&mut m2, &p2)?;
                let minted = m2.with_swap_pricing(SwapPricingKind::Shift, |m| m.deposit(out.0, out.1, p2).and_then(|a| a.execute()).map(|r| *r.minted())).map_err(|e| e.to_string())?;
                Ok((m1, m2, minted, out))
            }
        }
    }
}

impl Machine for Liq {
    type State = St;
    type Action = Act;
    fn actions(&self) -> &[Act] {
        &self.acts
    }
    fn key(&self, s: &St) -> u128 {
        use std::hash::Hasher;
        let mut h = std::collections::hash_map::DefaultHasher::new();
        s.db.hash_into(&mut h);
        mc_core::hash128(&(h.finish(), s.now))
    }
    fn step(&self, s: &St, a: &Act, out: &mut StepOut) -> St {
        let mut n = s.clone();
        set_now(s.now);
        let w = &self.w;
        let markets = [&w.m1, &w.m2];
        let res = match *a {
            Act::Create(i) => {
                let sl = &self.slots[i];
                let min = if sl.abandon { u64::MAX } else { 0 };
                Some(match sl.kind {
                    Kind::Deposit => w.create_deposit(&mut n.db, &w.m1, sl.owner, sl.nonce, sl.amounts.0, sl.amounts.1, min, sl.owner),
                    Kind::Withdrawal => w.create_withdrawal(&mut n.db, &w.m1, sl.owner, sl.nonce, sl.amounts.0, min, 0, sl.owner),
                    Kind::Shift => w.create_shift(&mut n.db, &w.m1, &w.m2, sl.owner, sl.nonce, sl.amounts.0, min),
                })
            }
            Act::Close(i) => {
                let sl = &self.slots[i];
                Some(match sl.kind {
                    Kind::Deposit => w.close_deposit(&mut n.db, &w.m1, sl.owner, sl.nonce, sl.owner),
                    Kind::Withdrawal => w.close_withdrawal(&mut n.db, &w.m1, sl.owner, sl.nonce, sl.owner),
                    Kind::Shift => w.close_shift(&mut n.db, &w.m1, &w.m2, sl.owner, sl.nonce, sl.owner),
                })
            }
            Act::Adv(dt) => {
                n.now += dt;
                None
            }
            Act::Refresh => {
                w.set_feeds(&mut n.db, s.now, (12_0000_0000, 12_0000_0000), (1_0000_0000, 1_0000_0000));
                None
            }
            Act::Reprice => {
                w.set_feeds(&mut n.db, s.now, (12_9000_0000, 13_1000_0000), (9990_0000, 1_0010_0000));
                None
            }
            Act::Exec(i) => {
                let sl = &self.slots[i];
                let before: Vec<Vec<u128>> = markets.iter().map(|m| view(w, &s.db, m)).collect();
                let gm_before = self.gm(&s.db, sl);
                let was = self.phase(&s.db, sl);
                let plain = if was == Phase::Pending { Some(mc_core::catch(|| self.plain(&s.db, sl))) } else { None };
                set_now(s.now);
                let res = self.exec(&mut n.db, sl);
                let after: Vec<Vec<u128>> = markets.iter().map(|m| view(w, &n.db, m)).collect();
                let now_phase = self.phase(&n.db, sl);
                match (&res, now_phase) {
                    (Err(_), _) => {
                        // a failed instruction commits nothing at all (runtime atomicity, counted for completeness)
                        out.count("executions_rejected", 1);
                        if after != before {
                            out.fail("C21/abandoned_liquidity_operation_changed_stored_state", format!("{a:?} failed but the stored market state moved"));
                        }
                    }
                    (Ok(()), Phase::Cancelled) if was == Phase::Pending => {
                        out.count("operations_abandoned_after_their_writes", 1);
                        if after != before {
                            let diff: Vec<String> = (0..2).flat_map(|k| before[k].iter().zip(after[k].iter()).enumerate().filter(|(_, (x, y))| x != y).map(move |(j, (x, y))| format!("market {k} field {j}: {x} -> {y}")).collect::<Vec<_>>()).collect();
                            out.fail("C21/abandoned_liquidity_operation_changed_stored_state", format!("{a:?}: {}", diff.join(", ")));
                        }
                        let gm_after = self.gm(&n.db, sl);
                        if gm_after != gm_before {
                            out.fail("C21/abandoned_liquidity_operation_minted_or_burned", format!("{a:?}: market token holdings (escrow, owner, vault per market) {gm_before:?} -> {gm_after:?}"));
                        }
                        // nothing of the abandoned operation is visible to the next one: every other pending operation behaves
                        // exactly as it does without the abandoned one having run
                        for (j, other) in self.slots.iter().enumerate() {
                            if j == i || self.phase(&s.db, other) != Phase::Pending {
                                continue;
                            }
                            let (mut without, mut with) = (s.db.clone(), n.db.clone());
                            set_now(s.now);
                            let r1 = self.exec(&mut without, other);
                            set_now(s.now);
                            let r2 = self.exec(&mut with, other);
                            let v1: Vec<Vec<u128>> = markets.iter().map(|m| view(w, &without, m)).collect();
                            let v2: Vec<Vec<u128>> = markets.iter().map(|m| view(w, &with, m)).collect();
                            out.probe_cases += 1;
                            if r1.is_ok() {
                                out.probe_nontrivial += 1;
                            }
                            if r1.is_ok() != r2.is_ok() || v1 != v2 || self.gm(&without, other) != self.gm(&with, other) {
                                out.fail("C21/operation_read_writes_of_an_abandoned_one", format!("{a:?} then Exec({j}): result {r2:?} state {v2:?}; without the abandoned operation: {r1:?} {v1:?}"));
                            }
                        }
                    }
                    (Ok(()), Phase::Completed) if was == Phase::Pending => {
                        out.count("operations_committed", 1);
                        let acc = self.account(sl);
                        let supply = |v: &Vec<u128>| *v.last().unwrap_or(&0) as i128;
                        let sup_idx = before[0].len() - 6; // supply sits before the five clocks
                        let dsupply = [after[0][sup_idx] as i128 - before[0][sup_idx] as i128, after[1][sup_idx] as i128 - before[1][sup_idx] as i128];
                        let _ = supply;
                        match plain {
                            Some(Ok(Ok((pm1, pm2, minted, paid)))) => {
                                let expect_supply: [i128; 2] = match sl.kind {
                                    Kind::Deposit => [minted as i128, 0],
                                    Kind::Withdrawal => [-(sl.amounts.0 as i128), 0],
                                    Kind::Shift => [-(sl.amounts.0 as i128), minted as i128],
                                };
                                if dsupply != expect_supply {
                                    out.fail("C21/committed_mint_or_burn_differs_from_observed_writes", format!("{a:?}: market token supplies moved by {dsupply:?}, the operation's own mints and burns amount to {expect_supply:?}"));
                                }
                                for (k, (m, pm)) in [(&w.m1, &pm1), (&w.m2, &pm2)].iter().enumerate() {
                                    let stored: Market = w.market(&n.db, m);
                                    for ((name, x), (_, y)) in all_params(&stored).iter().zip(all_params(*pm).iter()) {
                                        if x != y {
                                            out.fail("C21/committed_state_differs_from_observed_writes", format!("{a:?}: market {k} {name}: stored {x:?}, the same operation on a plain market {y:?}"));
                                        }
                                    }
                                }
                                if sl.kind == Kind::Withdrawal {
                                    let got = (token_amount(&n.db, &ata(&acc, &w.a)) as u128, token_amount(&n.db, &ata(&acc, &w.b)) as u128);
                                    if got != paid {
                                        out.fail("C21/committed_state_differs_from_observed_writes", format!("{a:?}: paid out {got:?}, the same operation on a plain market {paid:?}"));
                                    }
                                }
                            }
                            Some(Ok(Err(e))) => out.fail("C21/committed_state_differs_from_observed_writes", format!("{a:?} committed, the same operation on a plain market fails: {e}")),
                            Some(Err(p)) => out.fail("C21/panic", format!("{a:?}: plain-market execution panicked: {p}")),
                            None => {}
                        }
                    }
                    (Ok(()), _) => {
                        out.fail("C21/execution_of_a_finished_action_succeeded", format!("{a:?} in phase {was:?} -> {now_phase:?}"));
                    }
                }
                Some(res)
            }
        };
        match res {
            None => out.label = "env",
            Some(Ok(())) => out.label = "ok",
            Some(Err(e)) => {
                out.label = "err";
                if e.is_panic() {
                    out.count("instructions_aborted_by_a_panic", 1);
                }
            }
        }
        n
    }
}

pub fn run_section(rep: &mut Report, cli: &Cli) {
    let th = cli.tier.thorough();
    let (mut db, w) = world::build();
    set_now(1_000);
    let seed = [9u8; 32];
    for (m, who) in [(w.m1.clone(), w.user2), (w.m2.clone(), w.user2), (w.m1.clone(), w.user)] {
        w.create_deposit(&mut db, &m, who, seed, 5_000_000, 60_000_000, 0, who).expect("seed create");
        w.execute_deposit(&mut db, &m, who, seed, w.keeper, true).expect("seed execute");
        w.close_deposit(&mut db, &m, who, seed, who).expect("seed close");
    }
    let gm = token_amount(&db, &ata(&w.user, &w.m1.market_token));
    assert!(gm > 100, "the owner of the withdrawal and shift slots holds market tokens");
    let slots = vec![
        Slot { kind: Kind::Deposit, owner: w.user, nonce: [1; 32], amounts: (1_000_000, 12_000_000), abandon: false },
        Slot { kind: Kind::Deposit, owner: w.user2, nonce: [2; 32], amounts: (500_000, 7_000_000), abandon: true },
        Slot { kind: Kind::Withdrawal, owner: w.user, nonce: [3; 32], amounts: (gm / 5, 0), abandon: true },
        Slot { kind: Kind::Shift, owner: w.user, nonce: [4; 32], amounts: (gm / 7, 0), abandon: true },
        Slot { kind: Kind::Withdrawal, owner: w.user, nonce: [5; 32], amounts: (gm / 6, 0), abandon: false },
        Slot { kind: Kind::Shift, owner: w.user, nonce: [6; 32], amounts: (gm / 9, 0), abandon: false },
    ];
    let mut acts = vec![];
    for i in 0..slots.len() {
        acts.extend([Act::Create(i), Act::Exec(i), Act::Close(i)]);
    }
    acts.extend([Act::Adv(30), Act::Refresh, Act::Reprice]);
    let m = Liq { w, slots, acts };
    // second start state: every operation already created (pending), so that the depth is spent on executions
    let mut all = db.clone();
    for i in 0..m.slots.len() {
        let mut out = StepOut::default();
        let st = m.step(&St { db: all.clone(), now: 1_000 }, &Act::Create(i), &mut out);
        assert!(out.label == "ok", "start state: Create({i}) failed");
        all = st.db;
    }
    let start = St { db, now: 1_000 };
    let start2 = St { db: all, now: 1_000 };
    let name = "liquidity operations: mint and burn deferred to commit";
    if let Some(rv) = &cli.replay {
        if rv["section"] == name {
            e2::replay_into(rep, &m, &[start, start2], rv);
        }
        gmsol_programs::model::clock_verif::set_now(None);
        return;
    }
    let depth = if th { 6 } else { 4 };
    e2::explore(rep, name, &m, vec![start, start2], &e2::Config { depth, max_states: 2_000_000 }, json!({}));
    gmsol_programs::model::clock_verif::set_now(None);
}
