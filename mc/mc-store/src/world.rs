//! Store world W1 (E3): the real `gmsol_store::entry` with the native SPL token and associated
//! token processors in the in-process runtime.
use mc_core::{Cli, Report};

pub fn c32_settlement(_rep: &mut Report, _cli: &Cli) {}
