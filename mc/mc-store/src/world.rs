//! Store world W1 (E3): the real `gmsol_store::entry` with the native SPL token and associated
//! token processors in the in-process runtime. Accounts of the programs under test are created by
//! their own instructions; SPL mints/token accounts, the store account (public `Store::init` and
//! role functions) and custom price feeds are fabricated.
use anchor_lang::prelude::*;
use anchor_lang::{Discriminator, InstructionData, ToAccountMetas};
use gmsol_store::states::{Deposit, Market, Oracle, PriceFeed, Seed, Store, Withdrawal};
use gmsol_utils::price::feed_price::PriceFeedPrice;
use gmsol_utils::price::PriceFlag;
use solana_program::instruction::Instruction;
use solana_program::program_pack::Pack;

use crate::svm::{self, addr, meta, process, register, Acc, Db, TxError};

pub fn zc<T: bytemuck::Pod + Discriminator>(v: &T) -> Vec<u8> {
    let mut d = T::DISCRIMINATOR.to_vec();
    d.extend_from_slice(bytemuck::bytes_of(v));
    d
}

fn token_entry<'a>(p: &'a Pubkey, a: &'a [AccountInfo<'a>], d: &'a [u8]) -> solana_program::entrypoint::ProgramResult {
    spl_token::processor::Processor::process(p, a, d)
}
fn ata_entry<'a>(p: &'a Pubkey, a: &'a [AccountInfo<'a>], d: &'a [u8]) -> solana_program::entrypoint::ProgramResult {
    spl_associated_token_account::processor::process_instruction(p, a, d)
}

pub fn sys() -> Pubkey {
    solana_program::system_program::ID
}

pub fn mint_acc(decimals: u8, supply: u64, authority: Option<Pubkey>) -> Acc {
    let m = spl_token::state::Mint { mint_authority: authority.into(), supply, decimals, is_initialized: true, freeze_authority: None.into() };
    let mut data = vec![0u8; spl_token::state::Mint::LEN];
    m.pack_into_slice(&mut data);
    Acc::new(1_461_600, spl_token::ID, data)
}
pub fn token_acc(mint: Pubkey, owner: Pubkey, amount: u64) -> Acc {
    let a = spl_token::state::Account { mint, owner, amount, delegate: None.into(), state: spl_token::state::AccountState::Initialized, is_native: None.into(), delegated_amount: 0, close_authority: None.into() };
    let mut data = vec![0u8; spl_token::state::Account::LEN];
    a.pack_into_slice(&mut data);
    Acc::new(2_039_280, spl_token::ID, data)
}
pub fn token_amount(db: &Db, k: &Pubkey) -> u64 {
    db.accounts.get(k).and_then(|a| spl_token::state::Account::unpack(&a.data).ok()).map(|a| a.amount).unwrap_or(0)
}
pub fn mint_supply(db: &Db, k: &Pubkey) -> u64 {
    db.accounts.get(k).and_then(|a| spl_token::state::Mint::unpack(&a.data).ok()).map(|a| a.supply).unwrap_or(0)
}
pub fn ata(owner: &Pubkey, mint: &Pubkey) -> Pubkey {
    spl_associated_token_account::get_associated_token_address(owner, mint)
}

#[derive(Clone)]
pub struct MarketKeys {
    pub market_token: Pubkey,
    pub market: Pubkey,
    pub index: Pubkey,
    pub long: Pubkey,
    pub short: Pubkey,
}

#[derive(Clone)]
pub struct W {
    pub pid: Pubkey,
    pub store: Pubkey,
    pub store_wallet: Pubkey,
    pub token_map: Pubkey,
    pub oracle: Pubkey,
    pub admin: Pubkey,
    pub keeper: Pubkey,
    pub config_keeper: Pubkey,
    pub user: Pubkey,
    pub user2: Pubkey,
    pub stranger: Pubkey,
    pub a: Pubkey,
    pub b: Pubkey,
    pub feed_id_a: Pubkey,
    pub feed_id_b: Pubkey,
    pub feed_a: Pubkey,
    pub feed_b: Pubkey,
    pub m1: MarketKeys,
    pub m2: MarketKeys,
    pub event_authority: Pubkey,
}

thread_local! { static SHORT_ONLY: std::cell::Cell<u8> = const { std::cell::Cell::new(0) }; }
thread_local! { static LONG_PATH: std::cell::RefCell<Vec<MarketKeys>> = const { std::cell::RefCell::new(Vec::new()) }; }

pub const KEEPER_ROLES: [&str; 5] = ["MARKET_KEEPER", "ORDER_KEEPER", "ORACLE_CONTROLLER", "PRICE_KEEPER", "FEATURE_KEEPER"];

pub fn ix(pid: Pubkey, accounts: impl ToAccountMetas, data: impl InstructionData) -> Instruction {
    Instruction { program_id: pid, accounts: accounts.to_account_metas(None), data: data.data() }
}

/// custom price feed account (owner: store program) with the given content
pub fn feed_account(store: &Pubkey, token: &Pubkey, feed_id: &Pubkey, provider: u8, ts: i64, slot: u64, min: u128, price: u128, max: u128, decimals: u8, open: bool) -> Acc {
    let mut data = vec![0u8; 8 + std::mem::size_of::<PriceFeed>()];
    data[..8].copy_from_slice(PriceFeed::DISCRIMINATOR);
    let body = &mut data[8..];
    body[0] = 255; // bump
    body[1] = provider;
    body[16..48].copy_from_slice(store.as_ref());
    body[80..112].copy_from_slice(token.as_ref());
    body[112..144].copy_from_slice(feed_id.as_ref());
    body[144..152].copy_from_slice(&slot.to_le_bytes());
    body[152..160].copy_from_slice(&ts.to_le_bytes());
    let mut p = PriceFeedPrice::new(decimals, ts, price, min, max, 0);
    p.set_flag(PriceFlag::Open, open);
    body[160..160 + std::mem::size_of::<PriceFeedPrice>()].copy_from_slice(bytemuck::bytes_of(&p));
    Acc::new(10_000_000, gmsol_store::ID, data)
}

pub fn build() -> (Db, W) {
    svm::install();
    svm::set_clock(1_000, 10);
    let pid = gmsol_store::ID;
    let mut db = Db::default();
    register(pid, gmsol_store::entry, &mut db);
    register(spl_token::ID, token_entry, &mut db);
    register(spl_associated_token_account::ID, ata_entry, &mut db);
    let mut sysacc = Acc::program();
    sysacc.owner = Pubkey::default();
    db.set(sys(), sysacc);
    let [admin, keeper, config_keeper, user, user2, stranger] = ["w-admin", "w-keeper", "w-config-keeper", "w-user", "w-user2", "w-stranger"].map(addr);
    for k in [admin, keeper, config_keeper, user, user2, stranger] {
        db.set(k, Acc::wallet(100_000_000_000));
    }
    let (store_key, bump) = Pubkey::find_program_address(&[Store::SEED, &gmsol_utils::to_seed("")], &pid);
    let mut store: Store = bytemuck::Zeroable::zeroed();
    store.init(admin, "", bump, admin, admin).expect("store init");
    for role in KEEPER_ROLES {
        store.enable_role(role).expect("enable role");
        store.grant(&keeper, role).expect("grant role");
    }
    store.enable_role("MARKET_CONFIG_KEEPER").expect("enable role");
    store.grant(&config_keeper, "MARKET_CONFIG_KEEPER").expect("grant role");
    db.set(store_key, Acc::new(1_000_000_000, pid, zc(&store)));
    let store_wallet = Pubkey::find_program_address(&[Store::WALLET_SEED, store_key.as_ref()], &pid).0;
    let event_authority = Pubkey::find_program_address(&[b"__event_authority"], &pid).0;

    let run = |db: &mut Db, name: &str, i: Instruction, signers: &[Pubkey]| {
        process(db, &i, signers).unwrap_or_else(|e| panic!("world setup: {name} failed: {e:?}"));
    };
    // token map
    let token_map = addr("w-token-map");
    run(&mut db, "initialize_token_map", ix(pid, gmsol_store::accounts::InitializeTokenMap { payer: keeper, store: store_key, token_map, system_program: sys() }, gmsol_store::instruction::InitializeTokenMap {}), &[keeper, token_map]);
    run(&mut db, "set_token_map", ix(pid, gmsol_store::accounts::SetTokenMap { authority: keeper, store: store_key, token_map }, gmsol_store::instruction::SetTokenMap {}), &[keeper]);
    let (a, b) = (addr("w-token-a"), addr("w-token-b"));
    db.set(a, mint_acc(6, 1_000_000_000_000_000, None));
    db.set(b, mint_acc(6, 1_000_000_000_000_000, None));
    let (feed_id_a, feed_id_b) = (addr("w-feed-id-a"), addr("w-feed-id-b"));
    for (name, token, feed_id) in [("A", a, feed_id_a), ("B", b, feed_id_b)] {
        let mut builder = gmsol_utils::token_config::UpdateTokenConfigParams::default();
        builder.feeds[0] = feed_id;
        builder.expected_provider = Some(0);
        builder.heartbeat_duration = 60;
        builder.precision = 4;
        run(&mut db, "push_to_token_map", ix(pid, gmsol_store::accounts::PushToTokenMap { authority: keeper, store: store_key, token_map, token, system_program: sys() }, gmsol_store::instruction::PushToTokenMap { name: name.into(), builder, enable: true, new: true }), &[keeper]);
    }
    let vault = |m: &Pubkey| Pubkey::find_program_address(&[b"market_vault", store_key.as_ref(), m.as_ref()], &pid).0;
    for m in [a, b] {
        run(&mut db, "initialize_market_vault", ix(pid, gmsol_store::accounts::InitializeMarketVault { authority: keeper, store: store_key, mint: m, vault: vault(&m), system_program: sys(), token_program: spl_token::ID }, gmsol_store::instruction::InitializeMarketVault {}), &[keeper]);
    }
    // two markets sharing both vaults: index A and index B over the same (A, B) pool tokens
    let mut mk = |index: Pubkey, name: &str| {
        let market_token = Pubkey::find_program_address(&[b"market_token_mint", store_key.as_ref(), index.as_ref(), a.as_ref(), b.as_ref()], &pid).0;
        let market = Pubkey::find_program_address(&[Market::SEED, store_key.as_ref(), market_token.as_ref()], &pid).0;
        run(
            &mut db,
            "initialize_market",
            ix(pid, gmsol_store::accounts::InitializeMarket { authority: keeper, store: store_key, market_token_mint: market_token, long_token_mint: a, short_token_mint: b, market, token_map, long_token_vault: vault(&a), short_token_vault: vault(&b), system_program: sys(), token_program: spl_token::ID }, gmsol_store::instruction::InitializeMarket { index_token_mint: index, name: name.into(), enable: true }),
            &[keeper],
        );
        // withdrawals move market tokens through their own vault
        run(&mut db, "initialize_market_vault(market token)", ix(pid, gmsol_store::accounts::InitializeMarketVault { authority: keeper, store: store_key, mint: market_token, vault: vault(&market_token), system_program: sys(), token_program: spl_token::ID }, gmsol_store::instruction::InitializeMarketVault {}), &[keeper]);
        MarketKeys { market_token, market, index, long: a, short: b }
    };
    let m1 = mk(a, "A/USD[A-B]");
    let m2 = mk(b, "B/USD[A-B]");
    // oracle (zeroed account pre-created by the client, as on chain)
    let oracle = addr("w-oracle");
    db.set(oracle, Acc::new(1_000_000_000, pid, vec![0u8; 8 + std::mem::size_of::<Oracle>()]));
    run(&mut db, "initialize_oracle", ix(pid, gmsol_store::accounts::InitializeOracle { payer: keeper, authority: keeper, store: store_key, oracle, system_program: sys() }, gmsol_store::instruction::InitializeOracle {}), &[keeper]);
    let (feed_a, feed_b) = (addr("w-feed-a"), addr("w-feed-b"));
    let w = W { pid, store: store_key, store_wallet, token_map, oracle, admin, keeper, config_keeper, user, user2, stranger, a, b, feed_id_a, feed_id_b, feed_a, feed_b, m1, m2, event_authority };
    w.set_feeds(&mut db, 1_000, (12_0000_0000, 12_0000_0000), (1_0000_0000, 1_0000_0000));
    // user funds
    for u in [user, user2] {
        db.set(ata(&u, &a), token_acc(a, u, 1_000_000_000_000));
        db.set(ata(&u, &b), token_acc(b, u, 1_000_000_000_000));
    }
    (db, w)
}

impl W {
    pub fn vault(&self, mint: &Pubkey) -> Pubkey {
        Pubkey::find_program_address(&[b"market_vault", self.store.as_ref(), mint.as_ref()], &self.pid).0
    }

    /// (re)publish both custom feeds with the given timestamp and (min, max) prices (8 decimals)
    pub fn set_feeds(&self, db: &mut Db, ts: i64, pa: (u128, u128), pb: (u128, u128)) {
        self.set_feeds_at(db, ts, ts.max(0) as u64 / 100, pa, pb)
    }

    /// the slot of the world's clock is `ts / 100` by convention (see `set_time`)
    pub fn set_feeds_at(&self, db: &mut Db, ts: i64, slot: u64, pa: (u128, u128), pb: (u128, u128)) {
        db.set(self.feed_a, feed_account(&self.store, &self.a, &self.feed_id_a, 0, ts, slot, pa.0, (pa.0 + pa.1) / 2, pa.1, 8, true));
        db.set(self.feed_b, feed_account(&self.store, &self.b, &self.feed_id_b, 0, ts, slot, pb.0, (pb.0 + pb.1) / 2, pb.1, 8, true));
    }

    /// set the runtime clock; slot = ts / 100
    pub fn set_time(ts: i64) {
        svm::set_clock(ts, ts.max(0) as u64 / 100);
    }

    pub fn market(&self, db: &Db, m: &MarketKeys) -> Market {
        db.pod::<Market>(&m.market).expect("market account")
    }

    fn feeds_sorted(&self) -> Vec<AccountMeta> {
        let mut toks = vec![(self.a, self.feed_a), (self.b, self.feed_b)];
        toks.sort();
        toks.into_iter().map(|(_, f)| meta(f, false, false)).collect()
    }

    pub fn ensure_ata(&self, db: &mut Db, owner: &Pubkey, mint: &Pubkey) -> Pubkey {
        let k = ata(owner, mint);
        if !db.exists(&k) {
            db.set(k, token_acc(*mint, *owner, 0));
        }
        k
    }

    // ------------------------------------------------------------------ deposits
    pub fn deposit_pda(&self, owner: &Pubkey, nonce: &[u8; 32]) -> Pubkey {
        Pubkey::find_program_address(&[Deposit::SEED, self.store.as_ref(), owner.as_ref(), nonce], &self.pid).0
    }

    #[allow(clippy::too_many_arguments)]
    pub fn create_deposit(&self, db: &mut Db, m: &MarketKeys, owner: Pubkey, nonce: [u8; 32], long_amount: u64, short_amount: u64, min_out: u64, signer: Pubkey) -> std::result::Result<(), TxError> {
        let deposit = self.deposit_pda(&owner, &nonce);
        // client-side preparation: escrow ATAs and the owner's market token ATA
        for (o, mint) in [(deposit, m.market_token), (deposit, m.long), (deposit, m.short), (owner, m.market_token)] {
            self.ensure_ata(db, &o, &mint);
        }
        let mut accounts = gmsol_store::accounts::CreateDeposit {
            owner, receiver: owner, store: self.store, market: m.market, deposit, market_token: m.market_token,
            initial_long_token: Some(m.long), initial_short_token: Some(m.short),
            market_token_escrow: ata(&deposit, &m.market_token), initial_long_token_escrow: Some(ata(&deposit, &m.long)), initial_short_token_escrow: Some(ata(&deposit, &m.short)),
            market_token_ata: ata(&owner, &m.market_token), initial_long_token_source: Some(ata(&owner, &m.long)), initial_short_token_source: Some(ata(&owner, &m.short)),
            system_program: sys(), token_program: spl_token::ID, associated_token_program: spl_associated_token_account::ID,
        };
        if SHORT_ONLY.with(|c| c.get()) != 0 {
            // a deposit without a long side: no long token, escrow or source at all
            (accounts.initial_long_token, accounts.initial_long_token_escrow, accounts.initial_long_token_source) = (None, None, None);
        }
        let path = LONG_PATH.with(|p| p.borrow().clone());
        let params = gmsol_store::ops::deposit::CreateDepositParams { execution_lamports: 5_000_000, long_token_swap_length: path.len() as u8, short_token_swap_length: 0, initial_long_token_amount: long_amount, initial_short_token_amount: short_amount, min_market_token_amount: min_out, should_unwrap_native_token: false };
        let mut i = ix(self.pid, accounts, gmsol_store::instruction::CreateDeposit { nonce, params });
        i.accounts.extend(path.iter().map(|p| meta(p.market, false, false)));
        process(db, &i, &[signer])
    }

    /// run `f` with the deposit instructions of this thread built for a deposit without a long side (1) or with the crafted
    /// close account list (2)
    pub fn with_short_only<T>(mode: u8, f: impl FnOnce() -> T) -> T {
        SHORT_ONLY.with(|c| c.set(mode));
        let r = f();
        SHORT_ONLY.with(|c| c.set(0));
        r
    }

    /// run `f` with deposits created / executed by this thread carrying `path` as their long-side swap path
    pub fn with_long_path<T>(path: Vec<MarketKeys>, f: impl FnOnce() -> T) -> T {
        LONG_PATH.with(|p| *p.borrow_mut() = path);
        let r = f();
        LONG_PATH.with(|p| p.borrow_mut().clear());
        r
    }

    pub fn execute_deposit(&self, db: &mut Db, m: &MarketKeys, owner: Pubkey, nonce: [u8; 32], signer: Pubkey, throw_on_execution_error: bool) -> std::result::Result<(), TxError> {
        process(db, &self.execute_deposit_ix(m, owner, nonce, signer, throw_on_execution_error), &[signer])
    }

    pub fn execute_deposit_ix(&self, m: &MarketKeys, owner: Pubkey, nonce: [u8; 32], signer: Pubkey, throw_on_execution_error: bool) -> Instruction {
        let deposit = self.deposit_pda(&owner, &nonce);
        let mut accounts = gmsol_store::accounts::ExecuteDeposit {
            authority: signer, store: self.store, token_map: self.token_map, oracle: self.oracle, market: m.market, deposit, market_token: m.market_token,
            initial_long_token: Some(m.long), initial_short_token: Some(m.short),
            market_token_escrow: ata(&deposit, &m.market_token), initial_long_token_escrow: Some(ata(&deposit, &m.long)), initial_short_token_escrow: Some(ata(&deposit, &m.short)),
            initial_long_token_vault: Some(self.vault(&m.long)), initial_short_token_vault: Some(self.vault(&m.short)),
            token_program: spl_token::ID, system_program: sys(), chainlink_program: None, event_authority: self.event_authority, program: self.pid,
        };
        if SHORT_ONLY.with(|c| c.get()) != 0 {
            (accounts.initial_long_token, accounts.initial_long_token_escrow, accounts.initial_long_token_vault) = (None, None, None);
        }
        let mut i = ix(self.pid, accounts, gmsol_store::instruction::ExecuteDeposit { execution_fee: 5_000, throw_on_execution_error });
        i.accounts.extend(self.feeds_sorted());
        // the swap markets of the long-side path (unique, excluding the current market), writable
        let mut seen = vec![m.market_token];
        for p in LONG_PATH.with(|p| p.borrow().clone()) {
            if !seen.contains(&p.market_token) {
                seen.push(p.market_token);
                i.accounts.push(meta(p.market, false, true));
            }
        }
        i
    }

    pub fn close_deposit(&self, db: &mut Db, m: &MarketKeys, owner: Pubkey, nonce: [u8; 32], signer: Pubkey) -> std::result::Result<(), TxError> {
        let deposit = self.deposit_pda(&owner, &nonce);
        let mut accounts = gmsol_store::accounts::CloseDeposit {
            executor: signer, store: self.store, store_wallet: self.store_wallet, owner, receiver: owner, market_token: m.market_token, initial_long_token: Some(m.long), initial_short_token: Some(m.short), deposit,
            market_token_escrow: ata(&deposit, &m.market_token), initial_long_token_escrow: Some(ata(&deposit, &m.long)), initial_short_token_escrow: Some(ata(&deposit, &m.short)),
            market_token_ata: ata(&owner, &m.market_token), initial_long_token_ata: Some(ata(&owner, &m.long)), initial_short_token_ata: Some(ata(&owner, &m.short)),
            system_program: sys(), token_program: spl_token::ID, associated_token_program: spl_associated_token_account::ID, event_authority: self.event_authority, program: self.pid,
        };
        match SHORT_ONLY.with(|c| c.get()) {
            0 => {}
            // the plain account list of a deposit without a long side
            1 => (accounts.initial_long_token, accounts.initial_long_token_escrow, accounts.initial_long_token_ata) = (None, None, None),
            // a crafted list: the unused long-token slot names the short mint (the mint constraint of an unused side accepts any mint)
            _ => (accounts.initial_long_token, accounts.initial_long_token_escrow, accounts.initial_long_token_ata) = (Some(m.short), None, None),
        }
        process(db, &ix(self.pid, accounts, gmsol_store::instruction::CloseDeposit { reason: "mc".into() }), &[signer])
    }

    // ------------------------------------------------------------------ withdrawals
    pub fn withdrawal_pda(&self, owner: &Pubkey, nonce: &[u8; 32]) -> Pubkey {
        Pubkey::find_program_address(&[Withdrawal::SEED, self.store.as_ref(), owner.as_ref(), nonce], &self.pid).0
    }

    #[allow(clippy::too_many_arguments)]
    pub fn create_withdrawal(&self, db: &mut Db, m: &MarketKeys, owner: Pubkey, nonce: [u8; 32], amount: u64, min_long: u64, min_short: u64, signer: Pubkey) -> std::result::Result<(), TxError> {
        let wd = self.withdrawal_pda(&owner, &nonce);
        for (o, mint) in [(wd, m.market_token), (wd, m.long), (wd, m.short), (owner, m.market_token)] {
            self.ensure_ata(db, &o, &mint);
        }
        let accounts = gmsol_store::accounts::CreateWithdrawal {
            owner, receiver: owner, store: self.store, market: m.market, withdrawal: wd, market_token: m.market_token, final_long_token: m.long, final_short_token: m.short,
            market_token_escrow: ata(&wd, &m.market_token), final_long_token_escrow: ata(&wd, &m.long), final_short_token_escrow: ata(&wd, &m.short), market_token_source: ata(&owner, &m.market_token),
            system_program: sys(), token_program: spl_token::ID, associated_token_program: spl_associated_token_account::ID,
        };
        let params = gmsol_store::ops::withdrawal::CreateWithdrawalParams { execution_lamports: 5_000_000, long_token_swap_path_length: 0, short_token_swap_path_length: 0, market_token_amount: amount, min_long_token_amount: min_long, min_short_token_amount: min_short, should_unwrap_native_token: false };
        process(db, &ix(self.pid, accounts, gmsol_store::instruction::CreateWithdrawal { nonce, params }), &[signer])
    }

    pub fn execute_withdrawal(&self, db: &mut Db, m: &MarketKeys, owner: Pubkey, nonce: [u8; 32], signer: Pubkey, throw_on_execution_error: bool) -> std::result::Result<(), TxError> {
        process(db, &self.execute_withdrawal_ix(m, owner, nonce, signer, throw_on_execution_error), &[signer])
    }

    pub fn execute_withdrawal_ix(&self, m: &MarketKeys, owner: Pubkey, nonce: [u8; 32], signer: Pubkey, throw_on_execution_error: bool) -> Instruction {
        let wd = self.withdrawal_pda(&owner, &nonce);
        let market_token_vault = Pubkey::find_program_address(&[b"market_vault", self.store.as_ref(), m.market_token.as_ref()], &self.pid).0;
        let accounts = gmsol_store::accounts::ExecuteWithdrawal {
            authority: signer, store: self.store, token_map: self.token_map, oracle: self.oracle, market: m.market, withdrawal: wd, market_token: m.market_token, final_long_token: m.long, final_short_token: m.short,
            market_token_escrow: ata(&wd, &m.market_token), final_long_token_escrow: ata(&wd, &m.long), final_short_token_escrow: ata(&wd, &m.short),
            market_token_vault, final_long_token_vault: self.vault(&m.long), final_short_token_vault: self.vault(&m.short),
            token_program: spl_token::ID, system_program: sys(), chainlink_program: None, event_authority: self.event_authority, program: self.pid,
        };
        let mut i = ix(self.pid, accounts, gmsol_store::instruction::ExecuteWithdrawal { execution_fee: 5_000, throw_on_execution_error });
        i.accounts.extend(self.feeds_sorted());
        i
    }

    pub fn close_withdrawal(&self, db: &mut Db, m: &MarketKeys, owner: Pubkey, nonce: [u8; 32], signer: Pubkey) -> std::result::Result<(), TxError> {
        let wd = self.withdrawal_pda(&owner, &nonce);
        let accounts = gmsol_store::accounts::CloseWithdrawal {
            executor: signer, store: self.store, store_wallet: self.store_wallet, owner, receiver: owner, market_token: m.market_token, final_long_token: m.long, final_short_token: m.short, withdrawal: wd,
            market_token_escrow: ata(&wd, &m.market_token), final_long_token_escrow: ata(&wd, &m.long), final_short_token_escrow: ata(&wd, &m.short),
            market_token_ata: ata(&owner, &m.market_token), final_long_token_ata: ata(&owner, &m.long), final_short_token_ata: ata(&owner, &m.short),
            system_program: sys(), token_program: spl_token::ID, associated_token_program: spl_associated_token_account::ID, event_authority: self.event_authority, program: self.pid,
        };
        process(db, &ix(self.pid, accounts, gmsol_store::instruction::CloseWithdrawal { reason: "mc".into() }), &[signer])
    }
}

impl W {
    /// Fabricate market state (positions' collateral sums, accrued fees, paid-out funding ...) that
    /// real position activity would leave behind: `f` runs on a real `RevertibleMarket` over the
    /// market account (visibility hook) and the result is committed.
    pub fn edit_market(&self, db: &mut Db, m: &MarketKeys, f: impl FnOnce(&mut gmsol_store::states::market::revertible::market::RevertibleMarket<'_, '_>)) {
        use gmsol_store::states::market::revertible::Revertible;
        let acc = db.get(&m.market);
        let (bump_key, bump) = Pubkey::find_program_address(&[b"__event_authority"], &self.pid);
        svm::ENV.with(|e| {
            let mut e = e.borrow_mut();
            e.stack.clear();
            e.stack.push(self.pid);
        });
        let (_buf, info) = crate::c21::record(&m.market, &self.pid, &acc.data);
        let (_ebuf, einfo) = crate::c21::record(&bump_key, &self.pid, &[]);
        // SAFETY: the records outlive the loader and the revertible market
        let info_ref: &'static AccountInfo<'static> = unsafe { &*(&info as *const AccountInfo<'static>) };
        let einfo_ref: &'static AccountInfo<'static> = unsafe { &*(&einfo as *const AccountInfo<'static>) };
        let loader: AccountLoader<Market> = AccountLoader::try_from(info_ref).expect("market loader");
        let loader_ref: &'static AccountLoader<'static, Market> = unsafe { &*(&loader as *const AccountLoader<'static, Market>) };
        {
            let mut rm = gmsol_store::verif::revertible_market(loader_ref, einfo_ref, bump).expect("revertible market");
            f(&mut rm);
            rm.commit();
        }
        svm::ENV.with(|e| e.borrow_mut().stack.clear());
        let mut acc = acc;
        acc.data = info.data.borrow().to_vec();
        db.set(m.market, acc);
    }

    pub fn claim_fees(&self, db: &mut Db, m: &MarketKeys, token: Pubkey, by: Pubkey) -> std::result::Result<(), TxError> {
        let target = self.ensure_ata(db, &by, &token);
        let accounts = gmsol_store::accounts::ClaimFeesFromMarket { authority: by, store: self.store, market: m.market, token_mint: token, vault: self.vault(&token), target, token_program: spl_token::ID, event_authority: self.event_authority, program: self.pid };
        process(db, &ix(self.pid, accounts, gmsol_store::instruction::ClaimFeesFromMarket {}), &[by])
    }

    pub fn market_transfer_in(&self, db: &mut Db, m: &MarketKeys, token: Pubkey, amount: u64, by: Pubkey) -> std::result::Result<(), TxError> {
        let from = self.ensure_ata(db, &by, &token);
        let accounts = gmsol_store::accounts::MarketTransferIn { authority: by, store: self.store, from_authority: by, market: m.market, from, vault: self.vault(&token), token_program: spl_token::ID, event_authority: self.event_authority, program: self.pid };
        process(db, &ix(self.pid, accounts, gmsol_store::instruction::MarketTransferIn { amount }), &[by])
    }
}

/// Self-test of the world: one full deposit and withdrawal lifecycle through real instructions.
pub fn selftest() -> std::result::Result<(), String> {
    let (mut db, w) = build();
    let n = [1u8; 32];
    let m = w.m1.clone();
    w.create_deposit(&mut db, &m, w.user, n, 1_000_000, 12_000_000, 0, w.user).map_err(|e| format!("create_deposit: {e:?}"))?;
    if w.execute_deposit(&mut db, &m, w.user, n, w.stranger, false).is_ok() {
        return Err("a stranger executed a deposit".into());
    }
    w.execute_deposit(&mut db, &m, w.user, n, w.keeper, false).map_err(|e| format!("execute_deposit: {e:?}"))?;
    w.close_deposit(&mut db, &m, w.user, n, w.keeper).map_err(|e| format!("close_deposit: {e:?}"))?;
    let gm = token_amount(&db, &ata(&w.user, &m.market_token));
    if gm == 0 {
        return Err("no market tokens minted".into());
    }
    w.create_withdrawal(&mut db, &m, w.user, n, gm / 2, 0, 0, w.user).map_err(|e| format!("create_withdrawal: {e:?}"))?;
    w.execute_withdrawal(&mut db, &m, w.user, n, w.keeper, false).map_err(|e| format!("execute_withdrawal: {e:?}"))?;
    w.close_withdrawal(&mut db, &m, w.user, n, w.keeper).map_err(|e| format!("close_withdrawal: {e:?}"))?;
    if token_amount(&db, &ata(&w.user, &m.market_token)) != gm - gm / 2 {
        return Err("withdrawal did not burn the market tokens".into());
    }
    Ok(())
}

