//! C16 (every config key reads/writes its own setting), C17 (documented defaults) and the
//! accessor tables shared with C40 (SDK market model vs program view on identical bytes).
use std::collections::BTreeMap;

use anchor_lang::prelude::*;
use gmsol_model::{Balance, BaseMarket, BorrowingFeeMarket, PerpMarket, PnlFactorKind, PositionImpactMarket, SwapMarket};
use gmsol_store::states::{
    market::config::{MarketConfigFlag, MarketConfigKey},
    AddressKey, AmountKey, FactorKey, Market, Store,
};
use mc_core::{e1, json, Cli, Report};
use strum::IntoEnumIterator;

use crate::defaults;

pub fn new_market(pure: bool) -> Box<Market> {
    crate::svm::install();
    crate::svm::set_clock(1_234, 5);
    let mut m: Box<Market> = Box::new(Market::default());
    let a = crate::svm::addr("cfg-token-a");
    let b = if pure { a } else { crate::svm::addr("cfg-token-b") };
    m.init(254, crate::svm::addr("cfg-store"), "M", crate::svm::addr("cfg-market-token"), crate::svm::addr("cfg-index"), a, b, true).expect("market init");
    m
}

pub fn new_store() -> Box<Store> {
    crate::svm::install();
    let mut store: Box<Store> = Box::new(bytemuck::Zeroable::zeroed());
    store.init(crate::svm::addr("cfg-authority"), "", 255, crate::svm::addr("cfg-receiver"), crate::svm::addr("cfg-holding")).expect("store init");
    store
}

/// name-derived table: config key -> the model parameter it names
pub fn accessor<M>(m: &M, name: &str) -> Option<u128>
where
    M: BaseMarket<20, Num = u128, Signed = i128> + SwapMarket<20> + PositionImpactMarket<20> + BorrowingFeeMarket<20> + PerpMarket<20>,
{
    use PnlFactorKind::*;
    Some(match name {
        "swap_impact_exponent" => *m.swap_impact_params().ok()?.exponent(),
        "swap_impact_positive_factor" => *m.swap_impact_params().ok()?.positive_factor(),
        "swap_impact_negative_factor" => *m.swap_impact_params().ok()?.negative_factor(),
        "swap_fee_receiver_factor" => *m.swap_fee_params().ok()?.receiver_factor(),
        "position_impact_exponent" => *m.position_impact_params().ok()?.exponent(),
        "position_impact_positive_factor" => *m.position_impact_params().ok()?.positive_factor(),
        "position_impact_negative_factor" => *m.position_impact_params().ok()?.negative_factor(),
        "order_fee_receiver_factor" => *m.order_fee_params().ok()?.receiver_factor(),
        "min_position_size_usd" => *m.position_params().ok()?.min_position_size_usd(),
        "min_collateral_value" => *m.position_params().ok()?.min_collateral_value(),
        "min_collateral_factor" => *m.position_params().ok()?.min_collateral_factor(),
        "max_positive_position_impact_factor" => *m.position_params().ok()?.max_positive_position_impact_factor(),
        "max_negative_position_impact_factor" => *m.position_params().ok()?.max_negative_position_impact_factor(),
        "max_position_impact_factor_for_liquidations" => *m.position_params().ok()?.max_position_impact_factor_for_liquidations(),
        "min_collateral_factor_for_liquidation" => *m.position_params().ok()?.min_collateral_factor_for_liquidation(),
        "min_collateral_factor_for_open_interest_multiplier_for_long" => m.min_collateral_factor_for_open_interest_multiplier(true).ok()?,
        "min_collateral_factor_for_open_interest_multiplier_for_short" => m.min_collateral_factor_for_open_interest_multiplier(false).ok()?,
        "position_impact_distribute_factor" => *m.position_impact_distribution_params().ok()?.distribute_factor(),
        "min_position_impact_pool_amount" => *m.position_impact_distribution_params().ok()?.min_position_impact_pool_amount(),
        "borrowing_fee_receiver_factor" => *m.borrowing_fee_params().ok()?.receiver_factor(),
        "borrowing_fee_factor_for_long" => *m.borrowing_fee_params().ok()?.factor(true),
        "borrowing_fee_factor_for_short" => *m.borrowing_fee_params().ok()?.factor(false),
        "borrowing_fee_exponent_for_long" => *m.borrowing_fee_params().ok()?.exponent(true),
        "borrowing_fee_exponent_for_short" => *m.borrowing_fee_params().ok()?.exponent(false),
        "borrowing_fee_optimal_usage_factor_for_long" => *m.borrowing_fee_kink_model_params().ok()?.optimal_usage_factor(true),
        "borrowing_fee_optimal_usage_factor_for_short" => *m.borrowing_fee_kink_model_params().ok()?.optimal_usage_factor(false),
        "borrowing_fee_base_factor_for_long" => *m.borrowing_fee_kink_model_params().ok()?.base_borrowing_factor(true),
        "borrowing_fee_base_factor_for_short" => *m.borrowing_fee_kink_model_params().ok()?.base_borrowing_factor(false),
        "borrowing_fee_above_optimal_usage_factor_for_long" => *m.borrowing_fee_kink_model_params().ok()?.above_optimal_usage_borrowing_factor(true),
        "borrowing_fee_above_optimal_usage_factor_for_short" => *m.borrowing_fee_kink_model_params().ok()?.above_optimal_usage_borrowing_factor(false),
        "funding_fee_exponent" => *m.funding_fee_params().ok()?.exponent(),
        "funding_fee_factor" => *m.funding_fee_params().ok()?.factor(),
        "funding_fee_max_factor_per_second" => *m.funding_fee_params().ok()?.max_factor_per_second(),
        "funding_fee_min_factor_per_second" => *m.funding_fee_params().ok()?.min_factor_per_second(),
        "funding_fee_increase_factor_per_second" => *m.funding_fee_params().ok()?.increase_factor_per_second(),
        "funding_fee_decrease_factor_per_second" => *m.funding_fee_params().ok()?.decrease_factor_per_second(),
        "funding_fee_threshold_for_stable_funding" => *m.funding_fee_params().ok()?.threshold_for_stable_funding(),
        "funding_fee_threshold_for_decrease_funding" => *m.funding_fee_params().ok()?.threshold_for_decrease_funding(),
        "reserve_factor" => m.reserve_factor().ok()?,
        "open_interest_reserve_factor" => m.open_interest_reserve_factor().ok()?,
        "max_pnl_factor_for_long_deposit" => m.pnl_factor_config(MaxAfterDeposit, true).ok()?,
        "max_pnl_factor_for_short_deposit" => m.pnl_factor_config(MaxAfterDeposit, false).ok()?,
        "max_pnl_factor_for_long_withdrawal" => m.pnl_factor_config(MaxAfterWithdrawal, true).ok()?,
        "max_pnl_factor_for_short_withdrawal" => m.pnl_factor_config(MaxAfterWithdrawal, false).ok()?,
        "max_pnl_factor_for_long_trader" => m.pnl_factor_config(MaxForTrader, true).ok()?,
        "max_pnl_factor_for_short_trader" => m.pnl_factor_config(MaxForTrader, false).ok()?,
        "max_pnl_factor_for_long_adl" => m.pnl_factor_config(ForAdl, true).ok()?,
        "max_pnl_factor_for_short_adl" => m.pnl_factor_config(ForAdl, false).ok()?,
        "min_pnl_factor_after_long_adl" => m.pnl_factor_config(MinAfterAdl, true).ok()?,
        "min_pnl_factor_after_short_adl" => m.pnl_factor_config(MinAfterAdl, false).ok()?,
        "max_pool_amount_for_long_token" => m.max_pool_amount(true).ok()?,
        "max_pool_amount_for_short_token" => m.max_pool_amount(false).ok()?,
        "max_open_interest_for_long" => m.max_open_interest(true).ok()?,
        "max_open_interest_for_short" => m.max_open_interest(false).ok()?,
        // fee factors have no getters: the fee on exactly one unit is the factor itself
        "swap_fee_factor_for_positive_impact" => m.swap_fee_params().ok()?.fee::<20>(gmsol_model::pool::delta::BalanceChange::Improved, &gmsol_store::constants::MARKET_USD_UNIT)?,
        "swap_fee_factor_for_negative_impact" => m.swap_fee_params().ok()?.fee::<20>(gmsol_model::pool::delta::BalanceChange::Worsened, &gmsol_store::constants::MARKET_USD_UNIT)?,
        "order_fee_factor_for_positive_impact" => m.order_fee_params().ok()?.fee::<20>(gmsol_model::pool::delta::BalanceChange::Improved, &gmsol_store::constants::MARKET_USD_UNIT)?,
        "order_fee_factor_for_negative_impact" => m.order_fee_params().ok()?.fee::<20>(gmsol_model::pool::delta::BalanceChange::Worsened, &gmsol_store::constants::MARKET_USD_UNIT)?,
        _ => return None,
    })
}

/// every model parameter of a market, in a fixed order (used for SDK-vs-program differential)
pub fn all_params<M>(m: &M) -> Vec<(String, Option<u128>)>
where
    M: BaseMarket<20, Num = u128, Signed = i128> + SwapMarket<20> + PositionImpactMarket<20> + BorrowingFeeMarket<20> + PerpMarket<20>,
{
    let mut v: Vec<(String, Option<u128>)> = MarketConfigKey::iter().map(|k| (k.to_string(), accessor(m, &k.to_string()))).collect();
    v.push(("flag:skip_borrowing_fee_for_smaller_side".into(), m.borrowing_fee_params().ok().map(|p| p.skip_borrowing_fee_for_smaller_side() as u128)));
    v.push(("flag:ignore_open_interest_for_usage_factor".into(), m.ignore_open_interest_for_usage_factor().ok().map(|b| b as u128)));
    v.push(("usd_to_amount_divisor".into(), Some(m.usd_to_amount_divisor())));
    v.push(("funding_factor_per_second".into(), Some(*m.funding_factor_per_second() as u128)));
    v.push(("funding_amount_per_size_adjustment".into(), Some(m.funding_amount_per_size_adjustment())));
    let pools: [(&str, gmsol_model::Result<(u128, u128)>); 12] = [
        ("liquidity", m.liquidity_pool().and_then(|p| Ok((p.long_amount()?, p.short_amount()?)))),
        ("claimable_fee", m.claimable_fee_pool().and_then(|p| Ok((p.long_amount()?, p.short_amount()?)))),
        ("swap_impact", m.swap_impact_pool().and_then(|p| Ok((p.long_amount()?, p.short_amount()?)))),
        ("oi_long", m.open_interest_pool(true).and_then(|p| Ok((p.long_amount()?, p.short_amount()?)))),
        ("oi_short", m.open_interest_pool(false).and_then(|p| Ok((p.long_amount()?, p.short_amount()?)))),
        ("oi_tokens_long", m.open_interest_in_tokens_pool(true).and_then(|p| Ok((p.long_amount()?, p.short_amount()?)))),
        ("oi_tokens_short", m.open_interest_in_tokens_pool(false).and_then(|p| Ok((p.long_amount()?, p.short_amount()?)))),
        ("collateral_long", m.collateral_sum_pool(true).and_then(|p| Ok((p.long_amount()?, p.short_amount()?)))),
        ("collateral_short", m.collateral_sum_pool(false).and_then(|p| Ok((p.long_amount()?, p.short_amount()?)))),
        ("position_impact", m.position_impact_pool().and_then(|p| Ok((p.long_amount()?, p.short_amount()?)))),
        ("borrowing_factor", m.borrowing_factor_pool().and_then(|p| Ok((p.long_amount()?, p.short_amount()?)))),
        ("total_borrowing", m.total_borrowing_pool().and_then(|p| Ok((p.long_amount()?, p.short_amount()?)))),
    ];
    for (n, r) in pools {
        let r = r.ok();
        v.push((format!("pool:{n}:long"), r.map(|x| x.0)));
        v.push((format!("pool:{n}:short"), r.map(|x| x.1)));
    }
    for l in [true, false] {
        v.push((format!("pool:funding_per_size:{l}:long"), m.funding_amount_per_size_pool(l).ok().and_then(|p| p.long_amount().ok())));
        v.push((format!("pool:funding_per_size:{l}:short"), m.funding_amount_per_size_pool(l).ok().and_then(|p| p.short_amount().ok())));
        v.push((format!("pool:claimable_funding_per_size:{l}:long"), m.claimable_funding_amount_per_size_pool(l).ok().and_then(|p| p.long_amount().ok())));
        v.push((format!("pool:claimable_funding_per_size:{l}:short"), m.claimable_funding_amount_per_size_pool(l).ok().and_then(|p| p.short_amount().ok())));
    }
    v
}

fn observe(m: &Market) -> Vec<(String, u128)> {
    MarketConfigKey::iter().filter_map(|k| m.get_config(&k.to_string()).ok().map(|v| (k.to_string(), *v))).collect()
}

fn observe_flags(m: &Market) -> Vec<(String, bool)> {
    MarketConfigFlag::iter().map(|k| (k.to_string(), m.get_config_flag_by_key(k))).collect()
}

/// keys whose model accessor is switched to the market-closed parameter set
fn overridden_when_closed(name: &str) -> bool {
    matches!(name, "min_collateral_factor_for_liquidation" | "borrowing_fee_base_factor_for_long" | "borrowing_fee_base_factor_for_short" | "borrowing_fee_above_optimal_usage_factor_for_long" | "borrowing_fee_above_optimal_usage_factor_for_short")
}

pub fn run_c16(cli: &Cli) -> Report {
    let mut rep = Report::new(cli, "exploration");
    rep.rule("E1 over the finite key space: for every MarketConfigKey x (market closed?, closed-params enabled?, pure?) write a sentinel through get_config_mut(&str) and read back every key, every flag and the model accessor the key names (table derived from the key names); every MarketConfigFlag written both ways; every store Amount/Factor/Address key; non-trivial = the key is writable");
    rep.assume("key -> accessor table is derived from the key names, not from the match arms under test");
    let keys: Vec<MarketConfigKey> = MarketConfigKey::iter().collect();
    e1::run(&mut rep, "market config keys", &keys, |key, sink| {
        let name = key.to_string();
        let idx = keys.iter().position(|k| k.to_string() == name).unwrap_or(0);
        for pure in [false, true] {
            for closed in [false, true] {
                for enable_closed in [false, true] {
                    let mut base = new_market(pure);
                    base.set_config_flag("enable_market_closed_params", enable_closed).expect("flag");
                    base.set_flag(gmsol_utils::market::MarketFlag::Closed, closed);
                    let before = observe(&base);
                    let flags_before = observe_flags(&base);
                    let mut m = base.clone();
                    let sentinel = 0xABCD_0000u128 + idx as u128;
                    let rp = || json!({"key": name, "pure": pure, "closed": closed, "enable_closed_params": enable_closed});
                    let writable = match m.get_config_mut(&name) {
                        Ok(v) => {
                            *v = sentinel;
                            true
                        }
                        Err(_) => false,
                    };
                    sink.case(writable);
                    if !writable {
                        if m.get_config(&name).is_ok() {
                            sink.fail_with("C16/readable_but_not_writable", || (format!("{name} can be read but not written"), rp()));
                        }
                        continue;
                    }
                    let after = observe(&m);
                    for ((k0, v0), (_, v1)) in before.iter().zip(after.iter()) {
                        if *k0 == name {
                            if *v1 != sentinel {
                                sink.fail_with("C16/write_not_read_back", || (format!("{name}: wrote {sentinel:#x}, read {v1:#x}"), rp()));
                            }
                        } else if v0 != v1 {
                            sink.fail_with("C16/write_changed_other_key", || (format!("writing {name} changed {k0}: {v0:#x} -> {v1:#x}"), rp()));
                        }
                    }
                    if observe_flags(&m) != flags_before {
                        sink.fail_with("C16/write_changed_flag", || (format!("writing {name} changed a flag"), rp()));
                    }
                    // every other model accessor keeps its value, the named one shows the sentinel
                    let acc_before = all_params(&*base);
                    let acc_after = all_params(&*m);
                    for ((n0, a0), (_, a1)) in acc_before.iter().zip(acc_after.iter()) {
                        let named = *n0 == name;
                        let switched = closed && enable_closed && overridden_when_closed(&name);
                        let via_closed_set = closed && enable_closed && match name.as_str() {
                            "market_closed_min_collateral_factor_for_liquidation" => n0 == "min_collateral_factor_for_liquidation",
                            "market_closed_borrowing_fee_base_factor" => n0.starts_with("borrowing_fee_base_factor_for_"),
                            "market_closed_borrowing_fee_above_optimal_usage_factor" => n0.starts_with("borrowing_fee_above_optimal_usage_factor_for_"),
                            _ => false,
                        };
                        if named && a1.is_some() {
                            if !switched && *a1 != Some(sentinel) {
                                sink.fail_with("C16/model_parameter_not_fed", || (format!("{name}: model accessor returns {a1:?} after writing {sentinel:#x}"), rp()));
                            }
                            if switched && *a1 == Some(sentinel) {
                                sink.fail_with("C16/closed_params_switch_ignored", || (format!("{name}: closed market with closed params enabled still uses the open-market key"), rp()));
                            }
                        } else if via_closed_set {
                            if *a1 != Some(sentinel) {
                                sink.fail_with("C16/model_parameter_not_fed", || (format!("{name} should feed {n0} on a closed market, got {a1:?}"), rp()));
                            }
                        } else if a0 != a1 {
                            sink.fail_with("C16/write_changed_other_parameter", || (format!("writing {name} changed model parameter {n0}: {a0:?} -> {a1:?}"), rp()));
                        }
                    }
                    sink.sample(rp);
                }
            }
        }
    });
    // populated base: every key holds a distinct non-zero value; each key is then written with the
    // special values 0 / 1 / MAX and every name-mapped accessor is predicted from the key values
    // (a zero liquidation factor falls back to min_collateral_factor, as PositionParams documents)
    e1::run(&mut rep, "market config keys, populated base x {0,1,MAX}", &keys, |key, sink| {
        let name = key.to_string();
        for closed in [false, true] {
            for enable_closed in [false, true] {
                let mut base = new_market(false);
                base.set_config_flag("enable_market_closed_params", enable_closed).expect("flag");
                base.set_flag(gmsol_utils::market::MarketFlag::Closed, closed);
                for (i, k) in keys.iter().enumerate() {
                    if let Ok(v) = base.get_config_mut(&k.to_string()) {
                        *v = 1_000_003 + 7 * i as u128;
                    }
                }
                for value in [0u128, 1, u128::MAX] {
                    let mut m = base.clone();
                    let Ok(slot) = m.get_config_mut(&name) else { continue };
                    *slot = value;
                    sink.case(true);
                    let rp = || json!({"key": name, "value": value.to_string(), "closed": closed, "enable_closed_params": enable_closed, "base": "populated"});
                    let cfg = |k: &str| m.get_config(k).ok().copied();
                    let use_closed = closed && enable_closed;
                    for k in &keys {
                        let n = k.to_string();
                        let Some(got) = accessor(&*m, &n) else { continue };
                        let source: String = if use_closed {
                            match n.as_str() {
                                "min_collateral_factor_for_liquidation" => "market_closed_min_collateral_factor_for_liquidation".into(),
                                s if s.starts_with("borrowing_fee_base_factor_for_") => "market_closed_borrowing_fee_base_factor".into(),
                                s if s.starts_with("borrowing_fee_above_optimal_usage_factor_for_") => "market_closed_borrowing_fee_above_optimal_usage_factor".into(),
                                _ => n.clone(),
                            }
                        } else {
                            n.clone()
                        };
                        let mut want = cfg(&source);
                        if n == "min_collateral_factor_for_liquidation" && want == Some(0) {
                            want = cfg("min_collateral_factor");
                        }
                        if Some(got) != want {
                            sink.fail_with("C16/model_parameter_not_fed", || (format!("after writing {name}={value} (closed {closed}, closed params {enable_closed}) parameter {n} reads {got}, key {source} holds {want:?}"), rp()));
                        }
                    }
                }
            }
        }
    });
    let flags: Vec<MarketConfigFlag> = MarketConfigFlag::iter().collect();
    e1::run(&mut rep, "market config flags", &flags, |flag, sink| {
        let name = flag.to_string();
        for closed in [false, true] {
            for value in [true, false] {
                let mut base = new_market(false);
                base.set_flag(gmsol_utils::market::MarketFlag::Closed, closed);
                // start from the opposite value so that the write is visible
                let _ = base.set_config_flag(&name, !value);
                let before = observe_flags(&base);
                let cfg_before = observe(&base);
                let mut m = base.clone();
                let r = m.set_config_flag(&name, value);
                sink.case(r.is_ok());
                let rp = || json!({"flag": name, "value": value, "closed": closed});
                if r.is_err() {
                    sink.fail_with("C16/flag_not_writable", || (format!("{name}"), rp()));
                    continue;
                }
                if m.get_config_flag(&name).ok() != Some(value) {
                    sink.fail_with("C16/write_not_read_back", || (format!("flag {name} = {value} not read back"), rp()));
                }
                for ((k0, v0), (_, v1)) in before.iter().zip(observe_flags(&m).iter()) {
                    if *k0 != name && v0 != v1 {
                        sink.fail_with("C16/write_changed_other_key", || (format!("writing flag {name} changed flag {k0}"), rp()));
                    }
                }
                if observe(&m) != cfg_before {
                    sink.fail_with("C16/write_changed_other_key", || (format!("writing flag {name} changed a config value"), rp()));
                }
                // named model parameters
                use gmsol_model::BorrowingFeeMarket as _;
                let skip = m.borrowing_fee_params().map(|p| p.skip_borrowing_fee_for_smaller_side()).ok();
                let ignore = m.ignore_open_interest_for_usage_factor().ok();
                match name.as_str() {
                    "skip_borrowing_fee_for_smaller_side" => {
                        let closed_set = closed && m.get_config_flag("enable_market_closed_params").unwrap_or(false);
                        if !closed_set && skip != Some(value) {
                            sink.fail_with("C16/model_parameter_not_fed", || (format!("{name}={value}: borrowing params say {skip:?}"), rp()));
                        }
                    }
                    "ignore_open_interest_for_usage_factor" => {
                        if ignore != Some(value) {
                            sink.fail_with("C16/model_parameter_not_fed", || (format!("{name}={value}: model says {ignore:?}"), rp()));
                        }
                    }
                    _ => {}
                }
            }
        }
    });
    // store keys
    let store = new_store();
    let obs = |s: &Store| -> Vec<(String, String)> {
        let mut o = vec![];
        for k in AmountKey::iter() {
            if let Ok(v) = s.get_amount(&k.to_string()) {
                o.push((format!("amount:{k}"), v.to_string()));
            }
        }
        for k in FactorKey::iter() {
            if let Ok(v) = s.get_factor(&k.to_string()) {
                o.push((format!("factor:{k}"), v.to_string()));
            }
        }
        for k in AddressKey::iter() {
            if let Ok(v) = s.get_address(&k.to_string()) {
                o.push((format!("address:{k}"), v.to_string()));
            }
        }
        o
    };
    let mut store_keys: Vec<String> = vec![];
    store_keys.extend(AmountKey::iter().map(|k| format!("amount:{k}")));
    store_keys.extend(FactorKey::iter().map(|k| format!("factor:{k}")));
    store_keys.extend(AddressKey::iter().map(|k| format!("address:{k}")));
    e1::run(&mut rep, "store amount/factor/address keys", &store_keys, |full, sink| {
        let (kind, key) = full.split_once(':').unwrap();
        let before = obs(&store);
        let mut s = store.clone();
        let sentinel_addr = crate::svm::addr("cfg-sentinel");
        let (written, want) = match kind {
            "amount" => (s.get_amount_mut(key).map(|v| *v = 0xBEEF).is_ok(), 0xBEEFu64.to_string()),
            "factor" => (s.get_factor_mut(key).map(|v| *v = 0xFEED).is_ok(), 0xFEEDu128.to_string()),
            _ => (s.get_address_mut(key).map(|v| *v = sentinel_addr).is_ok(), sentinel_addr.to_string()),
        };
        sink.case(written);
        let rp = || json!({"store_key": full});
        if !written {
            // some keys are deliberately read-only (e.g. claimable_time_window); reading must still work or fail consistently
            sink.count("store_key_not_writable");
            return;
        }
        for ((k0, v0), (_, v1)) in before.iter().zip(obs(&s).iter()) {
            if k0 == full {
                if *v1 != want {
                    sink.fail_with("C16/write_not_read_back", || (format!("store key {full}: wrote {want}, read {v1}"), rp()));
                }
            } else if v0 != v1 {
                sink.fail_with("C16/write_changed_other_key", || (format!("writing store key {full} changed {k0}"), rp()));
            }
        }
        sink.sample(rp);
    });
    rep
}

pub fn run_c17(cli: &Cli) -> Report {
    let mut rep = Report::new(cli, "exploration");
    rep.rule("E1 over the finite key space: Market::init under a stubbed clock for an impure and a pure token pair; every config key compared with the DEFAULT_* constant its name designates, every flag with its DEFAULT_* boolean, every pool's purity and zero amounts; non-trivial = key has a documented default");
    let table: BTreeMap<&str, u128> = defaults::DEFAULTS.iter().cloned().collect();
    let keys: Vec<MarketConfigKey> = MarketConfigKey::iter().collect();
    e1::run(&mut rep, "config defaults", &keys, |key, sink| {
        let name = key.to_string();
        for pure in [false, true] {
            let m = new_market(pure);
            let rp = || json!({"key": name, "pure": pure});
            match (m.get_config(&name), table.get(name.as_str())) {
                (Ok(v), Some(d)) => {
                    sink.case(true);
                    if *v != *d {
                        sink.fail_with(&format!("C17/default_mismatch/{name}"), || (format!("{name} = {v} after init, documented default {d}"), rp()));
                    }
                }
                (Ok(_), None) => {
                    sink.case(false);
                    sink.fail_with("C17/key_without_documented_default", || (name.clone(), rp()));
                }
                (Err(_), Some(_)) => {
                    sink.case(false);
                    sink.fail_with("C17/key_unreadable", || (name.clone(), rp()));
                }
                (Err(_), None) => sink.case(false),
            }
            sink.sample(rp);
        }
    });
    let flags: Vec<MarketConfigFlag> = MarketConfigFlag::iter().collect();
    e1::run(&mut rep, "flag defaults and pools", &flags, |flag, sink| {
        for pure in [false, true] {
            let m = new_market(pure);
            let want = match flag {
                MarketConfigFlag::SkipBorrowingFeeForSmallerSide | MarketConfigFlag::MarketClosedSkipBorrowingFeeForSmallerSide => gmsol_store::constants::DEFAULT_SKIP_BORROWING_FEE_FOR_SMALLER_SIDE,
                MarketConfigFlag::IgnoreOpenInterestForUsageFactor => gmsol_store::constants::DEFAULT_IGNORE_OPEN_INTEREST_FOR_USAGE_FACTOR,
                _ => false,
            };
            sink.case(true);
            if m.get_config_flag_by_key(*flag) != want {
                sink.fail_with(&format!("C17/flag_default_mismatch/{flag}"), || (format!("{flag} = {} after init, documented default {want}", !want), json!({"flag": flag.to_string(), "pure": pure})));
            }
        }
    });
    // pools: purity and zero amounts; clocks at the stub time
    e1::run(&mut rep, "pools after init", &[false, true], |&pure, sink| {
        let m = new_market(pure);
        for kind in gmsol_model::PoolKind::iter() {
            let Some(p) = m.pool(kind) else { continue };
            sink.case(true);
            let bytes = bytemuck::bytes_of(&p);
            let is_pure = bytes[0] != 0;
            let expect = pure && !matches!(kind, gmsol_model::PoolKind::PositionImpact | gmsol_model::PoolKind::BorrowingFactor | gmsol_model::PoolKind::TotalBorrowing);
            if is_pure != expect {
                sink.fail_with("C17/pool_purity", || (format!("{kind:?}: pure={is_pure}, expected {expect} (market pure={pure})"), json!({"pool": format!("{kind:?}"), "pure": pure})));
            }
            if p.long_amount().ok() != Some(0) || p.short_amount().ok() != Some(0) {
                sink.fail_with("C17/pool_not_empty", || (format!("{kind:?}"), json!({"pool": format!("{kind:?}"), "pure": pure})));
            }
        }
        if m.is_pure() != pure {
            sink.fail_with("C17/pool_purity", || ("market purity flag".into(), json!({"pure": pure})));
        }
    });
    rep
}

#[allow(dead_code)]
fn _unused(_: Pubkey) {}
