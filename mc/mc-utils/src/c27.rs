//! C27 — market openness follows the per-feed status policy and freshness (E1).
use gmsol_utils::price::{MarketStatusFlagContainer, PriceFeedPrice, PriceFlag};
use mc_core::{e1, json, Cli, Report};

struct Alph {
    statuses: Vec<u8>,
    policies: Vec<u8>,
    pflags: Vec<u8>,
    ts: Vec<i64>,
    us: Vec<u32>,
}

/// The statement, evaluated in i128.
fn oracle(status: u8, pol: u8, pf: u8, now: i64, t: i64, diff: u32, timeout: u32) -> bool {
    // status under the policy: 0 (and any unknown value) = no information, never closes by itself
    let closed_by_status = match status {
        1 => pol & 1 == 0,  // Unknown: open only if AllowUnknown
        2 => pol & 2 == 0,  // PreMarket: open only if AllowPreMarket
        3 => pol & 4 != 0,  // RegularHours: closed only if HaltRegularHours
        4 => pol & 8 == 0,  // PostMarket
        5 => pol & 16 == 0, // Overnight
        6 => pol & 32 == 0, // Closed: open only if AllowClosed
        _ => false,
    };
    if closed_by_status || pf & 1 == 0 {
        return false;
    }
    if pf & 2 == 0 {
        return true; // last-update tracking disabled
    }
    let d: i128 = if pf & 4 != 0 { diff as i128 } else { (diff as i128 + 999_999_999) / 1_000_000_000 };
    let age_report = now as i128 - t as i128;
    let age_update = age_report + d;
    age_report <= timeout as i128 && age_update <= timeout as i128
}

fn explore(rep: &mut Report, a: &Alph) {
    e1::run(rep, "is_market_open", &a.statuses, |&status, sink| {
        for &pol in &a.policies {
            let flags = MarketStatusFlagContainer::from_value(pol);
            for &pf in &a.pflags {
                for &now in &a.ts {
                    for &t in &a.ts {
                        for &diff in &a.us {
                            for &timeout in &a.us {
                                let mut p = PriceFeedPrice::new(8, t, 1, 1, 1, diff);
                                p.set_flag(PriceFlag::Open, pf & 1 != 0);
                                p.set_flag(PriceFlag::LastUpdateDiffEnabled, pf & 2 != 0);
                                p.set_flag(PriceFlag::LastUpdateDiffSecs, pf & 4 != 0);
                                bytemuck::bytes_of_mut(&mut p)[2] = status; // market_status_value
                                let got = mc_core::catch(|| p.is_market_open(now, timeout, flags));
                                let want = oracle(status, pol, pf, now, t, diff, timeout);
                                sink.case(want);
                                let rp = || json!({"status": status, "policy": pol, "price_flags": pf, "now": now, "ts": t, "diff": diff, "timeout": timeout});
                                match got {
                                    Ok(g) if g == want => {}
                                    Ok(g) => sink.fail(
                                        if g { "C27/open_but_should_be_closed" } else { "C27/closed_but_should_be_open" },
                                        format!("is_market_open(status {status}, policy {pol:#x}, flags {pf:#b}, now {now}, ts {t}, diff {diff}, timeout {timeout}) = {g}, statement says {want}"),
                                        rp(),
                                    ),
                                    Err(e) => sink.fail("C27/panic", format!("is_market_open panicked: {e}"), rp()),
                                }
                            }
                        }
                    }
                }
            }
        }
    });
}

pub fn run(cli: &Cli) -> Report {
    let mut rep = Report::new(cli, "exploration");
    rep.rule("a case is non-trivial when the statement says the market is open (both outcomes are compared)");
    if let Some(rv) = &cli.replay {
        let g = |k: &str| rv[k].as_i64().unwrap_or(0);
        let a = Alph { statuses: vec![g("status") as u8], policies: vec![g("policy") as u8], pflags: vec![g("price_flags") as u8], ts: vec![g("now"), g("ts")], us: vec![g("diff") as u32, g("timeout") as u32] };
        explore(&mut rep, &a);
        let mut second = Report::new(cli, "exploration");
        explore(&mut second, &a);
        if second.per_key != rep.per_key {
            rep.machinery("replay is not deterministic");
        }
        return rep;
    }
    let th = cli.tier.thorough();
    let mut ts: Vec<i64> = vec![i64::MIN, i64::MIN + 1, i64::MIN + 61, -1_000_000, -61, -1, 0, 1, 59, 60, 61, 1_000_000, i64::MAX - 61, i64::MAX - 60, i64::MAX - 1, i64::MAX];
    ts.extend([u32::MAX as i64, u32::MAX as i64 + 1, -(u32::MAX as i64), i64::MAX - u32::MAX as i64, i64::MIN + u32::MAX as i64]);
    ts.extend(cli.extras(27, 2, 0, u64::MAX as u128).into_iter().map(|x| x as u64 as i64));
    if th {
        ts.extend([2, 58, 62, 119, 120, 121, -60, -59, i64::MAX - 59, i64::MIN + 59, i64::MIN + 60]);
    }
    ts.sort();
    ts.dedup();
    let mut us: Vec<u32> = vec![0, 1, 59, 60, 61, 999_999_999, 1_000_000_000, 1_000_000_001, u32::MAX - 1, u32::MAX];
    us.extend(cli.extras(28, 1, 0, u32::MAX as u128).into_iter().map(|x| x as u32));
    if th {
        us.extend([2, 58, 62, 120, 1_999_999_999, 2_000_000_000, 2_000_000_001, u32::MAX / 2]);
    }
    us.sort();
    us.dedup();
    let small_status: Vec<u8> = (0u8..=8).chain([99, 255]).collect();
    let small_pol: Vec<u8> = (0u8..64).chain([64, 128, 255]).collect();
    // (A) time alphabets in full against the defined statuses / policy bits
    let a = Alph { statuses: small_status, policies: small_pol, pflags: (0u8..8).collect(), ts: ts.clone(), us: us.clone() };
    explore(&mut rep, &a);
    if th {
        // (B) every status byte x every policy byte against reduced time alphabets
        let b = Alph {
            statuses: (0u8..=255).collect(),
            policies: (0u8..=255).collect(),
            pflags: (0u8..8).collect(),
            ts: vec![i64::MIN, -1, 0, 60, 61, 1_000_000, i64::MAX - 60, i64::MAX],
            us: vec![0, 60, 61, 1_000_000_001, u32::MAX],
        };
        explore(&mut rep, &b);
    }
    rep.assume("the underlying last update happened `last_update_diff` (seconds, or nanoseconds rounded up to seconds) before the report timestamp; ages are compared in exact integer arithmetic");
    rep
}
