//! Checker binary for the properties anchored in `crates/utils`, `crates/chainlink-datastreams`
//! and `crates/solana-utils` (C26, C27, C28, C34, C35 helper part, C41).
mod c26;
mod c27;
mod c28;
mod c34;
mod c41;

use mc_core::{Cli, Report};

fn main() {
    let cli = Cli::parse();
    mc_core::quiet_panics();
    let rep: Report = match cli.property.as_str() {
        "C26" => c26::run(&cli),
        "C27" => c27::run(&cli),
        "C28" => c28::run(&cli),
        "C34" => c34::run(&cli),
        "C41" => c41::run(&cli),
        other => {
            eprintln!("unknown property {other}");
            std::process::exit(2)
        }
    };
    std::process::exit(rep.finish(&cli));
}
