//! C34 — fixed-capacity maps behave like sorted maps until full (E2 on instantiations of the real macro).
use std::collections::BTreeMap;

use gmsol_utils::fixed_map;
use mc_core::{
    e2::{self, Machine, StepOut},
    json, Cli, Report,
};

/// key index -> 8 key bytes; the byte order deliberately disagrees with the numeric order
fn key_bytes(k: &u16) -> [u8; 8] {
    let x = (*k as u64).wrapping_mul(0x9e37_79b9_7f4a_7c15).rotate_left(17) ^ 0x5bd1_e995;
    let mut b = x.to_be_bytes();
    // force collisions in the leading bytes so that comparisons reach the tail
    b[0] = (*k % 3) as u8;
    b[1] = 0;
    b
}

fixed_map!(Map1, 8, u16, key_bytes, u64, 1, 4);
fixed_map!(Map2, 8, u16, key_bytes, u64, 2, 4);
fixed_map!(Map3, 8, u16, key_bytes, u64, 3, 4);
fixed_map!(Map4, 8, u16, key_bytes, u64, 4, 4);
fixed_map!(Map32, 8, u16, key_bytes, u64, 32, 4);
fixed_map!(Map64, 8, u16, key_bytes, u64, 64, 4);
fixed_map!(Map96, 8, u16, key_bytes, u64, 96, 4);
fixed_map!(Map512, 8, u16, key_bytes, u64, 512, 4);
// the default string-keyed form (SHA-256 of the name), as the store's role/config maps use it
fixed_map!(StrMap3, u128, 3, 12);

pub trait Fm: Clone + Send + Sync + Default + bytemuck::Pod {
    const CAP: usize;
    fn f_get(&self, k: u16) -> Option<u64>;
    fn f_get_mut_set(&mut self, k: u16, v: u64) -> bool;
    fn f_insert(&mut self, k: u16, v: u64, new: bool) -> Result<Option<u64>, ()>;
    fn f_remove(&mut self, k: u16) -> Option<u64>;
    fn f_clear(&mut self);
    fn f_len(&self) -> usize;
    fn f_is_empty(&self) -> bool;
    fn f_entries(&self) -> Vec<([u8; 8], u64)>;
    fn f_entry(&self, i: usize) -> Option<([u8; 8], u64)>;
}

macro_rules! impl_fm {
    ($t:ident, $cap:expr) => {
        impl Fm for $t {
            const CAP: usize = $cap;
            fn f_get(&self, k: u16) -> Option<u64> {
                self.get(&k).copied()
            }
            fn f_get_mut_set(&mut self, k: u16, v: u64) -> bool {
                match self.get_mut(&k) {
                    Some(s) => {
                        *s = v;
                        true
                    }
                    None => false,
                }
            }
            fn f_insert(&mut self, k: u16, v: u64, new: bool) -> Result<Option<u64>, ()> {
                self.insert_with_options(&k, v, new).map_err(|_| ())
            }
            fn f_remove(&mut self, k: u16) -> Option<u64> {
                self.remove(&k)
            }
            fn f_clear(&mut self) {
                self.clear()
            }
            fn f_len(&self) -> usize {
                self.len()
            }
            fn f_is_empty(&self) -> bool {
                self.is_empty()
            }
            fn f_entries(&self) -> Vec<([u8; 8], u64)> {
                self.entries().map(|(k, v)| (*k, *v)).collect()
            }
            fn f_entry(&self, i: usize) -> Option<([u8; 8], u64)> {
                self.get_entry_by_index(i).map(|(k, v)| (*k, *v))
            }
        }
    };
}
impl_fm!(Map1, 1);
impl_fm!(Map2, 2);
impl_fm!(Map3, 3);
impl_fm!(Map4, 4);
impl_fm!(Map32, 32);
impl_fm!(Map64, 64);
impl_fm!(Map96, 96);
impl_fm!(Map512, 512);

#[derive(Clone, Copy, Debug)]
enum Act {
    Insert(u16, u64),
    InsertNew(u16, u64),
    Remove(u16),
    SetViaGetMut(u16, u64),
    Clear,
}

#[derive(Clone)]
struct St<M: Fm> {
    map: Box<M>,
    reference: BTreeMap<u16, u64>,
}

struct Mach<M: Fm> {
    acts: Vec<Act>,
    /// all keys that queries look at
    keys: Vec<u16>,
    _m: std::marker::PhantomData<M>,
}

impl<M: Fm> Mach<M> {
    fn queries(&self, st: &St<M>, out: &mut StepOut) {
        let r = mc_core::catch(|| {
            let mut bad: Vec<(String, String)> = vec![];
            let m = &*st.map;
            if m.f_len() != st.reference.len() || m.f_is_empty() != st.reference.is_empty() {
                bad.push(("C34/len_differs".into(), format!("len {} reference {}", m.f_len(), st.reference.len())));
            }
            for &k in &self.keys {
                let (g, w) = (m.f_get(k), st.reference.get(&k).copied());
                if g != w {
                    bad.push(("C34/get_differs".into(), format!("get({k}) = {g:?}, reference {w:?}")));
                }
            }
            // entries: exactly the reference content, sorted by key bytes
            let mut want: Vec<([u8; 8], u64)> = st.reference.iter().map(|(k, v)| (key_bytes(k), *v)).collect();
            want.sort();
            let got = m.f_entries();
            if got != want {
                bad.push(("C34/entries_differ".into(), format!("entries {got:?} reference {want:?}")));
            }
            for i in 0..=m.f_len() + 1 {
                let (g, w) = (m.f_entry(i), want.get(i).copied());
                if g != w {
                    bad.push(("C34/entry_by_index_differs".into(), format!("get_entry_by_index({i}) = {g:?}, reference {w:?}")));
                }
            }
            bad
        });
        match r {
            Ok(bad) => out.violations.extend(bad),
            Err(p) => out.fail("C34/panic", format!("a query panicked: {p}")),
        }
    }
}

impl<M: Fm> Machine for Mach<M> {
    type State = St<M>;
    type Action = Act;
    fn actions(&self) -> &[Act] {
        &self.acts
    }
    fn key(&self, s: &St<M>) -> u128 {
        mc_core::hash128(&(bytemuck::bytes_of(&*s.map), &s.reference))
    }
    fn check_start(&self, s: &St<M>, out: &mut StepOut) {
        self.queries(s, out);
    }
    fn step(&self, s: &St<M>, a: &Act, out: &mut StepOut) -> St<M> {
        let mut n = s.clone();
        let before = bytemuck::bytes_of(&*s.map).to_vec();
        let rf = &mut n.reference;
        let map = &mut n.map;
        let r = mc_core::catch(|| match *a {
            Act::Insert(k, v) | Act::InsertNew(k, v) => {
                let new = matches!(a, Act::InsertNew(..));
                let got = map.f_insert(k, v, new);
                let want: Result<Option<u64>, ()> = if rf.contains_key(&k) {
                    if new {
                        Err(())
                    } else {
                        Ok(rf.insert(k, v))
                    }
                } else if rf.len() >= M::CAP {
                    Err(())
                } else {
                    rf.insert(k, v);
                    Ok(None)
                };
                let label = if want.is_ok() { "ok" } else if rf.len() >= M::CAP && !rf.contains_key(&k) { "full" } else { "exists" };
                (label, if got != want { Some(format!("{a:?} returned {got:?}, reference {want:?}")) } else { None }, want.is_err())
            }
            Act::Remove(k) => {
                let got = map.f_remove(k);
                let want = rf.remove(&k);
                (if want.is_some() { "ok" } else { "absent" }, if got != want { Some(format!("{a:?} returned {got:?}, reference {want:?}")) } else { None }, want.is_none())
            }
            Act::SetViaGetMut(k, v) => {
                let got = map.f_get_mut_set(k, v);
                let want = match rf.get_mut(&k) {
                    Some(s) => {
                        *s = v;
                        true
                    }
                    None => false,
                };
                (if want { "ok" } else { "absent" }, if got != want { Some(format!("{a:?} found {got}, reference {want}")) } else { None }, !want)
            }
            Act::Clear => {
                map.f_clear();
                rf.clear();
                ("ok", None, false)
            }
        });
        match r {
            Ok((label, diff, must_be_unchanged)) => {
                out.label = label;
                if let Some(d) = diff {
                    out.fail("C34/result_differs", d);
                }
                if must_be_unchanged && bytemuck::bytes_of(&*n.map) != &before[..] {
                    out.fail("C34/failed_operation_changed_map", format!("{a:?} failed but the map bytes changed"));
                }
            }
            Err(p) => {
                out.label = "panic";
                out.fail("C34/panic", format!("{a:?} panicked: {p}"));
                out.prune = true;
                return s.clone();
            }
        }
        self.queries(&n, out);
        n
    }
}

fn small<M: Fm>(rep: &mut Report, cli: &Cli, name: &str, depth: usize) {
    let nkeys = (M::CAP + 2) as u16;
    let mut acts = vec![];
    for k in 0..nkeys {
        acts.push(Act::Insert(k, 1));
        acts.push(Act::Insert(k, 2));
        acts.push(Act::InsertNew(k, 3));
        acts.push(Act::Remove(k));
        acts.push(Act::SetViaGetMut(k, 4));
    }
    acts.push(Act::Clear);
    let m = Mach::<M> { acts, keys: (0..nkeys + 1).collect(), _m: Default::default() };
    let start = St { map: Box::new(M::default()), reference: BTreeMap::new() };
    if let Some(rv) = &cli.replay {
        if rv["section"] == name {
            e2::replay_into(rep, &m, &[start], rv);
        }
        return;
    }
    e2::explore(rep, name, &m, vec![start], &e2::Config { depth, max_states: 5_000_000 }, json!({}));
}

/// large capacities: prefilled start states at the capacity edge, operations on edge keys
fn large<M: Fm>(rep: &mut Report, cli: &Cli, name: &str, depth: usize) {
    let cap = M::CAP as u16;
    let all: Vec<u16> = (0..cap + 2).collect();
    // sort the candidate keys by their bytes to find the extreme ones
    let mut by_bytes = all.clone();
    by_bytes.sort_by_key(|k| key_bytes(k));
    let picks = [by_bytes[0], by_bytes[1], by_bytes[(cap / 2) as usize], by_bytes[cap as usize], by_bytes[cap as usize + 1]];
    let mut acts = vec![];
    for &k in &picks {
        acts.push(Act::Insert(k, 1));
        acts.push(Act::InsertNew(k, 3));
        acts.push(Act::Remove(k));
        acts.push(Act::SetViaGetMut(k, 4));
    }
    acts.push(Act::Clear);
    let m = Mach::<M> { acts, keys: all.clone(), _m: Default::default() };
    let mut starts = vec![];
    // prefills leave out different subsets of the picked keys, so that new-lowest / new-highest / middle inserts at the edge all occur
    for skip in [vec![], vec![picks[0]], vec![picks[4]], vec![picks[0], picks[4]], vec![picks[2], picks[3]], vec![picks[1], picks[2]]] {
        let mut st = St { map: Box::new(M::default()), reference: BTreeMap::new() };
        for &k in all.iter().filter(|k| !skip.contains(k)) {
            if st.reference.len() >= M::CAP {
                break;
            }
            st.map.f_insert(k, 100 + k as u64, true).expect("prefill");
            st.reference.insert(k, 100 + k as u64);
        }
        starts.push(st);
    }
    if let Some(rv) = &cli.replay {
        if rv["section"] == name {
            e2::replay_into(rep, &m, &starts, rv);
        }
        return;
    }
    e2::explore(rep, name, &m, starts, &e2::Config { depth, max_states: 5_000_000 }, json!({}));
}

/// the string-keyed default form: same semantics through the SHA-256 key function
fn str_form(rep: &mut Report) {
    let names = ["A", "B", "C", "D", ""];
    let mut evaluated = 0u64;
    // every sequence of 5 operations (insert/insert-new/remove per name) against a BTreeMap
    let ops: Vec<(u8, usize)> = (0..3u8).flat_map(|o| (0..names.len()).map(move |n| (o, n))).collect();
    let mut idx = vec![0usize; 4];
    loop {
        let mut m = StrMap3::default();
        let mut rf: BTreeMap<&str, u128> = BTreeMap::new();
        for (step, &i) in idx.iter().enumerate() {
            let (o, n) = ops[i];
            let name = names[n];
            let v = step as u128 + 1;
            let r = mc_core::catch(|| match o {
                0 => {
                    let got = m.insert_with_options(name, v, false).map_err(|_| ());
                    let want = if rf.contains_key(name) || rf.len() < 3 { Ok(rf.insert(name, v)) } else { Err(()) };
                    got == want
                }
                1 => {
                    let got = m.insert_with_options(name, v, true).map_err(|_| ());
                    let want = if rf.contains_key(name) || rf.len() >= 3 { Err(()) } else { Ok(rf.insert(name, v)) };
                    got == want
                }
                _ => m.remove(name) == rf.remove(name),
            });
            evaluated += 1;
            let ok = matches!(r, Ok(true)) && names.iter().all(|n| m.get(n).copied() == rf.get(n).copied()) && m.len() == rf.len();
            if !ok {
                rep.violation(mc_core::Violation::new("C34/str_form_differs", format!("string-keyed map diverged from the reference at step {step} of ops {idx:?} ({r:?})"), json!({"section": "str", "ops": idx})));
                break;
            }
        }
        // next index vector
        let mut p = 0;
        loop {
            if p == idx.len() {
                rep.evaluations += evaluated;
                rep.distinct_nontrivial += evaluated;
                rep.section("string-keyed form, capacity 3: every sequence of 4 operations", json!({"evaluations": evaluated, "sequences": ops.len().pow(4)}));
                return;
            }
            idx[p] += 1;
            if idx[p] < ops.len() {
                break;
            }
            idx[p] = 0;
            p += 1;
        }
    }
}

pub fn run(cli: &Cli) -> Report {
    let mut rep = Report::new(cli, "model_checking");
    rep.rule("E2: every sequence of insert / insert-new / remove / write-through-get_mut / clear over capacity+2 keys (byte order of keys disagrees with numeric order) on instantiations of the real fixed_map! macro, against a BTreeMap; after every step get for every key, len, is_empty, entries order and get_entry_by_index are compared; a failed operation must leave the bytes unchanged; panics are violations. Small capacities are explored to a fixpoint from the empty map; capacities 32/64/96/512 from prefilled capacity-edge states");
    rep.assume("the macro is instantiated in the checker crate with the same capacities the programs use (32 roles, 64 members, 96 GLV markets, 512 prices); the macro body is the code under test");
    let th = cli.tier.thorough();
    small::<Map1>(&mut rep, cli, "capacity 1", 6);
    small::<Map2>(&mut rep, cli, "capacity 2", 7);
    small::<Map3>(&mut rep, cli, "capacity 3", if th { 9 } else { 7 });
    small::<Map4>(&mut rep, cli, "capacity 4", if th { 9 } else { 6 });
    large::<Map32>(&mut rep, cli, "capacity 32 (prefilled)", if th { 6 } else { 4 });
    large::<Map64>(&mut rep, cli, "capacity 64 (prefilled)", if th { 6 } else { 4 });
    large::<Map96>(&mut rep, cli, "capacity 96 (prefilled)", if th { 5 } else { 3 });
    large::<Map512>(&mut rep, cli, "capacity 512 (prefilled)", if th { 4 } else { 3 });
    if cli.replay.is_none() {
        str_form(&mut rep);
    }
    rep
}
