//! C28 — Chainlink reports are decoded safely and converted faithfully (E1, structure-aware byte strings).
use chainlink_data_streams_report::feed_id::ID;
use chainlink_data_streams_report::report::{v11::ReportDataV11, v2::ReportDataV2, v3::ReportDataV3, v7::ReportDataV7, v8::ReportDataV8};
use gmsol_chainlink_datastreams::report::{decode, decode_compressed_full_report, decode_full_report, ExtendedMarketStatus, Report};
use gmsol_chainlink_datastreams::utils::Compressor;
use gmsol_chainlink_datastreams::FromChainlinkReport;
use gmsol_utils::price::{MarketStatus as FeedStatus, PriceFeedPrice};
use mc_core::{big::*, e1, json, Cli, Report as Rep};

fn hex(b: &[u8]) -> String {
    b.iter().map(|x| format!("{x:02x}")).collect()
}
fn unhex(s: &str) -> Vec<u8> {
    (0..s.len() / 2).map(|i| u8::from_str_radix(&s[2 * i..2 * i + 2], 16).unwrap_or(0)).collect()
}

/// a 32-byte big-endian word with the given low 8 bytes and one optional non-zero high byte
fn word(low: u64, high_byte: Option<usize>) -> [u8; 32] {
    let mut w = [0u8; 32];
    w[24..].copy_from_slice(&low.to_be_bytes());
    if let Some(i) = high_byte {
        w[i] = 1;
    }
    w
}

/// ABI semantics of `(bytes32[3] context, bytes blob)` with 256-bit offset/length words.
/// Returns the blob range if the described slice exists inside the payload.
fn abi_blob(payload: &[u8]) -> Option<(usize, usize)> {
    if payload.len() < 128 {
        return None;
    }
    let off = BigUint::from_bytes_be(&payload[96..128]);
    let off = off.to_u64()? as usize;
    if off.checked_add(32)? > payload.len() {
        return None;
    }
    let len = BigUint::from_bytes_be(&payload[off..off + 32]);
    let len = len.to_u64()? as usize;
    let start = off + 32;
    let end = start.checked_add(len)?;
    if end > payload.len() {
        return None;
    }
    Some((start, end))
}

fn check_full(payload: &[u8], sink: &mut e1::Sink) {
    let r = mc_core::catch(|| decode_full_report(payload).map(|(c, b)| (c, b.to_vec())).map_err(|e| format!("{e:?}")));
    let rp = || json!({"fn": "decode_full_report", "payload": hex(payload)});
    match r {
        Err(p) => {
            sink.case(false);
            sink.fail("C28/decode_full_report/panic", format!("decode_full_report panicked on {} bytes: {p}", payload.len()), rp());
        }
        Ok(Err(_)) => {
            sink.case(false);
            sink.count("full_report_rejected");
            // completeness guard (keeps the check from passing on a decoder that rejects everything):
            // a canonical payload (offset word = 128, described slice inside the payload) must decode
            if payload.len() >= 160 && payload[96..128] == word(128, None) {
                if let Some((s, e)) = abi_blob(payload) {
                    sink.fail("C28/decode_full_report/canonical_rejected", format!("canonical payload of {} bytes with blob [{s},{e}) rejected", payload.len()), rp());
                }
            }
        }
        Ok(Ok((ctx, blob))) => {
            sink.case(true);
            sink.count("full_report_accepted");
            for i in 0..3 {
                if ctx[i][..] != payload[32 * i..32 * i + 32] {
                    sink.fail("C28/decode_full_report/wrong_context", format!("context word {i} differs"), rp());
                }
            }
            match abi_blob(payload) {
                Some((s, e)) if payload[s..e] == blob[..] => {}
                Some((s, e)) => sink.fail("C28/decode_full_report/wrong_slice", format!("returned {} bytes, ABI slice is [{s},{e})", blob.len()), rp()),
                None => sink.fail(
                    "C28/decode_full_report/accepted_without_abi_slice",
                    format!("accepted a payload of {} bytes whose 256-bit offset/length words describe no slice inside it (returned {} bytes)", payload.len(), blob.len()),
                    rp(),
                ),
            }
        }
    }
}

fn payload(ctx_fill: u8, offset: [u8; 32], tail: &[u8]) -> Vec<u8> {
    let mut p = vec![ctx_fill; 96];
    p.extend_from_slice(&offset);
    p.extend_from_slice(tail);
    p
}

fn feed_id(version: u16) -> ID {
    let mut b = [0u8; 32];
    b[..2].copy_from_slice(&version.to_be_bytes());
    b[31] = 7;
    ID(b)
}

fn values() -> Vec<BigInt> {
    let p = |k: u32| BigInt::from(10u8).pow(k);
    let two = |k: u32| BigInt::one() << k;
    let mut v = vec![
        BigInt::from(-1), BigInt::zero(), BigInt::one(), BigInt::from(2), p(8), p(18), p(18) + 1, p(18) * 50_000u32, two(64) - 1, two(64), two(96), two(128) - 1, two(128), two(128) + 1,
        (two(128) - 1) * 10u8, (two(128) - 1) * 10u8 + 1, (two(128) - 1) * p(18), (two(128) - 1) * p(18) + 1, two(190), two(191) - 1, -(two(191)), -p(18),
    ];
    v.dedup();
    v
}

struct Conv {
    version: u16,
    price: BigInt,
    bid: BigInt,
    ask: BigInt,
    obs_ts: u32,
    last_update_ns: u64,
    status: u32,
}

/// ABI word of an int192: 256-bit two's complement (the schema crate's own encoder does not
/// sign-extend negative values, so the harness patches these words itself)
fn int192_word(v: &BigInt) -> Option<[u8; 32]> {
    let lim = BigInt::one() << 191u32;
    if *v >= lim || *v < -lim.clone() {
        return None;
    }
    let m = if v.is_negative() { (BigInt::one() << 256u32) + v } else { v.clone() };
    let (_, b) = m.to_bytes_be();
    let mut w = [0u8; 32];
    w[32 - b.len()..].copy_from_slice(&b);
    Some(w)
}

fn encode(c: &Conv) -> Option<Vec<u8>> {
    let real = c;
    let zero = Conv { version: c.version, price: BigInt::zero(), bid: BigInt::zero(), ask: BigInt::zero(), obs_ts: c.obs_ts, last_update_ns: c.last_update_ns, status: c.status };
    let mut bytes = encode_raw(&zero)?;
    let slots: &[(usize, &BigInt)] = match c.version {
        2 | 7 => &[(6, &real.price)],
        3 => &[(6, &real.price), (7, &real.bid), (8, &real.ask)],
        8 => &[(7, &real.price)],
        _ => &[(6, &real.price), (8, &real.bid), (10, &real.ask)],
    };
    for (i, v) in slots {
        bytes[32 * i..32 * i + 32].copy_from_slice(&int192_word(v)?);
    }
    Some(bytes)
}

fn encode_raw(c: &Conv) -> Option<Vec<u8>> {
    let fee = BigInt::from(100);
    let id = feed_id(c.version);
    let r = match c.version {
        2 => ReportDataV2 { feed_id: id, valid_from_timestamp: 5, observations_timestamp: c.obs_ts, native_fee: fee.clone(), link_fee: fee, expires_at: 9, benchmark_price: c.price.clone() }.abi_encode(),
        3 => ReportDataV3 { feed_id: id, valid_from_timestamp: 5, observations_timestamp: c.obs_ts, native_fee: fee.clone(), link_fee: fee, expires_at: 9, benchmark_price: c.price.clone(), bid: c.bid.clone(), ask: c.ask.clone() }.abi_encode(),
        7 => ReportDataV7 { feed_id: id, valid_from_timestamp: 5, observations_timestamp: c.obs_ts, native_fee: fee.clone(), link_fee: fee, expires_at: 9, exchange_rate: c.price.clone() }.abi_encode(),
        8 => ReportDataV8 { feed_id: id, valid_from_timestamp: 5, observations_timestamp: c.obs_ts, native_fee: fee.clone(), link_fee: fee, expires_at: 9, last_update_timestamp: c.last_update_ns, mid_price: c.price.clone(), market_status: c.status }.abi_encode(),
        _ => ReportDataV11 {
            feed_id: id, valid_from_timestamp: 5, observations_timestamp: c.obs_ts, native_fee: fee.clone(), link_fee: fee, expires_at: 9, mid: c.price.clone(), last_seen_timestamp_ns: c.last_update_ns,
            bid: c.bid.clone(), bid_volume: BigInt::from(3), ask: c.ask.clone(), ask_volume: BigInt::from(4), last_traded_price: BigInt::from(5), market_status: c.status,
        }
        .abi_encode(),
    };
    r.ok()
}

fn u192_big(v: gmsol_utils::price::U192) -> BigInt {
    let l = v.as_limbs();
    (BigInt::from(l[2]) << 128u32) + (BigInt::from(l[1]) << 64u32) + BigInt::from(l[0])
}

fn check_conv(c: &Conv, sink: &mut e1::Sink) {
    let rp = || json!({"fn": "convert", "version": c.version, "price": c.price.to_string(), "bid": c.bid.to_string(), "ask": c.ask.to_string(), "obs_ts": c.obs_ts, "last_update_ns": c.last_update_ns.to_string(), "status": c.status});
    let Some(bytes) = encode(c) else {
        sink.case(false);
        sink.count("not_encodable");
        return;
    };
    let rep = match mc_core::catch(|| decode(&bytes)) {
        Err(p) => {
            sink.case(false);
            sink.fail("C28/decode/panic", format!("decode panicked: {p}"), rp());
            return;
        }
        Ok(Err(_)) => {
            sink.case(false);
            sink.count("decode_rejected");
            // status values outside the schema's range are the only legitimate rejection of an encodable report
            let status_ok = match c.version { 8 => c.status <= 2, 11 => c.status <= 5, _ => true };
            if status_ok {
                sink.fail("C28/decode/valid_report_rejected", "an encodable report with a valid status was rejected".into(), rp());
            }
            return;
        }
        Ok(Ok(r)) => r,
    };
    // --- decoded fields are the encoded ones
    let (eb, ea) = if matches!(c.version, 3 | 11) { (c.bid.clone(), c.ask.clone()) } else { (c.price.clone(), c.price.clone()) };
    let field = |name: &str, got: Option<gmsol_utils::price::U192>, want: &BigInt, sink: &mut e1::Sink| {
        let ok = match got {
            Some(v) => !want.is_negative() && u192_big(v) == *want,
            None => want.is_negative(),
        };
        if !ok {
            sink.fail("C28/decode/wrong_field", format!("{name}: decoded {:?}, encoded {want}", got.map(u192_big)), rp());
        }
    };
    field("price", rep.non_negative_price(), &c.price, sink);
    field("bid", rep.non_negative_bid(), &eb, sink);
    field("ask", rep.non_negative_ask(), &ea, sink);
    if rep.observations_timestamp != c.obs_ts || rep.valid_from_timestamp != 5 || rep.expires_at() != 9 || rep.feed_id.0 != feed_id(c.version).0 {
        sink.fail("C28/decode/wrong_field", "timestamps / feed id differ".into(), rp());
    }
    let want_lu = if matches!(c.version, 8 | 11) { Some(c.last_update_ns) } else { None };
    if rep.last_update_timestamp() != want_lu {
        sink.fail("C28/decode/wrong_field", format!("last update {:?} expected {want_lu:?}", rep.last_update_timestamp()), rp());
    }
    let want_status = match (c.version, c.status) {
        (8, 0) | (11, 0) => Some(ExtendedMarketStatus::Unknown),
        (8, 1) | (11, 5) => Some(ExtendedMarketStatus::Closed),
        (8, 2) | (11, 2) => Some(ExtendedMarketStatus::RegularHours),
        (11, 1) => Some(ExtendedMarketStatus::PreMarket),
        (11, 3) => Some(ExtendedMarketStatus::PostMarket),
        (11, 4) => Some(ExtendedMarketStatus::Overnight),
        _ => None,
    };
    if rep.extended_market_status() != want_status {
        sink.fail("C28/decode/wrong_status", format!("status {:?} expected {want_status:?}", rep.extended_market_status()), rp());
    }
    // --- conversion into a feed price
    let conv = mc_core::catch(|| PriceFeedPrice::from_chainlink_report(&rep).map_err(|e| format!("{e:?}")));
    let negative = c.price.is_negative() || eb.is_negative() || ea.is_negative();
    let ordered = eb <= c.price && c.price <= ea;
    match conv {
        Err(p) => {
            sink.case(false);
            sink.fail("C28/convert/panic", format!("from_chainlink_report panicked: {p}"), rp());
        }
        Ok(Err(_)) => {
            sink.case(false);
            sink.count("convert_rejected");
            // completeness guard: well-formed, representable, sane timestamps => must convert
            let fits = ea <= BigInt::from(u128::MAX) * BigInt::from(10u8).pow(18);
            let ts_ok = want_lu.map(|lu| (lu as u128) < (c.obs_ts as u128 + 1) * 1_000_000_000).unwrap_or(true);
            if !negative && ordered && fits && ts_ok {
                sink.fail("C28/convert/valid_report_rejected", "a well-formed representable report was rejected".into(), rp());
            }
        }
        Ok(Ok(p)) => {
            sink.case(true);
            sink.count("converted");
            if negative {
                sink.fail("C28/convert/negative_accepted", format!("accepted a negative bid/price/ask"), rp());
                return;
            }
            if !ordered {
                sink.fail("C28/convert/misordered_accepted", format!("accepted bid {eb} price {} ask {ea}", c.price), rp());
                return;
            }
            let decimals = bytemuck::bytes_of(&p)[0] as u32;
            if decimals > 18 {
                sink.fail("C28/convert/wrong_scale", format!("decimals {decimals}"), rp());
                return;
            }
            let k = 18 - decimals;
            let div = BigInt::from(10u8).pow(k);
            let (gp, gmin, gmax) = (BigInt::from(*p.price()), BigInt::from(*p.min_price()), BigInt::from(*p.max_price()));
            if gp != &c.price / &div || gmin != &eb / &div || gmax != &ea / &div {
                sink.fail("C28/convert/not_same_power_of_ten", format!("decimals {decimals}: got ({gmin},{gp},{gmax}) from ({eb},{},{ea})", c.price), rp());
            }
            if !(gmin <= gp && gp <= gmax) {
                sink.fail("C28/convert/order_not_preserved", format!("got ({gmin},{gp},{gmax})"), rp());
            }
            // no more digits dropped than needed (+1 for the conservative bound table)
            let kmin = (0..=40u32).find(|k| &ea / BigInt::from(10u8).pow(*k) <= BigInt::from(u128::MAX)).unwrap();
            if k > kmin + 1 {
                sink.fail("C28/convert/excess_truncation", format!("dropped {k} digits, {kmin} suffice"), rp());
            }
            if p.ts() != c.obs_ts as i64 {
                sink.fail("C28/convert/wrong_timestamp", format!("ts {} expected {}", p.ts(), c.obs_ts), rp());
            }
            let want_feed_status = match want_status {
                None => FeedStatus::Disabled,
                Some(ExtendedMarketStatus::Unknown) => FeedStatus::Unknown,
                Some(ExtendedMarketStatus::PreMarket) => FeedStatus::PreMarket,
                Some(ExtendedMarketStatus::RegularHours) => FeedStatus::RegularHours,
                Some(ExtendedMarketStatus::PostMarket) => FeedStatus::PostMarket,
                Some(ExtendedMarketStatus::Overnight) => FeedStatus::Overnight,
                Some(ExtendedMarketStatus::Closed) => FeedStatus::Closed,
            };
            if p.market_status() != want_feed_status {
                sink.fail("C28/convert/wrong_status", format!("stored status {:?} expected {want_feed_status:?}", p.market_status()), rp());
            }
            // last update difference: ceil((obs - last)/1e9) seconds, saturated
            let want_diff = want_lu.map(|lu| {
                let obs_ns = c.obs_ts as u128 * 1_000_000_000;
                let d = obs_ns.saturating_sub(lu as u128);
                ((d + 999_999_999) / 1_000_000_000).min(u32::MAX as u128) as u32
            });
            if p.last_update_diff_secs() != want_diff {
                sink.fail("C28/convert/wrong_last_update_diff", format!("diff {:?} expected {want_diff:?}", p.last_update_diff_secs()), rp());
            }
        }
    }
}

fn explore(cli: &Cli, rep: &mut Rep) {
    let th = cli.tier.thorough();
    // ---------- decode_full_report: 96 context bytes + offset word + tail
    let tail_lens: Vec<usize> = if th { (0..=130).collect() } else { (0..=72).step_by(1).collect() };
    e1::run(rep, "decode_full_report: crafted offsets/lengths", &tail_lens, |&tl, sink| {
        let total = 128 + tl;
        let mut lows: Vec<u64> = vec![0, 1, 31, 32, 96, 127, 128, 129, 159, 160, 161, 1 << 31, 1 << 32, 1 << 63, u64::MAX - 31, u64::MAX - 32, u64::MAX - 1, u64::MAX];
        for d in 0..=66i64 {
            let v = total as i64 - 34 + d - 32;
            if v >= 0 {
                lows.push(v as u64);
            }
        }
        lows.sort();
        lows.dedup();
        for &off_low in &lows {
            for off_high in [None, Some(0usize), Some(15), Some(23)] {
                // the length word lives in the tail at offset-128 if it fits; enumerate its value
                let mut len_lows: Vec<u64> = vec![0, 1, 2, 31, 32, 33, u64::MAX, u64::MAX - 31, 1 << 63, 1 << 32];
                for d in 0..=3i64 {
                    let v = total as i128 - off_low as i128 - 32 - 1 + d as i128;
                    if v >= 0 {
                        len_lows.push(v as u64);
                    }
                }
                len_lows.sort();
                len_lows.dedup();
                for &len_low in &len_lows {
                    for len_high in [None, Some(0usize), Some(23)] {
                        let mut tail: Vec<u8> = (0..tl).map(|i| (i as u8).wrapping_mul(7).wrapping_add(1)).collect();
                        if off_low >= 128 && (off_low as usize) < total && off_low as usize + 32 <= total {
                            let s = off_low as usize - 128;
                            tail[s..s + 32].copy_from_slice(&word(len_low, len_high));
                        } else if len_low != 0 || len_high.is_some() {
                            continue; // length word not placeable: one representative is enough
                        }
                        let p = payload(0xc3, word(off_low, off_high), &tail);
                        check_full(&p, sink);
                    }
                }
            }
        }
    });
    // short payloads and every truncation of a valid one
    let lens: Vec<usize> = (0..=200).collect();
    e1::run(rep, "decode_full_report: truncations", &lens, |&n, sink| {
        let mut tail = word(40, None).to_vec();
        tail.extend((0..40u8).map(|i| i ^ 0x5a));
        let full = payload(0x11, word(128, None), &tail);
        let mut p = full.clone();
        p.resize(n, 0xee);
        check_full(&p, sink);
        check_full(&vec![0u8; n], sink);
        check_full(&vec![0xffu8; n], sink);
    });

    // ---------- decode: every schema id x lengths x fills
    let versions: Vec<u16> = (0..=u16::MAX).collect();
    let sizes: Vec<usize> = {
        let mut v = vec![0usize, 1, 31, 32, 33, 64];
        for w in [7usize, 9, 14, 15] {
            v.extend([w * 32 - 1, w * 32, w * 32 + 1]);
        }
        v
    };
    e1::run(rep, "decode: all 65536 schema ids x lengths x fills", &versions, |&ver, sink| {
        let supported = matches!(ver, 2 | 3 | 7 | 8 | 11);
        let fills: &[u8] = if supported || th { &[0x00, 0xff, 0x01, 0x80, 0x7f] } else { &[0x00, 0xff] };
        for &n in &sizes {
            for &fill in fills {
                for variant in 0..2 {
                    let mut d = vec![fill; n];
                    if variant == 1 {
                        // plausible small words: only the last byte of every word is set
                        for (i, b) in d.iter_mut().enumerate() {
                            *b = if i % 32 == 31 { fill & 3 } else { 0 };
                        }
                    }
                    if n >= 2 {
                        d[..2].copy_from_slice(&ver.to_be_bytes());
                    }
                    let r = mc_core::catch(|| decode(&d).map(|r| format!("{r:?}")).map_err(|e| format!("{e:?}")));
                    let rp = || json!({"fn": "decode", "data": hex(&d)});
                    match r {
                        Err(p) => {
                            sink.case(false);
                            sink.fail("C28/decode/panic", format!("decode panicked on version {ver}, {n} bytes: {p}"), rp());
                        }
                        Ok(Ok(_)) => {
                            sink.case(true);
                            sink.count("decode_ok");
                            let min = match ver { 2 | 7 => 7 * 32, 3 | 8 => 9 * 32, _ => 14 * 32 };
                            if !supported || n < min {
                                sink.fail("C28/decode/accepted_malformed", format!("decode accepted version {ver} with {n} bytes"), rp());
                            }
                        }
                        Ok(Err(_)) => sink.case(false),
                    }
                }
            }
        }
    });

    // ---------- decode + conversion over boundary field values
    let vals = values();
    let idx: Vec<usize> = (0..vals.len()).collect();
    e1::run(rep, "decode + from_chainlink_report: bid/price/ask triples", &idx, |&i, sink| {
        for version in [3u16, 11] {
            for b in &vals {
                for a in &vals {
                    for (obs_ts, lu) in [(1_000u32, 999_500_000_000u64), (1_000, 1_000_000_000_000), (1_000, 1_000_999_999_999), (1_000, 1_001_000_000_000), (u32::MAX, 0), (u32::MAX, u64::MAX), (0, 0), (5, 1)] {
                        let c = Conv { version, price: vals[i].clone(), bid: b.clone(), ask: a.clone(), obs_ts, last_update_ns: lu, status: 2 };
                        check_conv(&c, sink);
                        if version == 3 {
                            break; // no last-update field
                        }
                    }
                }
            }
        }
        for version in [2u16, 7, 8] {
            for status in 0..=7u32 {
                for (obs_ts, lu) in [(1_000u32, 999_500_000_000u64), (1_000, 1_000_999_999_999), (1_000, 1_001_000_000_000), (u32::MAX, 0), (0, u64::MAX)] {
                    let c = Conv { version, price: vals[i].clone(), bid: BigInt::zero(), ask: BigInt::zero(), obs_ts, last_update_ns: lu, status };
                    check_conv(&c, sink);
                }
                if version != 8 {
                    break;
                }
            }
        }
        for status in 0..=7u32 {
            let c = Conv { version: 11, price: vals[i].clone(), bid: vals[i].clone(), ask: vals[i].clone(), obs_ts: 77, last_update_ns: 76_000_000_001, status };
            check_conv(&c, sink);
        }
    });

    // ---------- compressed full reports
    let firsts: Vec<u16> = (0..=256).collect();
    e1::run(rep, "decode_compressed_full_report: every byte string of length <= 2", &firsts, |&f, sink| {
        let mut inputs: Vec<Vec<u8>> = vec![];
        if f == 256 {
            inputs.push(vec![]);
        } else {
            inputs.push(vec![f as u8]);
            for s in 0..=255u8 {
                inputs.push(vec![f as u8, s]);
            }
        }
        for inp in inputs {
            let r = mc_core::catch(|| decode_compressed_full_report(&inp).is_ok());
            sink.case(matches!(r, Ok(true)));
            match r {
                Err(p) => sink.fail("C28/decode_compressed/panic", format!("panicked on {inp:?}: {p}"), json!({"fn": "compressed", "data": hex(&inp)})),
                Ok(true) => sink.fail("C28/decode_compressed/accepted_garbage", format!("accepted {inp:?}"), json!({"fn": "compressed", "data": hex(&inp)})),
                Ok(false) => {}
            }
        }
    });
    let variants: Vec<usize> = (0..4).collect();
    e1::run(rep, "decode_compressed_full_report: agreement with the uncompressed path, truncations, byte flips", &variants, |&v, sink| {
        let c = Conv { version: [3u16, 11, 8, 2][v], price: BigInt::from(10u8).pow(18) * 7u8, bid: BigInt::from(10u8).pow(18) * 6u8, ask: BigInt::from(10u8).pow(18) * 8u8, obs_ts: 1_000, last_update_ns: 999_000_000_000, status: 2 };
        let blob = encode(&c).expect("encodable");
        let mut tail = word(blob.len() as u64, None).to_vec();
        tail.extend_from_slice(&blob);
        let full = payload(0x22, word(128, None), &tail);
        let comp = Compressor::compress(&full).expect("compress");
        let direct = decode_full_report(&full).ok().and_then(|(_, b)| decode(b).ok()).map(|r: Report| format!("{r:?}"));
        let via = mc_core::catch(|| decode_compressed_full_report(&comp).ok().map(|r| format!("{r:?}")));
        sink.case(true);
        if via.as_ref().ok() != Some(&direct) || direct.is_none() {
            sink.fail("C28/decode_compressed/differs_from_uncompressed", format!("compressed path {via:?} vs direct {direct:?}"), json!({"fn": "compressed", "data": hex(&comp)}));
        }
        for n in 0..comp.len() {
            let t = &comp[..n];
            let r = mc_core::catch(|| decode_compressed_full_report(t).is_ok());
            sink.case(false);
            if let Err(p) = r {
                sink.fail("C28/decode_compressed/panic", format!("panicked on a {n}-byte truncation: {p}"), json!({"fn": "compressed", "data": hex(t)}));
            }
            for bit in [0x01u8, 0x80, 0xff] {
                let mut m = comp.clone();
                m[n] ^= bit;
                let r = mc_core::catch(|| decode_compressed_full_report(&m).is_ok());
                sink.case(matches!(r, Ok(true)));
                if let Err(p) = r {
                    sink.fail("C28/decode_compressed/panic", format!("panicked after flipping byte {n}: {p}"), json!({"fn": "compressed", "data": hex(&m)}));
                }
            }
        }
    });
}

fn replay_case(rv: &serde_json::Value, sink: &mut e1::Sink) {
    match rv["fn"].as_str().unwrap_or("") {
        "decode_full_report" => check_full(&unhex(rv["payload"].as_str().unwrap_or("")), sink),
        "convert" => {
            let b = |k: &str| rv[k].as_str().and_then(|s| s.parse::<BigInt>().ok()).unwrap_or_default();
            let c = Conv {
                version: rv["version"].as_u64().unwrap_or(3) as u16,
                price: b("price"),
                bid: b("bid"),
                ask: b("ask"),
                obs_ts: rv["obs_ts"].as_u64().unwrap_or(0) as u32,
                last_update_ns: rv["last_update_ns"].as_str().and_then(|s| s.parse().ok()).unwrap_or(0),
                status: rv["status"].as_u64().unwrap_or(0) as u32,
            };
            check_conv(&c, sink);
        }
        "decode" => {
            let d = unhex(rv["data"].as_str().unwrap_or(""));
            sink.case(false);
            if let Err(p) = mc_core::catch(|| decode(&d).is_ok()) {
                sink.fail("C28/decode/panic", format!("decode panicked: {p}"), rv.clone());
            }
        }
        _ => {
            let d = unhex(rv["data"].as_str().unwrap_or(""));
            sink.case(false);
            if let Err(p) = mc_core::catch(|| decode_compressed_full_report(&d).is_ok()) {
                sink.fail("C28/decode_compressed/panic", format!("panicked: {p}"), rv.clone());
            }
        }
    }
}

pub fn run(cli: &Cli) -> Rep {
    let mut rep = Rep::new(cli, "exploration");
    rep.rule("a case is non-trivial when the decoder/converter accepted the input (the accepted value is then compared with the ABI-described slice / the exactly scaled fields); rejected inputs are checked for panics and against the completeness guards");
    if let Some(rv) = &cli.replay {
        for _ in 0..2 {
            e1::run(&mut rep, "replay", &[0u8], |_, sink| replay_case(rv, sink));
        }
        let n: Vec<u64> = rep.per_key.values().copied().collect();
        if n.iter().any(|c| c % 2 != 0) {
            rep.machinery("replay is not deterministic");
        }
        for v in rep.per_key.values_mut() {
            *v /= 2;
        }
        return rep;
    }
    explore(cli, &mut rep);
    rep.assume("ABI semantics: the fourth head word is a 256-bit byte offset to a 256-bit length word followed by the data; a payload whose words exceed 64 bits describes no slice");
    rep.assume("field-level ABI decoding of the report schemas is the external chainlink-data-streams-report crate's; it is exercised for panics only");
    rep
}
