//! C26 — price decimal conversion never rounds up and never silently truncates (E1).
use gmsol_utils::oracle::{pyth_price_value_to_decimal, pyth_price_with_confidence_to_price};
use gmsol_utils::price::{convert_to_u128_storage, find_divisor_decimals, Decimal, PriceFeedPrice, U192};
use gmsol_utils::token_config::TokenConfig;
use mc_core::{big::*, e1, json, Cli, Report};

fn pow10(k: u32) -> BigUint {
    bu(10).pow(k)
}

/// exact unit price (20 decimals per smallest token unit) as a rational num/den
fn exact_unit(price: u128, decimals: u8, token_decimals: u8) -> (BigUint, BigUint) {
    let e = 20i32 - decimals as i32 - token_decimals as i32;
    if e >= 0 {
        (bu(price) * pow10(e as u32), bu(1))
    } else {
        (bu(price), pow10((-e) as u32))
    }
}

fn prices(cli: &Cli) -> Vec<u128> {
    let mut v: Vec<u128> = vec![0, 1, 2, 9, 10, 11, 4_294_967_295, 4_294_967_296, 4_294_967_297, u64::MAX as u128, u64::MAX as u128 + 1, u128::MAX, u128::MAX - 1, u128::MAX / 2];
    for k in 0..=38u32 {
        let p = 10u128.pow(k);
        v.extend([p.saturating_sub(1), p, p + 1, (p / 2).saturating_mul(5), p / 3 + 1, p.saturating_mul(3), p / 7 * 9]);
        // values around the u32 limit at every scale
        v.extend([(u32::MAX as u128).saturating_mul(p), (u32::MAX as u128).saturating_mul(p).saturating_add(p - 1), (u32::MAX as u128 + 1).saturating_mul(p), (u32::MAX as u128 + 1).saturating_mul(p).saturating_sub(1)]);
    }
    v.extend(cli.extras(26, 24, 0, u128::MAX));
    v.extend(cli.extras(27, 24, 0, 1u128 << 64));
    if cli.tier.thorough() {
        v.extend(0..=1200u128);
        v.extend(cli.extras(28, 400, 0, u128::MAX));
        v.extend(cli.extras(29, 400, 0, 1u128 << 40));
    } else {
        v.extend(0..=60u128);
    }
    v.sort();
    v.dedup();
    v
}

fn token_config(token_decimals: u8, precision: u8) -> TokenConfig {
    let mut c: TokenConfig = bytemuck::Zeroable::zeroed();
    c.token_decimals = token_decimals;
    c.precision = precision;
    c
}

pub struct Alph {
    ps: Vec<u128>,
    decs: Vec<u8>,
    his: Option<Vec<u64>>,
    lows: Option<Vec<u128>>,
}

pub fn run(cli: &Cli) -> Report {
    let mut rep = Report::new(cli, "exploration");
    rep.rule("a case is non-trivial when the conversion returned a value (Ok/Some) that was then compared with the exact big-integer result");
    if let Some(rv) = &cli.replay {
        // a replay re-runs the same enumeration restricted to the values of the recorded case, twice
        let g = |k: &str| rv[k].as_str().map(|s| s.parse::<u128>().unwrap_or(0)).or_else(|| rv[k].as_u64().map(|v| v as u128));
        let mut decs: Vec<u8> = ["decimals", "token_decimals", "precision", "td", "mult"].iter().filter_map(|k| g(k).map(|v| v as u8)).collect();
        decs.sort();
        decs.dedup();
        let a = Alph { ps: ["price", "value"].iter().filter_map(|k| g(k)).collect(), decs, his: Some(g("hi").map(|v| vec![v as u64]).unwrap_or_default()), lows: Some(g("low").map(|v| vec![v]).unwrap_or_default()) };
        explore(cli, &mut rep, &a);
        let mut second = Report::new(cli, "exploration");
        explore(cli, &mut second, &a);
        if second.per_key != rep.per_key {
            rep.machinery("replay is not deterministic: two runs disagree");
        }
        return rep;
    }
    let a = Alph { ps: prices(cli), decs: (0u8..=22).chain([30, 127, 128, 255]).collect(), his: None, lows: None };
    explore(cli, &mut rep, &a);
    rep.assume("the exact price of one smallest token unit with 20 decimals is price*10^(20-decimals-token_decimals); the compact decimal stores floor(exact/10^(20-token_decimals-precision)) in a u32");
    rep
}

fn explore(cli: &Cli, rep: &mut Report, a: &Alph) {
    let ps = a.ps.clone();
    let decs = a.decs.clone();
    let rep = &mut *rep;

    // --- Decimal::try_from_price / to_unit_price / with_unit_price / maximum
    e1::run(rep, "try_from_price", &decs, |&decimals, sink| {
        for &token_decimals in &decs {
            for &precision in &decs {
                let valid = decimals <= 20 && token_decimals <= 20 && precision <= 20 && (token_decimals as u32 + precision as u32) <= 20;
                for &price in &ps {
                    let rp = || json!({"fn": "try_from_price", "price": price.to_string(), "decimals": decimals, "token_decimals": token_decimals, "precision": precision});
                    let r = mc_core::catch(|| Decimal::try_from_price(price, decimals, token_decimals, precision));
                    let r = match r {
                        Ok(r) => r,
                        Err(p) => {
                            sink.case(false);
                            // a panic is neither an error nor a price; for unsupported decimal settings the statement demands an error
                            sink.fail("C26/try_from_price/panic", format!("try_from_price({price},{decimals},{token_decimals},{precision}) panicked: {p}"), rp());
                            continue;
                        }
                    };
                    sink.case(r.is_ok());
                    match r {
                        Ok(d) => {
                            if !valid {
                                sink.fail("C26/try_from_price/accepted_unsupported_decimals", format!("try_from_price({price},{decimals},{token_decimals},{precision}) = {d:?}"), rp());
                                continue;
                            }
                            let (num, den) = exact_unit(price, decimals, token_decimals);
                            let mult = 20 - token_decimals as u32 - precision as u32;
                            if d.decimal_multiplier as u32 != mult {
                                sink.fail("C26/try_from_price/wrong_multiplier", format!("try_from_price({price},{decimals},{token_decimals},{precision}) multiplier {} expected {mult}", d.decimal_multiplier), rp());
                            }
                            let step = pow10(mult);
                            let want = &num / (&den * &step);
                            let unit = bu(d.to_unit_price());
                            if bu(d.value as u128) != want {
                                let key = if &unit * &den > num { "C26/try_from_price/rounded_up" } else { "C26/try_from_price/wrong_value" };
                                sink.fail(key, format!("try_from_price({price},{decimals},{token_decimals},{precision}) value {} exact floor {want}", d.value), rp());
                            }
                            // never above the exact price, off by less than one step
                            if &unit * &den > num || (&unit + &step) * &den <= num {
                                sink.fail("C26/try_from_price/not_truncation", format!("try_from_price({price},{decimals},{token_decimals},{precision}) unit {unit} exact {num}/{den} step {step}"), rp());
                            }
                            if unit != bu(d.value as u128) * &step {
                                sink.fail("C26/to_unit_price/wrong", format!("{d:?}.to_unit_price() = {unit}"), rp());
                            }
                            // with_unit_price round trip: floor keeps the value, ceil of unit+1 is value+1
                            match d.with_unit_price(d.to_unit_price(), false) {
                                Some(e) if e == d => {}
                                other => sink.fail("C26/with_unit_price/round_trip", format!("{d:?}.with_unit_price(unit,false) = {other:?}"), rp()),
                            }
                            let m = d.maximum();
                            if m.value != u32::MAX || m.decimal_multiplier != d.decimal_multiplier {
                                sink.fail("C26/maximum/wrong", format!("{d:?}.maximum() = {m:?}"), rp());
                            }
                        }
                        Err(_) => {
                            if valid {
                                let (num, den) = exact_unit(price, decimals, token_decimals);
                                let step = pow10(20 - token_decimals as u32 - precision as u32);
                                let want = &num / (&den * &step);
                                if want <= bu(u32::MAX as u128) {
                                    sink.fail("C26/try_from_price/representable_rejected", format!("try_from_price({price},{decimals},{token_decimals},{precision}) failed although the exact truncated value {want} fits"), rp());
                                }
                            }
                        }
                    }
                }
            }
        }
    });

    // --- with_unit_price over (multiplier, price, round_up)
    let mults: Vec<u8> = if a.his.is_some() { decs.iter().copied().filter(|m| *m <= 20).collect() } else { (0u8..=20).collect() };
    e1::run(rep, "with_unit_price", &mults, |&mult, sink| {
        let d0 = Decimal { value: 0, decimal_multiplier: mult };
        let step = 10u128.pow(mult as u32);
        for &price in &ps {
            for round_up in [false, true] {
                let r = d0.with_unit_price(price, round_up);
                sink.case(r.is_some());
                let q = price / step;
                let want = if round_up && price % step != 0 { q + 1 } else { q };
                let rp = || json!({"fn": "with_unit_price", "mult": mult, "price": price.to_string(), "round_up": round_up});
                match r {
                    Some(d) => {
                        if d.value as u128 != want || d.decimal_multiplier != mult {
                            sink.fail("C26/with_unit_price/wrong_value", format!("with_unit_price({price},{round_up}) mult {mult} = {d:?}, exact {want}"), rp());
                        }
                    }
                    None => {
                        if want <= u32::MAX as u128 {
                            sink.fail("C26/with_unit_price/representable_rejected", format!("with_unit_price({price},{round_up}) mult {mult} = None, exact {want}"), rp());
                        }
                    }
                }
            }
        }
    });

    // --- find_divisor_decimals / convert_to_u128_storage on U192
    let his: Vec<u64> = if let Some(h) = &a.his { h.clone() } else {
        let mut v: Vec<u64> = vec![0, 1, 2, 9, 10, 99, 100, u32::MAX as u64, u64::MAX / 2, u64::MAX - 1, u64::MAX];
        for k in 1..=19u32 {
            let p = 10u64.pow(k);
            v.extend([p - 1, p, p + 1]);
        }
        v.extend(cli.extras(30, 6, 0, u64::MAX as u128).into_iter().map(|x| x as u64));
        v.sort();
        v.dedup();
        v
    };
    let lows: Vec<u128> = if let Some(l) = &a.lows { l.clone() } else {
        let mut v = vec![0u128, 1, 9, 10, 11, u64::MAX as u128, u128::MAX / 2, u128::MAX - 11, u128::MAX - 10, u128::MAX - 9, u128::MAX - 1, u128::MAX];
        for k in 1..=19u32 {
            // low words of u128::MAX * 10^k and neighbours
            let b = bu(u128::MAX) * pow10(k);
            let low = (&b % (BigUint::one() << 128u32)).to_u128().unwrap();
            v.extend([low.wrapping_sub(1), low, low.wrapping_add(1)]);
        }
        v.extend(cli.extras(31, 6, 0, u128::MAX));
        v.sort();
        v.dedup();
        v
    };
    e1::run(rep, "convert_to_u128_storage", &his, |&hi, sink| {
        for &low in &lows {
            let num = U192::from_limbs([low as u64, (low >> 64) as u64, hi]);
            let big = (bu(hi as u128) << 128u32) + bu(low);
            let k = find_divisor_decimals(&num) as u32;
            let kmin = (0..=21u32).find(|k| &big / pow10(*k) <= bu(u128::MAX)).unwrap();
            sink.case(true);
            let rp = || json!({"fn": "convert_to_u128_storage", "hi": hi, "low": low.to_string()});
            if k < kmin || k > kmin + 1 || k > 20 {
                sink.fail("C26/find_divisor_decimals/wrong", format!("find_divisor_decimals(hi {hi}, low {low}) = {k}, minimum {kmin}"), rp());
            }
            for decimals in 0u8..=22 {
                let r = mc_core::catch(|| convert_to_u128_storage(num, decimals));
                let r = match r {
                    Ok(r) => r,
                    Err(p) => {
                        sink.fail("C26/convert_to_u128_storage/panic", format!("convert_to_u128_storage(hi {hi}, low {low}, {decimals}) panicked: {p}"), rp());
                        continue;
                    }
                };
                sink.case(r.is_some());
                match r {
                    Some((v, d)) => {
                        let dropped = decimals as i64 - d as i64;
                        if dropped < 0 || dropped as u32 != k {
                            sink.fail("C26/convert_to_u128_storage/wrong_decimals", format!("convert(hi {hi}, low {low}, {decimals}) = ({v},{d}) divisor {k}"), rp());
                            continue;
                        }
                        let want = &big / pow10(dropped as u32);
                        if bu(v) != want {
                            sink.fail("C26/convert_to_u128_storage/wrong_value", format!("convert(hi {hi}, low {low}, {decimals}) = ({v},{d}), exact floor {want}"), rp());
                        }
                    }
                    None => {
                        // legitimate only when even dropping all `decimals` digits leaves (nearly) no room
                        if &big / pow10(decimals as u32) < bu(u128::MAX) {
                            sink.fail("C26/convert_to_u128_storage/representable_rejected", format!("convert(hi {hi}, low {low}, {decimals}) = None"), rp());
                        }
                    }
                }
            }
        }
    });

    // --- PriceFeedPrice::try_to_price / try_to_ref_price and the pyth conversions (thin wrappers; must agree with try_from_price)
    let tds: Vec<u8> = if a.his.is_some() { decs.clone() } else { vec![0, 1, 6, 8, 9, 18, 20, 21] };
    let small_prices: Vec<u128> = ps.iter().copied().filter(|p| *p <= u64::MAX as u128).step_by(if cli.tier.thorough() { 1 } else { 3 }).collect();
    e1::run(rep, "feed_and_pyth_wrappers", &tds, |&td, sink| {
        for precision in [0u8, 2, 4, 11, 12, 20] {
            let cfg = token_config(td, precision);
            for decimals in [0u8, 5, 8, 18, 20, 21] {
                for &p in &small_prices {
                    let feed = PriceFeedPrice::new(decimals, 0, p, p, p.saturating_add(1), 0);
                    let a = feed.try_to_ref_price(&cfg).ok();
                    let b = Decimal::try_from_price(p, decimals, td, precision).ok();
                    sink.case(a.is_some());
                    if a != b {
                        sink.fail("C26/try_to_ref_price/differs", format!("try_to_ref_price {a:?} vs try_from_price {b:?}"), json!({"fn": "try_to_ref_price", "price": p.to_string(), "decimals": decimals, "td": td, "precision": precision}));
                    }
                    if let Ok(pr) = feed.try_to_price(&cfg) {
                        if Some(pr.min) != b || pr.max.to_unit_price() < pr.min.to_unit_price() {
                            sink.fail("C26/try_to_price/differs", format!("try_to_price min {:?} max {:?} vs {b:?}", pr.min, pr.max), json!({"fn": "try_to_price", "price": p.to_string(), "decimals": decimals, "td": td, "precision": precision}));
                        }
                    }
                }
            }
            // pyth: value * 10^exponent
            for exponent in [-21i32, -20, -18, -8, -1, 0, 1, 2, 10, 19, 20, 40, i32::MAX, -255, -256, -i32::MAX] {
                for &p in &small_prices {
                    let value = p as u64;
                    let r = mc_core::catch(|| pyth_price_value_to_decimal(value, exponent, &cfg));
                    let rp = || json!({"fn": "pyth_price_value_to_decimal", "value": value, "exponent": exponent, "td": td, "precision": precision});
                    let r = match r {
                        Ok(r) => r,
                        Err(pn) => {
                            sink.fail("C26/pyth/panic", format!("pyth_price_value_to_decimal({value},{exponent}) panicked: {pn}"), rp());
                            continue;
                        }
                    };
                    sink.case(r.is_ok());
                    // exact: value * 10^exponent with 0 decimals, or value with -exponent decimals
                    let want = if exponent <= 0 {
                        if -(exponent as i64) <= 255 { Decimal::try_from_price(value as u128, (-(exponent as i64)) as u8, td, precision).ok() } else { None }
                    } else {
                        let f = pow10(exponent.min(60) as u32) * bu(value as u128);
                        match f.to_u64() {
                            Some(v) if exponent <= 19 || value == 0 => Decimal::try_from_price(v as u128, 0, td, precision).ok(),
                            _ => None,
                        }
                    };
                    match (r.ok(), want) {
                        (Some(d), Some(w)) if d == w => {}
                        (None, _) => {} // errors are always allowed for the wrapper (u64 intermediate)
                        (Some(d), w) => sink.fail("C26/pyth/wrong_value", format!("pyth_price_value_to_decimal({value},{exponent}) = {d:?}, expected {w:?}"), rp()),
                    }
                    // with confidence: min <= max, both as the single conversion
                    if let Ok(Ok(pr)) = mc_core::catch(|| pyth_price_with_confidence_to_price(value.min(i64::MAX as u64) as i64, 1, exponent, &cfg)) {
                        if pr.min.to_unit_price() > pr.max.to_unit_price() {
                            sink.fail("C26/pyth/min_above_max", format!("pyth confidence price min {:?} max {:?}", pr.min, pr.max), rp());
                        }
                    }
                }
            }
        }
    });
}
