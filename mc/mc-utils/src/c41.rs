//! C41 — transaction packing preserves instructions and respects limits (E1 over all short group sequences).
use std::collections::BTreeSet;

use gmsol_solana_utils::{
    address_lookup_table::AddressLookupTables,
    instruction_group::{AtomicGroup, AtomicGroupOptions, ComputeBudgetOptions, GetInstructionsOptions, ParallelGroup, ParallelGroupOptions},
    transaction_group::{TransactionGroup, TransactionGroupOptions},
};
use mc_core::{e1, json, Cli, Report};
use solana_sdk::{
    hash::Hash,
    instruction::{AccountMeta, Instruction},
    pubkey::Pubkey,
};

#[derive(Clone, Debug)]
struct Shape {
    /// number of atomic groups in the parallel group
    parallel: usize,
    mergeable: bool,
    pg_mergeable: bool,
    n_ix: usize,
    payer: usize,
    extra_signer: bool,
    /// the instructions name the extra signer's account as a plain (non-signer) account
    mention_extra: bool,
    data_len: usize,
}

fn key(label: &str) -> Pubkey {
    let h = mc_core::hash128(label);
    let mut b = [0u8; 32];
    b[..16].copy_from_slice(&h.to_le_bytes());
    b[16..].copy_from_slice(&mc_core::hash128(&(label, 1)).to_le_bytes());
    Pubkey::new_from_array(b)
}

fn shapes() -> Vec<Shape> {
    vec![
        Shape { parallel: 1, mergeable: true, pg_mergeable: true, n_ix: 1, payer: 0, extra_signer: false, mention_extra: false, data_len: 8 },
        Shape { parallel: 1, mergeable: true, pg_mergeable: true, n_ix: 2, payer: 0, extra_signer: true, mention_extra: false, data_len: 40 },
        Shape { parallel: 1, mergeable: false, pg_mergeable: true, n_ix: 1, payer: 0, extra_signer: false, mention_extra: false, data_len: 8 },
        Shape { parallel: 1, mergeable: true, pg_mergeable: true, n_ix: 1, payer: 1, extra_signer: false, mention_extra: false, data_len: 8 },
        Shape { parallel: 2, mergeable: true, pg_mergeable: true, n_ix: 1, payer: 0, extra_signer: false, mention_extra: false, data_len: 8 },
        Shape { parallel: 2, mergeable: true, pg_mergeable: false, n_ix: 2, payer: 0, extra_signer: false, mention_extra: false, data_len: 8 },
        Shape { parallel: 1, mergeable: true, pg_mergeable: false, n_ix: 3, payer: 1, extra_signer: true, mention_extra: false, data_len: 200 },
        Shape { parallel: 1, mergeable: true, pg_mergeable: true, n_ix: 1, payer: 0, extra_signer: false, mention_extra: false, data_len: 600 },
        Shape { parallel: 3, mergeable: true, pg_mergeable: true, n_ix: 1, payer: 1, extra_signer: false, mention_extra: false, data_len: 16 },
        // an account first seen as a plain account and later (after a merge) as a signer
        Shape { parallel: 1, mergeable: true, pg_mergeable: true, n_ix: 1, payer: 0, extra_signer: false, mention_extra: true, data_len: 8 },
        Shape { parallel: 1, mergeable: true, pg_mergeable: true, n_ix: 1, payer: 0, extra_signer: true, mention_extra: false, data_len: 700 },
        // instruction data exactly at, just below and just above the one-byte limit of the compact-u16 length prefix
        Shape { parallel: 1, mergeable: true, pg_mergeable: true, n_ix: 1, payer: 0, extra_signer: false, mention_extra: false, data_len: 127 },
        Shape { parallel: 1, mergeable: true, pg_mergeable: true, n_ix: 1, payer: 0, extra_signer: false, mention_extra: false, data_len: 128 },
        Shape { parallel: 1, mergeable: true, pg_mergeable: true, n_ix: 2, payer: 1, extra_signer: false, mention_extra: false, data_len: 129 },
        // empty atomic groups (no instructions), alone in their parallel group, with either payer (a signer named by no instruction cannot be part of a transaction, so empty groups declare none)
        Shape { parallel: 1, mergeable: true, pg_mergeable: true, n_ix: 0, payer: 0, extra_signer: false, mention_extra: false, data_len: 8 },
        Shape { parallel: 1, mergeable: true, pg_mergeable: true, n_ix: 0, payer: 1, extra_signer: false, mention_extra: false, data_len: 8 },
    ]
}

struct Ctx {
    payers: [Pubkey; 2],
    prog: Pubkey,
    extra: Pubkey,
    accts: Vec<Pubkey>,
    luts: AddressLookupTables,
}

fn ctx() -> Ctx {
    let accts: Vec<Pubkey> = (0..6).map(|i| key(&format!("acct{i}"))).collect();
    let luts: AddressLookupTables = [(key("lut"), vec![accts[0], accts[1], accts[2], key("unused")])].into_iter().collect();
    Ctx { payers: [key("payer0"), key("payer1")], prog: key("prog"), extra: key("extra"), accts, luts }
}

fn no_cb() -> GetInstructionsOptions {
    GetInstructionsOptions { compute_budget: ComputeBudgetOptions { without_compute_budget: true, ..Default::default() }, ..Default::default() }
}

#[allow(clippy::too_many_arguments)]
fn check_seq(c: &Ctx, shapes: &[Shape], seq: &[usize], max_ix: usize, max_size: usize, allow_payer_change: bool, with_lut: bool, sink: &mut e1::Sink) {
    let rp = || json!({"seq": seq, "max_ix": max_ix, "max_size": max_size, "allow_payer_change": allow_payer_change, "with_lut": with_lut});
    let luts = if with_lut { c.luts.clone() } else { Default::default() };
    let mut tg = TransactionGroup::with_options_and_luts(TransactionGroupOptions { max_transaction_size: max_size, max_instructions_per_tx: max_ix, ..Default::default() }, luts.clone());
    let mut label = 0u8;
    // expected flat order: (atomic group id, label); per atomic group: (mergeable, payer, parallel group id); per parallel group: (mergeable, size)
    let mut expected: Vec<(usize, u8)> = vec![];
    let mut ag_meta: Vec<(bool, usize, usize)> = vec![];
    let mut pg_meta: Vec<(bool, usize)> = vec![];
    let mut empty_payers: BTreeSet<usize> = BTreeSet::new();
    for s in seq {
        let sh = &shapes[*s];
        let pgid = pg_meta.len();
        pg_meta.push((sh.pg_mergeable, sh.parallel));
        let mut ags = vec![];
        for _ in 0..sh.parallel {
            let gid = ag_meta.len();
            let mut ixs = vec![];
            for k in 0..sh.n_ix {
                label += 1;
                let mut data = vec![label];
                data.resize(sh.data_len, 0);
                let mut metas = vec![AccountMeta::new(c.payers[sh.payer], true), AccountMeta::new(c.accts[k % 6], false), AccountMeta::new_readonly(c.accts[(k + 1) % 6], false)];
                if sh.extra_signer {
                    metas.push(AccountMeta::new_readonly(c.extra, true));
                }
                if sh.mention_extra {
                    metas.push(AccountMeta::new_readonly(c.extra, false));
                }
                ixs.push(Instruction { program_id: c.prog, accounts: metas, data });
                expected.push((gid, label));
            }
            let mut ag = AtomicGroup::with_instructions_and_options(&c.payers[sh.payer], ixs, AtomicGroupOptions { is_mergeable: sh.mergeable });
            if sh.extra_signer {
                ag.add_signer(&c.extra);
            }
            ag_meta.push((sh.mergeable, sh.payer, pgid));
            if sh.n_ix == 0 {
                empty_payers.insert(sh.payer);
            }
            ags.push(ag);
        }
        let pg = ParallelGroup::with_options(ags, ParallelGroupOptions { is_mergeable: sh.pg_mergeable });
        match mc_core::catch(|| tg.add(pg).is_ok()) {
            Ok(true) => {}
            Ok(false) => {
                sink.case(false);
                sink.count("add_rejected");
                return;
            }
            Err(p) => {
                sink.case(false);
                sink.fail("C41/panic", format!("add panicked: {p}"), rp());
                return;
            }
        }
    }
    if let Err(p) = mc_core::catch(|| {
        tg.optimize(allow_payer_change);
    }) {
        sink.case(false);
        sink.fail("C41/panic", format!("optimize panicked: {p}"), rp());
        return;
    }
    sink.case(true);
    let mut got: Vec<(usize, u8)> = vec![]; // (transaction index, label)
    let mut txi = 0usize;
    for pg in tg.groups() {
        for ag in pg.iter() {
            let ixs: Vec<Instruction> = ag.instructions_with_options(no_cb()).map(|c| c.into_owned()).collect();
            if ixs.len() > max_ix {
                sink.fail("C41/too_many_instructions", format!("{} instructions in one transaction, limit {max_ix}", ixs.len()), rp());
            }
            let est = ag.transaction_size(true, Some(&luts), Default::default());
            if est > max_size {
                sink.fail("C41/estimated_size_exceeds_limit", format!("estimated size {est} > {max_size}"), rp());
            }
            match mc_core::catch(|| ag.partially_signed_transaction_with_blockhash_and_options(Hash::default(), Default::default(), Some(&luts), |_| Ok(()))) {
                Ok(Ok(tx)) => {
                    let real = bincode::serialize(&tx).map(|b| b.len()).unwrap_or(usize::MAX);
                    if est < real {
                        sink.fail("C41/size_estimate_below_real_size", format!("estimate {est} < serialized {real}"), rp());
                    }
                    if real > max_size {
                        sink.fail("C41/real_size_exceeds_limit", format!("serialized {real} > {max_size}"), rp());
                    }
                }
                // merging keeps the signer set of both groups: the payer of a merged-in empty group is then a required signer that no
                // instruction names and the transaction cannot be signed (observed on the unchanged code; no clause of the property)
                Ok(Err(_)) if !empty_payers.is_empty() => sink.count("obs:transaction_with_a_merged_empty_group_cannot_be_built"),
                Ok(Err(e)) => sink.fail("C41/cannot_build_transaction", format!("{e}"), rp()),
                Err(p) => sink.fail("C41/panic", format!("building the transaction panicked: {p}"), rp()),
            }
            let labels: Vec<u8> = ixs.iter().map(|i| i.data[0]).collect();
            for l in &labels {
                got.push((txi, *l));
            }
            let gids: BTreeSet<usize> = labels.iter().filter_map(|l| expected.iter().find(|(_, x)| x == l).map(|e| e.0)).collect();
            if gids.len() > 1 {
                for g in &gids {
                    if !ag_meta[*g].0 {
                        sink.fail("C41/non_mergeable_atomic_group_merged", format!("atomic group {g} is not mergeable but shares a transaction with {gids:?}"), rp());
                    }
                }
                let pgs: BTreeSet<usize> = gids.iter().map(|g| ag_meta[*g].2).collect();
                if pgs.len() > 1 {
                    for p in &pgs {
                        if !pg_meta[*p].0 {
                            sink.fail("C41/non_mergeable_parallel_group_merged", format!("parallel group {p} is not mergeable but was merged with {pgs:?}"), rp());
                        }
                    }
                }
                let ps: BTreeSet<usize> = gids.iter().map(|g| ag_meta[*g].1).collect();
                if ps.len() > 1 && !allow_payer_change {
                    sink.fail("C41/payer_changed_without_permission", format!("groups with payers {ps:?} merged"), rp());
                }
                // an empty group that was merged in leaves no instruction behind, but its payer is one of the original payers
                if !ps.iter().any(|p| c.payers[*p] == *ag.payer()) && !(allow_payer_change && empty_payers.iter().any(|p| c.payers[*p] == *ag.payer())) {
                    sink.fail("C41/foreign_payer", "merged transaction is paid by none of the original payers".into(), rp());
                }
            } else if let Some(g) = gids.iter().next() {
                if *ag.payer() != c.payers[ag_meta[*g].1] && !(allow_payer_change && empty_payers.iter().any(|p| c.payers[*p] == *ag.payer())) {
                    sink.fail("C41/payer_changed_without_permission", "payer of an unmerged group changed".into(), rp());
                }
            }
            txi += 1;
        }
    }
    let got_labels: Vec<u8> = got.iter().map(|g| g.1).collect();
    let exp_labels: Vec<u8> = expected.iter().map(|e| e.1).collect();
    if got_labels != exp_labels {
        let key = if got_labels.len() < exp_labels.len() { "C41/instruction_dropped" } else if got_labels.len() > exp_labels.len() { "C41/instruction_duplicated" } else { "C41/instructions_reordered" };
        sink.fail(key, format!("instructions {exp_labels:?} became {got_labels:?}"), rp());
    }
    for g in 0..ag_meta.len() {
        let txs: BTreeSet<usize> = expected.iter().filter(|(gid, _)| *gid == g).filter_map(|(_, l)| got.iter().find(|(_, x)| x == l).map(|(t, _)| *t)).collect();
        if txs.len() > 1 {
            sink.fail("C41/atomic_group_split", format!("atomic group {g} spread over transactions {txs:?}"), rp());
        }
    }
}

pub fn run(cli: &Cli) -> Report {
    let mut rep = Report::new(cli, "exploration");
    rep.rule("E1: every sequence of up to 3 (thorough: 4) parallel groups drawn from 16 shapes (1-3 atomic groups, mergeable or not at both levels, 0-3 labelled instructions (two shapes are empty groups), two payers, extra signer, plain-then-signer mentions, small/large data and data of 127, 128 and 129 bytes around the compact-u16 prefix limit) x instruction limit {1,2,3,14} x size limit {400,1232} x payer-change flag x lookup table present/absent; after add+optimize the flattened labels, group membership, merge permissions, payer rule, both limits and estimate >= bincode size of the built transaction are checked; non-trivial = the sequence was accepted by add");
    rep.assume("instructions name their payer as a signer, as the SDK builders do");
    let c = ctx();
    let sh = shapes();
    if let Some(rv) = &cli.replay {
        let seq: Vec<usize> = rv["seq"].as_array().map(|a| a.iter().map(|v| v.as_u64().unwrap_or(0) as usize).collect()).unwrap_or_default();
        for _ in 0..2 {
            e1::run(&mut rep, "replay", &[0u8], |_, sink| {
                check_seq(&c, &sh, &seq, rv["max_ix"].as_u64().unwrap_or(14) as usize, rv["max_size"].as_u64().unwrap_or(1232) as usize, rv["allow_payer_change"].as_bool().unwrap_or(false), rv["with_lut"].as_bool().unwrap_or(false), sink)
            });
        }
        if rep.per_key.values().any(|c| c % 2 != 0) {
            rep.machinery("replay is not deterministic");
        }
        for v in rep.per_key.values_mut() {
            *v /= 2;
        }
        return rep;
    }
    let max_len = if cli.tier.thorough() { 4 } else { 3 };
    let firsts: Vec<usize> = (0..sh.len()).collect();
    e1::run(&mut rep, "add + optimize over group sequences", &firsts, |&first, sink| {
        let mut seqs: Vec<Vec<usize>> = vec![vec![first]];
        let mut frontier = vec![vec![first]];
        for _ in 1..max_len {
            let mut next = vec![];
            for s in &frontier {
                for k in 0..sh.len() {
                    let mut t = s.clone();
                    t.push(k);
                    next.push(t);
                }
            }
            seqs.extend(next.iter().cloned());
            frontier = next;
        }
        for seq in &seqs {
            for max_ix in [1usize, 2, 3, 14] {
                for max_size in [400usize, 1232] {
                    for allow in [false, true] {
                        for with_lut in [false, true] {
                            check_seq(&c, &sh, seq, max_ix, max_size, allow, with_lut, sink);
                        }
                    }
                }
            }
        }
    });
    rep
}
