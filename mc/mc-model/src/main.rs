//! Checker binary for the properties anchored in `crates/model` (C01–C14, model part of C45).
mod c01;
mod c02;
mod c03;
mod c11;
mod c12;
mod c14;
mod cfgs;
mod ph;
mod vmarket;

use mc_core::{Cli, Report};

fn main() {
    let cli = Cli::parse();
    mc_core::quiet_panics();
    let rep: Report = match cli.property.as_str() {
        "SELFTEST" => {
            match mc_core::selftest::run() {
                Ok(()) => {
                    eprintln!("selftest ok");
                    std::process::exit(0)
                }
                Err(e) => {
                    eprintln!("selftest FAILED: {e}");
                    std::process::exit(2)
                }
            }
        }
        "C01" => c01::run(&cli),
        "C02" => c02::run(&cli),
        "C03" => c03::run(&cli),
        "C04" | "C05" | "C06" | "C07" | "C08" | "C09" | "C10" | "C13" => ph::run(&cli),
        "C11" => c11::run(&cli),
        "C12" => c12::run(&cli),
        "C14" => c14::run(&cli),
        other => {
            eprintln!("unknown property {other}");
            std::process::exit(2)
        }
    };
    std::process::exit(rep.finish(&cli));
}
