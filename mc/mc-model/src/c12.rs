//! C12 — funding rate bounds and payer side (E1 part; index monotonicity is checked by the
//! perp-history explorer, see ph.rs).
use gmsol_model::{
    action::update_funding_state::UpdateFundingState,
    params::fee::FundingFeeParams,
    price::{Price, Prices},
};
use mc_core::{e1, e2, json, Cli, Report};

use crate::ph;
use crate::vmarket::*;

const U: u64 = 10_000;

/// (increase, decrease, stable threshold, decrease threshold, min, max, factor, exponent units)
const PARAMS: [(u64, u64, u64, u64, u64, u64, u64, u64); 13] = [
    (1, 0, 500, 0, 1, 10, 2, 1),
    (0, 0, 500, 0, 1, 10, 2, 1),
    (3, 2, 2_000, 1_000, 2, 7, 5, 1),
    (0, 0, 0, 0, 0, 3, 9_000, 1),
    (5, 1, 100, 50, 0, 10, 2, 1),
    (0, 0, 0, 0, 4, 9, 1, 1),
    (2, 5, 9_000, 8_000, 3, 3, 1, 1),
    (1, 1, 0, 0, 0, 0, 7, 1),
    (0, 0, 0, 0, 0, 50, 20_000, 2),
    (7, 0, 300, 0, 2, 40, 3, 2),
    // adaptive funding switched off (no increase factor) with the other adaptive parameters left set
    (0, 3, 500, 100, 1, 10, 2, 1),
    (0, 2, 0, 0, 0, 12, 40, 1),
    (0, 5, 9_000, 8_000, 0, 30, 9_000, 1),
];

fn one(sink: &mut e1::Sink, pi: usize, stored: i64, lo: u64, so: u64, dur: u64) {
    let (inc, dec, th_s, th_d, minf, maxf, ff, ex) = PARAMS[pi];
    let (_, mut c) = ph::config(0, 0);
    c.funding = FundingFeeParams::builder().exponent(ex * U).funding_factor(ff).max_factor_per_second(maxf).min_factor_per_second(minf).increase_factor_per_second(inc).decrease_factor_per_second(dec).threshold_for_stable_funding(th_s).threshold_for_decrease_funding(th_d).build();
    let mut m = VMarket::<u64, 4>::new(c);
    m.funding_factor_per_second = stored;
    let pr = Prices { index_token_price: Price { min: 12, max: 12 }, long_token_price: Price { min: 12, max: 12 }, short_token_price: Price { min: 1, max: 1 } };
    let a = UpdateFundingState::try_new(&mut m, &pr).expect("action");
    let r = a.next_funding_factor_per_second(dur, &lo, &so);
    sink.case(r.is_ok());
    let rp = || json!({"params": pi, "stored": stored, "long_oi": lo, "short_oi": so, "duration": dur});
    let Ok((mag, longs_pay, next)) = r else { return };
    let adaptive = inc != 0;
    if mag > maxf {
        sink.fail_with("C12/rate_above_max", || (format!("rate magnitude {mag} > max {maxf}"), rp()));
    }
    if next.unsigned_abs() > maxf {
        sink.fail_with("C12/stored_factor_above_max", || (format!("next stored factor {next} beyond max {maxf}"), rp()));
    }
    if mag < minf && minf <= maxf {
        if adaptive {
            sink.fail_with("C12/rate_below_min/adaptive_mode", || (format!("rate magnitude {mag} < min {minf}"), rp()));
        } else {
            sink.fail_with("C12/rate_below_min/fallback_mode", || (format!("rate magnitude {mag} < min {minf} (increase factor is 0: the fallback formula has no lower bound)"), rp()));
        }
    }
    if !adaptive && mag != 0 && longs_pay != (lo > so) {
        sink.fail_with("C12/fallback_smaller_side_pays", || (format!("long oi {lo}, short oi {so}: longs_pay = {longs_pay} with rate {mag}"), rp()));
    }
    if adaptive && !longs_pay && next > 0 || adaptive && longs_pay && next < 0 && mag != 0 {
        sink.count("obs:payer_sign_differs_from_stored_factor");
    }
    sink.sample(rp);
}

pub fn run(cli: &Cli) -> Report {
    if cli.replay.as_ref().map(|r| r.get("path").is_some()).unwrap_or(false) {
        return ph::run(cli);
    }
    let mut rep = Report::new(cli, "model_checking");
    rep.rule("E1 part: product of 13 funding parameter sets (three of them with a zero increase factor and a non-zero decrease factor) x stored factor in -(max+2)..=(max+2) x (long, short) open interest on a dense grid with both sides non-zero x durations {0,1,60,3600,10^6} on UpdateFundingState::next_funding_factor_per_second; non-trivial = a rate was computed");
    if let Some(rv) = &cli.replay {
        for _ in 0..2 {
            e1::run(&mut rep, "replay", &[0u8], |_, sink| {
                one(sink, rv["params"].as_u64().unwrap() as usize, rv["stored"].as_i64().unwrap(), rv["long_oi"].as_u64().unwrap(), rv["short_oi"].as_u64().unwrap(), rv["duration"].as_u64().unwrap());
            });
        }
        rep.states = 1;
        rep.transitions = 1;
        return rep;
    }
    let n = cli.tier.pick(24u64, 60);
    let ois: Vec<u64> = (1..=n).map(|x| x * 25_000).chain([1, 9_999, 10_000, 10_001]).chain(cli.extras(12, 2, 1, 5_000_000).into_iter().map(|v| v as u64)).collect();
    let pis: Vec<usize> = (0..PARAMS.len()).collect();
    e1::run(&mut rep, "next_funding_factor_per_second u64/D4", &pis, |&pi, sink| {
        let maxf = PARAMS[pi].5 as i64;
        for stored in -(maxf + 2)..=(maxf + 2) {
            for &lo in &ois {
                for &so in &ois {
                    for dur in [0u64, 1, 60, 3_600, 1_000_000] {
                        one(sink, pi, stored, lo, so, dur);
                    }
                }
            }
        }
    });
    // history part: indices never decrease, pending funding fees compute in every reachable state
    let e1_evals = rep.evaluations;
    let e1_nontrivial = rep.distinct_nontrivial;
    let hist = ph::run(cli);
    rep.states = hist.states;
    rep.transitions = hist.transitions;
    rep.traces = hist.traces;
    rep.evaluations = e1_evals + hist.evaluations;
    rep.distinct_nontrivial = e1_nontrivial + hist.distinct_nontrivial;
    rep.rule(&hist.rule);
    rep.sections.extend(hist.sections);
    rep.samples.extend(hist.samples.into_iter().take(4));
    rep.assumptions.extend(hist.assumptions);
    for v in hist.violations {
        rep.violations.push(v);
    }
    for (k, n) in hist.per_key {
        *rep.per_key.entry(k).or_insert(0) += n;
    }
    if let Some(e) = hist.machinery_error {
        rep.machinery(e);
    }
    let _ = e2::Config { depth: 0, max_states: 0 };
    rep
}
