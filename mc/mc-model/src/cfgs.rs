//! Configuration families for the harness market.
use gmsol_model::params::{
    fee::{BorrowingFeeKinkModelParamsForOneSide, BorrowingFeeParams, FundingFeeParams, LiquidationFeeParams},
    position::PositionImpactDistributionParams,
    FeeParams, PositionParams, PriceImpactParams,
};

use crate::vmarket::VConfig;

macro_rules! base_cfg {
    ($name:ident, $T:ty, $unit:expr) => {
        /// Default-like configuration at this scale: every fee and impact mechanism switched on.
        pub fn $name() -> VConfig<$T> {
            let u: $T = $unit;
            VConfig {
                swap_impact: PriceImpactParams::builder().exponent(2 * u).positive_factor(u / 10_000 + 1).negative_factor(u / 5_000 + 2).build(),
                swap_fee: FeeParams::builder().fee_receiver_factor(u * 37 / 100).positive_impact_fee_factor(u * 5 / 10_000 + 1).negative_impact_fee_factor(u * 7 / 10_000 + 1).build(),
                // min_position_size_usd, min_collateral_value, min_collateral_factor, max_positive_impact, max_negative_impact, max_impact_for_liquidation
                position: PositionParams::new(u, u, u / 100, u / 200, u / 200, u / 400),
                position_impact: PriceImpactParams::builder().exponent(2 * u).positive_factor(u / 10_000 + 1).negative_factor(u / 5_000 + 2).build(),
                order_fee: FeeParams::builder().fee_receiver_factor(u * 37 / 100).positive_impact_fee_factor(u * 5 / 10_000 + 1).negative_impact_fee_factor(u * 7 / 10_000 + 1).build(),
                distribution: PositionImpactDistributionParams::builder().distribute_factor(u).min_position_impact_pool_amount(10).build(),
                borrowing: BorrowingFeeParams::builder().receiver_factor(u * 37 / 100).factor_for_long(u / 10_000 + 1).factor_for_short(u / 10_000 + 1).exponent_for_long(u).exponent_for_short(u).build(),
                kink: BorrowingFeeKinkModelParamsForOneSide::builder().optimal_usage_factor(0).base_borrowing_factor(0).above_optimal_usage_borrowing_factor(0).build(),
                funding: FundingFeeParams::builder().exponent(u).funding_factor(u / 5_000 + 2).max_factor_per_second(u / 1_000 + 10).min_factor_per_second(u / 10_000 + 1).increase_factor_per_second(u / 10_000 + 1).decrease_factor_per_second(0).threshold_for_stable_funding(u / 20).threshold_for_decrease_funding(0).build(),
                liquidation: LiquidationFeeParams::builder().factor(u / 500).receiver_factor(u * 37 / 100).build(),
                reserve_factor: u,
                oi_reserve_factor: u,
                max_pnl_deposit: u * 60 / 100,
                max_pnl_withdrawal: u * 30 / 100,
                max_pnl_trader: u * 50 / 100,
                max_pnl_adl: u * 50 / 100,
                min_pnl_after_adl: 0,
                max_pool_amount: <$T>::MAX / 1_000_000,
                max_pool_value_for_deposit: <$T>::MAX / 1_000,
                max_open_interest: <$T>::MAX / 1_000,
                min_collateral_factor_for_oi: 0,
                ignore_oi_for_usage: false,
                usd_to_amount_divisor: 1,
                funding_adjustment: 100,
            }
        }
    };
}

base_cfg!(base_u64_d2, u64, 100);
base_cfg!(base_u64_d4, u64, 10_000);
base_cfg!(base_u128_d20, u128, 10u128.pow(20));
