//! C11 — position pnl direction, cap and proportionality (E1).
use gmsol_model::{
    price::{Price, Prices},
    PositionExt,
};
use mc_core::{alpha, e1, json, Cli, Report, Value};

use crate::ph;
use crate::vmarket::*;

const PRICES: [u64; 14] = [1, 2, 5, 8, 11, 12, 13, 15, 30, 100, 8_999, 9_000, 9_001, 20_000];

#[allow(clippy::too_many_arguments)]
fn one(sink: &mut e1::Sink, is_long: bool, size_usd: u64, size_tokens: u64, cap: u64, pool: (u64, u64), other_oi: (u64, u64)) {
    let (_, mut c) = ph::config(0, 0);
    c.max_pnl_trader = cap;
    let mut m = VMarket::<u64, 4>::new(c);
    m.primary = VPool { long: pool.0, short: pool.1 };
    let side = if is_long { 0 } else { 1 };
    // this position plus other positions of the same side (pool pnl differs from position pnl)
    m.oi[side] = VPool { long: size_usd + other_oi.0, short: 0 };
    m.oi_tokens[side] = VPool { long: size_tokens + other_oi.1, short: 0 };
    let rp = || json!({"is_long": is_long, "size_usd": size_usd, "size_tokens": size_tokens, "cap": cap, "pool": [pool.0, pool.1], "other": [other_oi.0, other_oi.1]});
    let mut last: Option<(u64, i64, i64)> = None;
    for p in PRICES {
        // long token price fixed so that only the index price moves
        let pr = Prices { index_token_price: Price { min: p, max: p }, long_token_price: Price { min: 12, max: 12 }, short_token_price: Price { min: 1, max: 1 } };
        let mut pos = VPos { is_long, is_collateral_long: true, collateral: 1000, size_usd, size_tokens, ..Default::default() };
        let mut mm = m.clone();
        let ops = VPosOps { market: &mut mm, pos: &mut pos };
        let full = ops.pnl_value(&pr, &size_usd);
        sink.case(full.is_ok());
        let Ok((pnl, uncapped, dtok)) = full else { continue };
        if pnl > uncapped {
            sink.fail_with("C11/credited_pnl_exceeds_uncapped", || (format!("price {p}: pnl {pnl} > uncapped {uncapped}"), rp()));
        }
        // exact reference (i128): uncapped = +-(tokens*price - size); a profit is scaled by
        // capped_pool_pnl / pool_pnl of the whole side when the side's pnl exceeds cap_factor * pool value
        {
            let (t, s, pp) = (size_tokens as i128, size_usd as i128, p as i128);
            let want_unc = if is_long { t * pp - s } else { s - t * pp };
            let (oi, oit) = ((size_usd + other_oi.0) as i128, (size_tokens + other_oi.1) as i128);
            let pool_pnl = if is_long { oit * pp - oi } else { oi - oit * pp };
            let pool_value = if is_long { pool.0 as i128 * 12 } else { pool.1 as i128 };
            let cap_value = pool_value * cap as i128 / 10_000;
            let mut want = want_unc;
            if want_unc > 0 && pool_pnl > cap_value {
                want = cap_value * want_unc / pool_pnl;
            }
            if uncapped as i128 != want_unc {
                sink.fail_with("C11/uncapped_pnl_wrong_value", || (format!("price {p}: uncapped pnl {uncapped}, exact {want_unc}"), rp()));
            }
            if pnl as i128 != want {
                sink.fail_with("C11/capped_pnl_wrong_value", || (format!("price {p}: pnl {pnl}, exact {want} (uncapped {want_unc}, side pnl {pool_pnl}, cap {cap_value})"), rp()));
            }
        }
        if dtok != size_tokens {
            sink.fail_with("C11/full_close_tokens", || (format!("full close realises {dtok} of {size_tokens} tokens"), rp()));
        }
        if let Some((lp, l, lu)) = last {
            if (is_long && uncapped < lu) || (!is_long && uncapped > lu) {
                sink.fail_with("C11/uncapped_pnl_not_monotone_in_price", || (format!("price {lp} -> {p}: uncapped pnl {lu} -> {uncapped}"), rp()));
            }
            if (is_long && pnl < l) || (!is_long && pnl > l) {
                // the trader cap is a pool-level ratio (GMX): when it binds at one of the two prices the
                // credited pnl of a single position need not be monotone
                let key = if l != lu || pnl != uncapped { "C11/pnl_not_monotone_in_price/pool_level_cap_binds" } else { "C11/pnl_not_monotone_in_price" };
                sink.fail_with(key, || (format!("price {lp} -> {p}: pnl {l} (uncapped {lu}) -> {pnl} (uncapped {uncapped})"), rp()));
            }
        }
        if pnl != uncapped {
            sink.count("cap_binds");
        }
        last = Some((p, pnl, uncapped));
        // partial closes: share proportional to the closed size, up to the rounding of the token delta
        for part in [1u64, size_usd / 3, size_usd / 2, size_usd - 1] {
            if part == 0 || part >= size_usd {
                continue;
            }
            let r = ops.pnl_value(&pr, &part);
            sink.case(r.is_ok());
            let Ok((ppnl, punc, ptok)) = r else { continue };
            if ppnl > punc {
                sink.fail_with("C11/credited_pnl_exceeds_uncapped", || (format!("price {p} part {part}: pnl {ppnl} > uncapped {punc}"), rp()));
            }
            // exact share by size and the allowance: one token of the position's pnl plus the two floors
            let share = (pnl as i128) * part as i128 / size_usd as i128;
            let allowance = (pnl.unsigned_abs() as i128 + size_tokens as i128 - 1) / size_tokens as i128 + 2;
            if (ppnl as i128 - share).abs() > allowance {
                sink.fail_with("C11/partial_close_not_proportional", || (format!("price {p}: closing {part}/{size_usd} realises {ppnl}, proportional share {share} (allowance {allowance}, tokens {ptok}/{size_tokens})"), rp()));
            }
            if ptok > size_tokens {
                sink.fail_with("C11/partial_close_tokens_exceed_position", || (format!("{ptok} > {size_tokens}"), rp()));
            }
        }
    }
    sink.sample(rp);
}

/// executed decreases: the pnl realised by a real `DecreasePosition` is the share of the position's pnl that belongs to the size
/// that was actually closed (a partial decrease may be promoted to a full close)
fn decreases(rep: &mut Report, thorough: bool) {
    use crate::ph::d4::{update_fees, M};
    use gmsol_model::action::decrease_position::DecreasePositionFlags;
    use gmsol_model::{LiquidityMarketMutExt, MarketAction, PositionMutExt};
    // (config, is_long, collateral is the long token, collateral amount, size)
    let mut opens: Vec<(usize, bool, bool, u64, u64)> = vec![];
    for k in if thorough { vec![0usize, 2, 3, 6, 9] } else { vec![0usize, 2, 6] } {
        for (is_long, cl, c, size) in [(true, true, 10_000u64, 500_000u64), (true, false, 360_000, 2_000_000), (false, false, 200_000, 1_000_000), (false, true, 30_000, 1_000_000), (true, true, 40_000, 300_000)] {
            opens.push((k, is_long, cl, c, size));
        }
    }
    let counters = e1::run(rep, "executed decreases: realised pnl vs closed size", &opens, |&(k, is_long, cl, c, size), sink| {
        let (_, cfg) = ph::config(k, 0);
        let at = |lo: u64, hi: u64| Prices { index_token_price: Price { min: lo, max: hi }, long_token_price: Price { min: lo, max: hi }, short_token_price: Price { min: 1, max: 1 } };
        let mut m0 = M::new(cfg);
        m0.deposit(1_000_000, 12_000_000, at(12, 12)).and_then(|a| a.execute()).expect("seeding deposit");
        let mut p0 = VPos { is_long, is_collateral_long: cl, ..Default::default() };
        let opened = VPosOps { market: &mut m0, pos: &mut p0 }.increase(at(12, 12), c, size, None).and_then(|a| a.execute());
        if opened.is_err() {
            sink.case(false);
            sink.count("open_rejected");
            return;
        }
        for (lo, hi) in [(10u64, 10u64), (11, 11), (11, 13), (12, 12), (13, 13), (15, 15)] {
            for dt in [0u64, 3_600] {
                // (requested size, collateral withdrawal): halves and thirds, everything, all but one unit (below the minimum
                // position size: promoted to a full close), a tenth with most of the collateral withdrawn (promoted when the
                // rest cannot carry the position)
                for (req, wd) in [(p0.size_usd / 2, 0u64), (p0.size_usd, 0), (p0.size_usd - 1, 0), (p0.size_usd / 10, p0.collateral / 10 * 9), (p0.size_usd / 3, 100), (p0.size_usd / 10 * 9, 0), (p0.size_usd / 10, p0.collateral)] {
                    let rp = || json!({"section": "decreases", "config": k, "is_long": is_long, "collateral_long": cl, "collateral": c, "size": size, "price": [lo, hi], "dt": dt, "requested": req, "withdraw": wd});
                    let pr = at(lo, hi);
                    let (mut m, mut p) = (m0.clone(), p0);
                    m.clocks.now += dt;
                    if update_fees(&mut m, &pr).is_err() {
                        sink.case(false);
                        continue;
                    }
                    let before = p;
                    let r = mc_core::catch(|| VPosOps { market: &mut m, pos: &mut p }.decrease(pr, req, None, wd, DecreasePositionFlags::default()).and_then(|a| a.execute()));
                    let Ok(r) = r else {
                        sink.case(false);
                        sink.fail("C11/panic", "decrease panicked".into(), rp());
                        continue;
                    };
                    sink.case(r.is_ok());
                    let Ok(report) = r else { continue };
                    let closed = if report.should_remove() { before.size_usd } else { before.size_usd - p.size_usd };
                    if closed > req {
                        sink.count("partial_decrease_promoted_to_a_larger_close");
                    }
                    // the share of the pnl that belongs to the closed size, evaluated on the state right before the decrease
                    let (mut mm, mut pp) = (m0.clone(), before);
                    mm.clocks.now += dt;
                    let _ = update_fees(&mut mm, &pr);
                    let Ok((want, want_unc, _)) = VPosOps { market: &mut mm, pos: &mut pp }.pnl_value(&pr, &closed) else {
                        sink.fail("C11/executed_decrease_pnl_reference_fails", format!("pnl_value fails for the closed size {closed}"), rp());
                        continue;
                    };
                    let (got, got_unc) = (*report.pnl().pnl(), *report.pnl().uncapped_pnl());
                    if got != want || got_unc != want_unc {
                        sink.fail("C11/executed_decrease_pnl_not_proportional_to_closed_size", format!("requested {req} of {}, closed {closed}: realised pnl {got} (uncapped {got_unc}), the share of the closed size is {want} (uncapped {want_unc})", before.size_usd), rp());
                    }
                    if got > got_unc {
                        sink.fail("C11/credited_pnl_exceeds_uncapped", format!("executed decrease: pnl {got} > uncapped {got_unc}"), rp());
                    }
                }
            }
        }
    });
    if rep.violations_total() == 0 && counters.get("partial_decrease_promoted_to_a_larger_close").copied().unwrap_or(0) == 0 {
        rep.machinery("vacuous: no partial decrease was promoted to a larger close");
    }
}

pub fn run(cli: &Cli) -> Report {
    let mut rep = Report::new(cli, "exploration");
    rep.rule("E1 (second section: real positions opened through IncreasePosition on a seeded market for 3 (thorough 5) configurations x 5 position kinds x 6 price pairs x 2 clock offsets x 7 decreases (halves, thirds, full, all but one unit, a tenth with most or all of the collateral withdrawn) executed through DecreasePosition: the realised pnl must be the share of the size that was actually closed, also when a partial decrease is promoted to a full close). First section: product of (side, size in usd, size in tokens, trader pnl cap factor, pool amounts, other open interest of the side) x an ascending list of 14 index prices x partial close sizes, on PositionExt::pnl_value of the real model (UNIT=10^4); non-trivial = pnl computed");
    rep.assume("long-token price held fixed while the index price moves (the cap depends on pool value)");
    if let Some(rv) = &cli.replay {
        if rv["section"] == "decreases" {
            decreases(&mut rep, true);
            return rep;
        }
        for _ in 0..2 {
            e1::run(&mut rep, "replay", &[0u8], |_, sink| {
                let g = |k: &str| rv[k].as_u64().unwrap_or(0);
                let pair = |k: &str| (rv[k][0].as_u64().unwrap_or(0), rv[k][1].as_u64().unwrap_or(0));
                one(sink, rv["is_long"].as_bool().unwrap_or(true), g("size_usd"), g("size_tokens"), g("cap"), pair("pool"), pair("other"));
            });
        }
        return rep;
    }
    let t = cli.tier;
    let mut sizes: Vec<u64> = vec![10_000, 25_000, 500_000, 1_234_567, 3, 9_999];
    sizes.extend(cli.extras(11, 2, 2, 5_000_000).into_iter().map(|v| v as u64));
    if t.thorough() {
        sizes.extend((1..=40).map(|k| k * 7_001));
    }
    let sizes = alpha::dedup(&sizes);
    let mut tokens: Vec<u64> = vec![1, 2, 3, 833, 41_249, 100_000];
    if t.thorough() {
        tokens.extend((4..=40).map(|k| k * k));
    }
    let tokens = alpha::dedup(&tokens);
    e1::run(&mut rep, "pnl_value u64/D4", &sizes, |&size_usd, sink| {
        for &tok in &tokens {
            for is_long in [true, false] {
                for cap in [0u64, 1, 5_000, 10_000, 100_000] {
                    for pool in [(100_000u64, 1_200_000u64), (10, 10), (0, 0), (50_000_000, 1)] {
                        for other in [(0u64, 0u64), (700_000, 55_000), (5, 1_000)] {
                            one(sink, is_long, size_usd, tok, cap, pool, other);
                        }
                    }
                }
            }
        }
    });
    decreases(&mut rep, t.thorough());
    rep
}

#[allow(dead_code)]
fn _v(_: Value) {}
