//! C01 — fixed-point helpers return the exactly rounded value or fail (E1).
use gmsol_model::{
    fixed::Fixed,
    num::{MulDiv, Unsigned},
    utils,
};
use mc_core::{alpha, big::*, e1, json, Cli, Report};
use num_traits::CheckedMul;

/// Exact result of a reference computation: a value that fits u128, or "larger".
#[derive(Clone, Copy, PartialEq, Eq, Debug)]
pub enum Ex {
    V(u128),
    Big,
}

fn from_big(v: BigUint) -> Ex {
    match v.to_u128() {
        Some(x) => Ex::V(x),
        None => Ex::Big,
    }
}

/// floor(a*b/c) (None iff c == 0)
pub fn md_floor(a: u128, b: u128, c: u128) -> Option<Ex> {
    if c == 0 {
        return None;
    }
    if let Some(p) = a.checked_mul(b) {
        return Some(Ex::V(p / c));
    }
    Some(from_big(bu(a) * bu(b) / bu(c)))
}

/// ceil(a*b/c) (None iff c == 0)
pub fn md_ceil(a: u128, b: u128, c: u128) -> Option<Ex> {
    if c == 0 {
        return None;
    }
    if let Some(p) = a.checked_mul(b) {
        return Some(Ex::V(p / c + if p % c != 0 { 1 } else { 0 }));
    }
    Some(from_big(mul_div_ceil(a, b, c).unwrap()))
}

macro_rules! c01_for {
    ($fname:ident, $T:ty, $S:ty, $BITS:expr, $D:expr) => {
        /// `xs` shards the product; `ys`,`zs` are the remaining coordinates.
        fn $fname(rep: &mut Report, name: &str, xs: &[u128], ys: &[u128], zs: &[u128]) {
            const MAX: u128 = <$T>::MAX as u128;
            const SMAX: u128 = <$S>::MAX as u128;
            const UNIT: u128 = 10u128.pow($D as u32);
            let fit = |e: Option<Ex>| -> Option<u128> {
                match e {
                    Some(Ex::V(v)) if v <= MAX => Some(v),
                    _ => None,
                }
            };
            e1::run(rep, name, xs, |&x128, sink| {
                let x = x128 as $T;
                for &y128 in ys {
                    let y = y128 as $T;
                    for &z128 in zs {
                        let z = z128 as $T;
                        let rp = || json!({"fn": "", "T": stringify!($T), "x": x.to_string(), "y": y.to_string(), "z": z.to_string()});
                        macro_rules! bad {
                            ($key:expr, $f:expr, $got:expr, $want:expr) => {
                                sink.fail_with($key, || {
                                    let mut r = rp();
                                    r["fn"] = json!($f);
                                    (format!("{}<{}>({x},{y},{z}) = {:?}, exact {:?}", $f, stringify!($T), $got, $want), r)
                                })
                            };
                        }
                        // --- full-precision mul-div, floor and ceil
                        let ef = md_floor(x128, y128, z128);
                        let ec = md_ceil(x128, y128, z128);
                        let r = x.checked_mul_div(&y, &z);
                        sink.case(r.is_some());
                        match (r, fit(ef)) {
                            (Some(v), Some(w)) if v as u128 == w => {}
                            (None, None) => {}
                            (Some(v), w) => bad!("C01/mul_div/wrong_value", "checked_mul_div", Some(v), w),
                            (None, w) => bad!("C01/mul_div/unexpected_failure", "checked_mul_div", None::<$T>, w),
                        }
                        let r = x.checked_mul_div_ceil(&y, &z);
                        sink.case(r.is_some());
                        match (r, fit(ec)) {
                            (Some(v), Some(w)) if v as u128 == w => {}
                            (None, None) => {}
                            (Some(v), w) => bad!("C01/mul_div_ceil/wrong_value", "checked_mul_div_ceil", Some(v), w),
                            (None, w) => bad!("C01/mul_div_ceil/unexpected_failure", "checked_mul_div_ceil", None::<$T>, w),
                        }
                        // --- signed numerator: magnitude floor, sign re-applied
                        for neg in [false, true] {
                            if y128 > SMAX + 1 || (!neg && y128 > SMAX) || (neg && y128 == 0) {
                                continue;
                            }
                            let sy: $S = if neg { (y128 as $S).wrapping_neg() } else { y128 as $S };
                            let r = x.checked_mul_div_with_signed_numerator(&sy, &z);
                            sink.case(r.is_some());
                            let mag = fit(ef).filter(|m| *m <= SMAX || r.is_some());
                            match (r, mag) {
                                (Some(v), Some(m)) if v.unsigned_abs() as u128 == m && (v == 0 || (v < 0) == (sy < 0)) => {}
                                (None, None) => {}
                                (Some(v), m) => bad!("C01/mul_div_signed/wrong_value", if neg { "checked_mul_div_with_signed_numerator(-y)" } else { "checked_mul_div_with_signed_numerator(+y)" }, Some(v), m),
                                (None, m) => bad!("C01/mul_div_signed/unexpected_failure", "checked_mul_div_with_signed_numerator", None::<$S>, m),
                            }
                            // divisor rounds the magnitude of the signed dividend up: z.div(sy)
                            let r = z.as_divisor_to_round_up_magnitude_div(&sy);
                            sink.case(r.is_some());
                            let want = if z128 == 0 { None } else { Some(y128 / z128 + if y128 % z128 != 0 { 1 } else { 0 }) };
                            match (r, want) {
                                (Some(v), Some(m)) if v.unsigned_abs() as u128 == m && (v == 0 || (v < 0) == (sy < 0)) => {}
                                (None, None) => {}
                                (Some(v), m) => bad!("C01/round_up_magnitude_div/wrong_value", "as_divisor_to_round_up_magnitude_div", Some(v), m),
                                // failure is promised away only when nothing can overflow
                                (None, Some(m)) => {
                                    if z128 <= SMAX && y128.checked_add(z128).map(|s| s <= SMAX).unwrap_or(false) {
                                        bad!("C01/round_up_magnitude_div/unexpected_failure", "as_divisor_to_round_up_magnitude_div", None::<$S>, Some(m))
                                    }
                                }
                            }
                            // bound_magnitude(value = sy, min = x, max = z)
                            let r = <$T as Unsigned>::bound_magnitude(&sy, &x, &z);
                            sink.case(r.is_ok());
                            match r {
                                Ok(v) => {
                                    let m = y128;
                                    let want = if x128 > z128 { None } else { Some(m.clamp(x128, z128)) };
                                    let ok = want.map(|w| v.unsigned_abs() as u128 == w && (v == 0 || sy == 0 || (v < 0) == (sy < 0)) && (sy != 0 || v >= 0)).unwrap_or(false);
                                    if !ok {
                                        bad!("C01/bound_magnitude/wrong_value", "bound_magnitude(value=±y,min=x,max=z)", Some(v), want);
                                    }
                                }
                                Err(_) => {
                                    // must succeed when min <= max and the clamped magnitude is representable
                                    if x128 <= z128 && y128.clamp(x128, z128) <= SMAX {
                                        bad!("C01/bound_magnitude/unexpected_failure", "bound_magnitude(value=±y,min=x,max=z)", None::<$S>, Some(y128.clamp(x128, z128)));
                                    }
                                }
                            }
                            // x (+|-|*) sy
                            let exact_add: Option<u128> = if neg { x128.checked_sub(y128) } else { x128.checked_add(y128).filter(|v| *v <= MAX) };
                            let exact_sub: Option<u128> = if neg { x128.checked_add(y128).filter(|v| *v <= MAX) } else { x128.checked_sub(y128) };
                            for (f, r, e) in [("checked_add_with_signed", x.checked_add_with_signed(&sy), exact_add), ("checked_sub_with_signed", x.checked_sub_with_signed(&sy), exact_sub)] {
                                sink.case(r.is_some());
                                match (r, e) {
                                    (Some(v), Some(w)) if v as u128 == w => {}
                                    (None, None) => {}
                                    (Some(v), w) => bad!("C01/add_sub_with_signed/wrong_value", f, Some(v), w),
                                    (None, w) => bad!("C01/add_sub_with_signed/unexpected_failure", f, None::<$T>, w),
                                }
                            }
                            let r = x.checked_mul_with_signed(&sy);
                            sink.case(r.is_some());
                            let e = x128.checked_mul(y128).filter(|p| *p <= SMAX || r.is_some());
                            match (r, e) {
                                (Some(v), Some(w)) if v.unsigned_abs() as u128 == w && (v == 0 || (v < 0) == (sy < 0)) => {}
                                (None, None) => {}
                                (Some(v), w) => bad!("C01/mul_with_signed/wrong_value", "checked_mul_with_signed", Some(v), w),
                                (None, w) => bad!("C01/mul_with_signed/unexpected_failure", "checked_mul_with_signed", None::<$S>, w),
                            }
                            let r = utils::div_to_factor_signed::<$T, $D>(&sy, &z);
                            sink.case(r.is_some());
                            let e = if z128 == 0 { Some(0) } else { fit(md_floor(UNIT, y128, z128)).filter(|m| *m <= SMAX || r.is_some()) };
                            match (r, e) {
                                (Some(v), Some(w)) if v.unsigned_abs() as u128 == w && (v == 0 || (v < 0) == (sy < 0)) => {}
                                (None, None) => {}
                                (Some(v), w) => bad!("C01/div_to_factor_signed/wrong_value", "div_to_factor_signed(±y, z)", Some(v), w),
                                (None, w) => bad!("C01/div_to_factor_signed/unexpected_failure", "div_to_factor_signed(±y, z)", None::<$S>, w),
                            }
                        }
                        // --- two-operand helpers use (x, z)
                        if y128 == ys[0] {
                            let r = x.checked_round_up_div(&z);
                            sink.case(r.is_some());
                            let want = if z128 == 0 { None } else { Some(x128 / z128 + if x128 % z128 != 0 { 1 } else { 0 }) };
                            match (r, want) {
                                (Some(v), Some(w)) if v as u128 == w => {}
                                (None, None) => {}
                                (Some(v), w) => bad!("C01/round_up_div/wrong_value", "checked_round_up_div(x, z)", Some(v), w),
                                (None, Some(w)) => {
                                    if x128.checked_add(z128).map(|s| s <= MAX).unwrap_or(false) {
                                        bad!("C01/round_up_div/unexpected_failure", "checked_round_up_div(x, z)", None::<$T>, Some(w))
                                    }
                                }
                            }
                            if x.diff(z) as u128 != x128.abs_diff(z128) {
                                bad!("C01/diff/wrong_value", "diff(x, z)", Some(x.diff(z)), Some(x128.abs_diff(z128)));
                            }
                            let r = x.checked_signed_sub(z);
                            sink.case(r.is_ok());
                            let d = x128.abs_diff(z128);
                            match r {
                                Ok(v) => {
                                    if v.unsigned_abs() as u128 != d || (v != 0 && (v < 0) != (x128 < z128)) {
                                        bad!("C01/signed_sub/wrong_value", "checked_signed_sub(x, z)", Some(v), Some(d));
                                    }
                                }
                                Err(_) => {
                                    if d <= SMAX {
                                        bad!("C01/signed_sub/unexpected_failure", "checked_signed_sub(x, z)", None::<$S>, Some(d));
                                    }
                                }
                            }
                            // factor helpers
                            let r = utils::apply_factor::<$T, $D>(&x, &z);
                            sink.case(r.is_some());
                            match (r, fit(md_floor(x128, z128, UNIT))) {
                                (Some(v), Some(w)) if v as u128 == w => {}
                                (None, None) => {}
                                (Some(v), w) => bad!("C01/apply_factor/wrong_value", "apply_factor(x, factor=z)", Some(v), w),
                                (None, w) => bad!("C01/apply_factor/unexpected_failure", "apply_factor(x, factor=z)", None::<$T>, w),
                            }
                            for up in [false, true] {
                                let r = utils::div_to_factor::<$T, $D>(&x, &z, up);
                                sink.case(r.is_some());
                                let e = if z128 == 0 { Some(0) } else { fit(if up { md_ceil(x128, UNIT, z128) } else { md_floor(x128, UNIT, z128) }) };
                                match (r, e) {
                                    (Some(v), Some(w)) if v as u128 == w => {}
                                    (None, None) => {}
                                    (Some(v), w) => bad!("C01/div_to_factor/wrong_value", if up { "div_to_factor(x, z, up)" } else { "div_to_factor(x, z, down)" }, Some(v), w),
                                    (None, w) => bad!("C01/div_to_factor/unexpected_failure", "div_to_factor(x, z)", None::<$T>, w),
                                }
                            }
                            let r = Fixed::<$T, $D>::from_inner(x).checked_mul(&Fixed::from_inner(z)).map(|f| f.into_inner());
                            sink.case(r.is_some());
                            match (r, fit(md_floor(x128, z128, UNIT))) {
                                (Some(v), Some(w)) if v as u128 == w => {}
                                (None, None) => {}
                                (Some(v), w) => bad!("C01/fixed_mul/wrong_value", "Fixed::checked_mul(x, z)", Some(v), w),
                                (None, w) => bad!("C01/fixed_mul/unexpected_failure", "Fixed::checked_mul(x, z)", None::<$T>, w),
                            }
                        }
                        // --- market-token conversions
                        let r = utils::market_token_amount_to_usd(&x, &y, &z);
                        sink.case(r.is_some());
                        match (r, fit(md_floor(y128, x128, z128))) {
                            (Some(v), Some(w)) if v as u128 == w => {}
                            (None, None) => {}
                            (Some(v), w) => bad!("C01/market_token_amount_to_usd/wrong_value", "market_token_amount_to_usd(amount=x,pool_value=y,supply=z)", Some(v), w),
                            (None, w) => bad!("C01/market_token_amount_to_usd/unexpected_failure", "market_token_amount_to_usd", None::<$T>, w),
                        }
                        for div in [1u128, 7, UNIT / 10 + 1] {
                            if div > MAX {
                                continue;
                            }
                            let r = utils::usd_to_market_token_amount(x, y, z, div as $T);
                            sink.case(r.is_some());
                            // usd = x, pool_value = y, supply = z
                            let e: Option<u128> = if z128 == 0 && y128 == 0 {
                                Some(x128 / div)
                            } else if z128 == 0 {
                                x128.checked_add(y128).filter(|s| *s <= MAX).map(|s| s / div)
                            } else {
                                fit(md_floor(z128, x128, y128))
                            };
                            match (r, e) {
                                (Some(v), Some(w)) if v as u128 == w => {}
                                (None, None) => {}
                                (Some(v), w) => bad!("C01/usd_to_market_token_amount/wrong_value", "usd_to_market_token_amount(usd=x,pool_value=y,supply=z)", Some(v), w),
                                (None, w) => bad!("C01/usd_to_market_token_amount/unexpected_failure", "usd_to_market_token_amount", None::<$T>, w),
                            }
                        }
                        sink.sample(|| rp());
                    }
                }
            });
        }
    };
}

c01_for!(run_u64_d2, u64, i64, 64, 2);
c01_for!(run_u64_d9, u64, i64, 64, 9);
c01_for!(run_u128_d20, u128, i128, 128, 20);

/// integer-exponent power and `apply_factors`: iterated floor(x*y/UNIT)
macro_rules! pow_for {
    ($fname:ident, $T:ty, $D:expr) => {
        fn $fname(rep: &mut Report, name: &str, bases: &[u128], factors: &[u128]) {
            const MAX: u128 = <$T>::MAX as u128;
            const UNIT: u128 = 10u128.pow($D as u32);
            e1::run(rep, name, bases, |&b128, sink| {
                let b = b128 as $T;
                for e in 0u32..=4 {
                    let exp = (e as u128 * UNIT) as $T;
                    // reference
                    let mut acc: Option<u128> = Some(UNIT);
                    for _ in 0..e {
                        acc = acc.and_then(|a| match md_floor(a, b128, UNIT) {
                            Some(Ex::V(v)) if v <= MAX => Some(v),
                            _ => None,
                        });
                    }
                    let r = Fixed::<$T, $D>::from_inner(b).checked_pow(&Fixed::from_inner(exp)).map(|f| f.into_inner());
                    sink.case(r.is_some());
                    match (r, acc) {
                        (Some(v), Some(w)) if v as u128 == w => {}
                        (None, None) => {}
                        (got, want) => sink.fail("C01/pow/wrong_value", format!("checked_pow<{},{}>({b}, {e} units) = {got:?}, exact {want:?}", stringify!($T), $D), json!({"fn": "pow", "T": stringify!($T), "D": $D, "base": b.to_string(), "exp_units": e})),
                    }
                    // large whole-number exponents (only for bases >= 2.0, where both sides decide within 128 multiplications):
                    // the exponent must not be narrowed on the way
                    if e == 4 && b128 >= 2 * UNIT {
                        for big in [5u128, 63, 64, 127, 128, (1 << 32) - 1, 1 << 32, (1 << 32) + 1, (1 << 32) + 3, 1 << 33, (1 << 40) + 2, MAX / UNIT] {
                            if big > MAX / UNIT {
                                continue;
                            }
                            let mut acc: Option<u128> = Some(UNIT);
                            for _ in 0..big.min(200) {
                                acc = acc.and_then(|a| match md_floor(a, b128, UNIT) {
                                    Some(Ex::V(v)) if v <= MAX => Some(v),
                                    _ => None,
                                });
                            }
                            let r = Fixed::<$T, $D>::from_inner(b).checked_pow(&Fixed::from_inner((big * UNIT) as $T)).map(|f| f.into_inner());
                            sink.case(r.is_some());
                            match (r, acc) {
                                (Some(v), Some(w)) if v as u128 == w && big <= 200 => {}
                                (None, None) => {}
                                (got, want) => sink.fail("C01/pow/wrong_value", format!("checked_pow<{},{}>({b}, {big} units) = {got:?}, exact {want:?}", stringify!($T), $D), json!({"fn": "pow", "T": stringify!($T), "D": $D, "base": b.to_string(), "exp_units": big.to_string()})),
                            }
                        }
                    }
                    for &f128 in factors {
                        let f = f128 as $T;
                        let r = utils::apply_factors::<$T, $D>(b, f, exp).ok();
                        sink.case(r.is_some());
                        let p: Option<u128> = if b128 < UNIT {
                            Some(0)
                        } else if b128 == UNIT {
                            Some(UNIT)
                        } else if e == 0 {
                            Some(UNIT)
                        } else if e == 1 {
                            Some(b128)
                        } else {
                            acc
                        };
                        let want = p.and_then(|p| match md_floor(p, f128, UNIT) {
                            Some(Ex::V(v)) if v <= MAX => Some(v),
                            _ => None,
                        });
                        match (r, want) {
                            (Some(v), Some(w)) if v as u128 == w => {}
                            (None, None) => {}
                            (got, want) => sink.fail("C01/apply_factors/wrong_value", format!("apply_factors<{},{}>({b}, {f}, {e} units) = {got:?}, exact {want:?}", stringify!($T), $D), json!({"fn": "apply_factors", "T": stringify!($T), "D": $D, "base": b.to_string(), "factor": f.to_string(), "exp_units": e})),
                        }
                    }
                }
            });
        }
    };
}
pow_for!(pow_u64_d2, u64, 2);
pow_for!(pow_u64_d9, u64, 9);
pow_for!(pow_u128_d20, u128, 20);

pub fn run(cli: &Cli) -> Report {
    let mut rep = Report::new(cli, "exploration");
    rep.rule("E1: full Cartesian product of operand alphabets (boundary B(w): small values, 10^k±1, 2^k±1, type limits, seed-derived extras; dense D(n)=0..=n) for every helper; a case is one (helper, operands) evaluation, distinct by construction; non-trivial = the helper returned a value (not a failure)");
    rep.assume("reference arithmetic: num-bigint / native u128 when the product fits");
    if let Some(rv) = &cli.replay {
        replay(&mut rep, rv);
        return rep;
    }
    let ex64: Vec<u128> = cli.extras(1, 6, 0, u64::MAX as u128);
    let ex128: Vec<u128> = cli.extras(2, 6, 0, u128::MAX);
    let b64 = alpha::boundary(64, &[2, 4, 9, 18], &ex64);
    let b128 = alpha::boundary(128, &[2, 9, 20, 30], &ex128);
    let dense_n = cli.tier.pick(40, 160);
    let d = alpha::dense(dense_n);
    run_u64_d2(&mut rep, "u64/D2 boundary^3", &b64, &b64, &b64);
    run_u64_d9(&mut rep, "u64/D9 boundary^3", &b64, &b64, &b64);
    run_u128_d20(&mut rep, "u128/D20 boundary^3", &b128, &b128, &b128);
    run_u64_d2(&mut rep, "u64/D2 dense^3", &d, &d, &d);
    run_u128_d20(&mut rep, "u128/D20 dense^3", &d, &d, &d);
    // mixed: dense operands against boundary divisors and vice versa
    run_u64_d2(&mut rep, "u64/D2 boundary x dense x boundary", &b64, &alpha::dense(12), &b64);
    run_u128_d20(&mut rep, "u128/D20 boundary x dense x boundary", &b128, &alpha::dense(12), &b128);
    let facs64 = alpha::boundary_small(64, 100, &[50, 150]);
    let facs128 = alpha::boundary_small(128, 10u128.pow(20), &[5 * 10u128.pow(19)]);
    let mut bases64 = alpha::dense(cli.tier.pick(400, 4000));
    bases64.extend(alpha::boundary(64, &[2, 4, 9], &ex64));
    pow_u64_d2(&mut rep, "pow u64/D2", &alpha::dedup(&bases64), &facs64);
    pow_u64_d9(&mut rep, "pow u64/D9", &alpha::boundary(64, &[9, 10, 12, 18], &ex64), &alpha::boundary_small(64, 1_000_000_000, &[]));
    pow_u128_d20(&mut rep, "pow u128/D20", &alpha::boundary(128, &[19, 20, 21, 25, 30], &ex128), &facs128);
    rep
}

fn replay(rep: &mut Report, rv: &serde_json::Value) {
    let p = |k: &str| rv[k].as_str().and_then(|s| s.parse::<u128>().ok());
    match rv["fn"].as_str() {
        Some("pow") | Some("apply_factors") => {
            let b = p("base").unwrap_or(0);
            let f = p("factor").unwrap_or(0);
            for _ in 0..2 {
                match (rv["T"].as_str(), rv["D"].as_u64()) {
                    (Some("u64"), Some(2)) => pow_u64_d2(rep, "replay", &[b], &[f]),
                    (Some("u64"), _) => pow_u64_d9(rep, "replay", &[b], &[f]),
                    _ => pow_u128_d20(rep, "replay", &[b], &[f]),
                }
            }
        }
        _ => {
            let (x, y, z) = (p("x").unwrap_or(0), p("y").unwrap_or(0), p("z").unwrap_or(0));
            for _ in 0..2 {
                if rv["T"].as_str() == Some("u64") {
                    run_u64_d2(rep, "replay", &[x], &[y], &[z]);
                    run_u64_d9(rep, "replay", &[x], &[y], &[z]);
                } else {
                    run_u128_d20(rep, "replay", &[x], &[y], &[z]);
                }
            }
        }
    }
}
