//! C02 — fee splitting is exact, fee <= gross, discount never raises the fee (E1).
use gmsol_model::{
    params::{fee::LiquidationFeeParams, FeeParams},
    pool::delta::BalanceChange,
    price::Price,
    PositionExt,
};
use mc_core::{alpha, e1, json, Cli, Report, Value};

use crate::cfgs;
use crate::vmarket::*;

const UNIT: u64 = 100;

fn bc_of(i: u8) -> BalanceChange {
    match i {
        0 => BalanceChange::Improved,
        1 => BalanceChange::Worsened,
        _ => BalanceChange::Unchanged,
    }
}

/// exact reference of `apply_fees`; None = the split does not exist (some part would be negative)
fn oracle(amount: u128, f: u128, d: Option<u128>, r: u128, unit: u128) -> Option<(u128, u128, u128, u128)> {
    let fee0 = crate::c01::md_floor(amount, f, unit);
    let fee0 = match fee0 {
        Some(crate::c01::Ex::V(v)) => v,
        _ => return None,
    };
    let disc = match crate::c01::md_floor(fee0, d.unwrap_or(0), unit) {
        Some(crate::c01::Ex::V(v)) => v,
        _ => return None,
    };
    let fee = fee0.checked_sub(disc)?;
    let recv = match crate::c01::md_floor(fee, r, unit) {
        Some(crate::c01::Ex::V(v)) => v,
        _ => return None,
    };
    let pool = fee.checked_sub(recv)?;
    let net = amount.checked_sub(fee)?;
    Some((net, pool, recv, fee))
}

#[allow(clippy::too_many_arguments)]
fn one_u64(sink: &mut e1::Sink, pf: u64, nf: u64, r: u64, d: Option<u64>, amount: u64, bci: u8) {
    let bc = bc_of(bci);
    let base = FeeParams::<u64>::builder().fee_receiver_factor(r).positive_impact_fee_factor(pf).negative_impact_fee_factor(nf).build();
    let params = match d {
        Some(d) => base.with_discount_factor(d),
        None => base,
    };
    let f = if bci == 0 { pf } else { nf };
    let got = params.apply_fees::<2>(bc, &amount);
    let want = oracle(amount as u128, f as u128, d.map(|x| x as u128), r as u128, UNIT as u128).filter(|(n, p, rc, fe)| [n, p, rc, fe].iter().all(|v| **v <= u64::MAX as u128));
    sink.case(got.is_some());
    let rp = || json!({"T": "u64", "pf": pf, "nf": nf, "r": r, "d": d, "amount": amount.to_string(), "bc": bci});
    match (&got, &want) {
        (Some((net, fees)), _) => {
            let (pool, recv) = (*fees.fee_amount_for_pool() as u128, *fees.fee_amount_for_receiver() as u128);
            let total = *net as u128 + pool + recv;
            if total != amount as u128 {
                sink.fail_with("C02/apply_fees/split_not_exact", || (format!("net {net} + pool {pool} + receiver {recv} != gross {amount}"), rp()));
            } else if pool + recv > amount as u128 {
                sink.fail_with("C02/apply_fees/fee_exceeds_gross", || (format!("fee {} > gross {amount}", pool + recv), rp()));
            }
            match want {
                Some((wn, wp, wr, _)) => {
                    if (*net as u128, pool, recv) != (wn, wp, wr) {
                        sink.fail_with("C02/apply_fees/wrong_value", || (format!("got (net {net}, pool {pool}, receiver {recv}) want ({wn},{wp},{wr})"), rp()));
                    }
                }
                None => sink.fail_with("C02/apply_fees/accepted_invalid", || (format!("succeeded with (net {net}, pool {pool}, receiver {recv}) although the exact split does not exist (factor {f}, discount {d:?}, receiver {r}, unit {UNIT})"), rp())),
            }
            // a discount never raises the fee
            if d.is_some() {
                if let Some((net0, _)) = base.apply_fees::<2>(bc, &amount) {
                    if net0 > *net {
                        sink.fail_with("C02/apply_fees/discount_raises_fee", || (format!("net without discount {net0} > net with discount {net}"), rp()));
                    }
                }
            }
        }
        (None, Some(w)) => {
            // promised only for valid configurations (all factors <= 100%), where no intermediate can overflow
            if f <= UNIT && r <= UNIT && d.unwrap_or(0) <= UNIT {
                sink.fail_with("C02/apply_fees/unexpected_failure", || (format!("failed although the exact split {w:?} exists"), rp()));
            }
        }
        (None, None) => {}
    }
    // the parts as separate calls
    if let Some(fee) = params.fee::<2>(bc, &amount) {
        match want {
            Some((_, _, _, wf)) if wf == fee as u128 => {}
            Some((_, _, _, wf)) => sink.fail_with("C02/fee/wrong_value", || (format!("fee {fee} want {wf}"), rp())),
            None => {
                // fee() itself does not compare with gross; only its value is checked
                let f0 = (amount as u128 * f as u128) / UNIT as u128;
                let dd = f0 * d.unwrap_or(0) as u128 / UNIT as u128;
                if f0.checked_sub(dd) != Some(fee as u128) {
                    sink.fail_with("C02/fee/wrong_value", || (format!("fee {fee} want {:?}", f0.checked_sub(dd)), rp()));
                }
            }
        }
    }
    sink.sample(rp);
}

fn one_u128(sink: &mut e1::Sink, pf: u128, nf: u128, r: u128, d: Option<u128>, amount: u128, bci: u8) {
    const U: u128 = 10u128.pow(20);
    let bc = bc_of(bci);
    let base = FeeParams::<u128>::builder().fee_receiver_factor(r).positive_impact_fee_factor(pf).negative_impact_fee_factor(nf).build();
    let params = match d {
        Some(d) => base.with_discount_factor(d),
        None => base,
    };
    let f = if bci == 0 { pf } else { nf };
    let got = params.apply_fees::<20>(bc, &amount);
    let want = oracle(amount, f, d, r, U);
    sink.case(got.is_some());
    let rp = || json!({"T": "u128", "pf": pf.to_string(), "nf": nf.to_string(), "r": r.to_string(), "d": d.map(|x| x.to_string()), "amount": amount.to_string(), "bc": bci});
    match (&got, &want) {
        (Some((net, fees)), Some((wn, wp, wr, _))) => {
            if (*net, *fees.fee_amount_for_pool(), *fees.fee_amount_for_receiver()) != (*wn, *wp, *wr) {
                sink.fail_with("C02/apply_fees/wrong_value", || (format!("got (net {net}, {fees:?}) want ({wn},{wp},{wr})"), rp()));
            }
        }
        (Some((net, fees)), None) => sink.fail_with("C02/apply_fees/accepted_invalid", || (format!("succeeded with (net {net}, {fees:?}) although the exact split does not exist"), rp())),
        (None, Some(w)) => {
            if f <= U && r <= U && d.unwrap_or(0) <= U {
                sink.fail_with("C02/apply_fees/unexpected_failure", || (format!("failed although the exact split {w:?} exists"), rp()))
            }
        }
        (None, None) => {}
    }
}

/// order fees and liquidation fees through the position API
fn position_fees(rep: &mut Report, cli: &Cli) {
    let sizes: Vec<u128> = {
        let mut v = alpha::dense(cli.tier.pick(60, 300));
        v.extend([999, 1000, 1001, 123_456, u64::MAX as u128 / 200, u64::MAX as u128]);
        v
    };
    let factors: Vec<u64> = vec![0, 1, 5, 20, 50, 99, 100, 101, 250];
    e1::run(rep, "position_fees(order+liquidation) u64/D2", &sizes, |&size, sink| {
        let size = size as u64;
        for &of in &factors {
            for &lf in &[0u64, 1, 20, 100, 150] {
                for &rf in &[0u64, 37, 100, 101] {
                    for (pmin, pmax) in [(1u64, 1u64), (1, 2), (2, 3), (3, 3), (7, 9), (1000, 1001)] {
                        for bci in 0..2u8 {
                            for liq in [false, true] {
                                let mut c = cfgs::base_u64_d2();
                                c.order_fee = FeeParams::builder().fee_receiver_factor(rf).positive_impact_fee_factor(of / 2).negative_impact_fee_factor(of).build();
                                c.liquidation = LiquidationFeeParams::builder().factor(lf).receiver_factor(rf).build();
                                let mut m = VMarket::<u64, 2>::new(c);
                                let mut p = VPos { is_long: true, is_collateral_long: true, ..Default::default() };
                                let ops = VPosOps { market: &mut m, pos: &mut p };
                                let price = Price { min: pmin, max: pmax };
                                let r = ops.position_fees(&price, &size, bc_of(bci), liq);
                                sink.case(r.is_ok());
                                let rp = || json!({"fn": "position_fees", "size": size.to_string(), "of": of, "lf": lf, "rf": rf, "pmin": pmin, "pmax": pmax, "bc": bci, "liq": liq});
                                let f = if bci == 0 { of / 2 } else { of };
                                let fee_value = size as u128 * f as u128 / UNIT as u128;
                                let fee_amount = fee_value / pmin as u128;
                                let recv = fee_amount * rf as u128 / UNIT as u128;
                                let order_ok = recv <= fee_amount && fee_value <= u64::MAX as u128;
                                let liq_value = size as u128 * lf as u128 / UNIT as u128;
                                let liq_amount = (liq_value + pmin as u128 - 1) / pmin as u128;
                                let liq_recv = liq_amount * rf as u128 / UNIT as u128;
                                match r {
                                    Ok(fees) => {
                                        let o = fees.order_fees();
                                        let (pool, rc) = (*o.fee_amounts().fee_amount_for_pool() as u128, *o.fee_amounts().fee_amount_for_receiver() as u128);
                                        if !order_ok || *o.fee_value() as u128 != fee_value || pool + rc != fee_amount || rc != recv {
                                            sink.fail_with("C02/order_fees/wrong_value", || (format!("order fees value {} pool {pool} receiver {rc}; exact value {fee_value} amount {fee_amount} receiver {recv}", o.fee_value()), rp()));
                                        }
                                        // the aggregate split the order processing uses: pool share + receiver share = total cost (no funding here)
                                        if rf <= UNIT {
                                            match (fees.for_pool::<2>(), fees.for_receiver(), fees.total_cost_excluding_funding()) {
                                                (Ok(fp), Ok(fr), Ok(total)) => {
                                                    if fp as u128 + fr as u128 != total as u128 {
                                                        sink.fail_with("C02/position_fees/aggregate_split_not_exact", || (format!("for_pool {fp} + for_receiver {fr} != total cost excluding funding {total}"), rp()));
                                                    }
                                                }
                                                other => {
                                                    if u64::try_from(fee_amount + liq_amount).is_ok() {
                                                        sink.fail_with("C02/position_fees/aggregate_split_failed", || (format!("{other:?}"), rp()));
                                                    }
                                                }
                                            }
                                        }
                                        match (liq, fees.liquidation_fees()) {
                                            (false, None) => {}
                                            (true, Some(l)) => {
                                                let want = if lf == 0 { (0, 0, 0) } else { (liq_value, liq_amount, liq_recv) };
                                                if (*l.fee_value() as u128, *l.fee_amount() as u128, *l.fee_amount_for_receiver() as u128) != want {
                                                    sink.fail_with("C02/liquidation_fees/wrong_value", || (format!("liquidation fees {l:?}, exact (value, amount, receiver) = {want:?}"), rp()));
                                                }
                                                // pool share must exist whenever the receiver factor is valid
                                                if rf <= UNIT && l.fee_amount_for_pool().is_err() {
                                                    sink.fail_with("C02/liquidation_fees/no_pool_share", || ("fee_amount_for_pool failed with a valid receiver factor".into(), rp()));
                                                }
                                            }
                                            _ => sink.fail_with("C02/liquidation_fees/presence", || ("liquidation fees present iff is_liquidation violated".into(), rp())),
                                        }
                                    }
                                    Err(_) => {
                                        let liq_fits = !liq || lf == 0 || (liq_value + pmin as u128 <= u64::MAX as u128);
                                        if order_ok && liq_fits && rf <= UNIT {
                                            sink.fail_with("C02/position_fees/unexpected_failure", || ("failed with valid factors and representable values".into(), rp()));
                                        }
                                    }
                                }
                            }
                        }
                    }
                }
            }
        }
    });
}

pub fn run(cli: &Cli) -> Report {
    let mut rep = Report::new(cli, "exploration");
    rep.rule("E1: product of (positive factor, negative factor, receiver factor, discount, gross amount, balance-change kind) at the tiny scale UNIT=100 (every factor value 0..=100 plus invalid ones) and at production scale u128/10^20 on boundary alphabets; plus order/liquidation fees through PositionExt::position_fees; non-trivial = the computation succeeded");
    rep.assume("reference: exact integer floor/ceil arithmetic in u128/big integers");
    if let Some(rv) = &cli.replay {
        replay(&mut rep, rv);
        return rep;
    }
    let step = cli.tier.pick(5, 1);
    let mut factors: Vec<u64> = (0..=100).step_by(step).collect();
    factors.extend([1, 99, 101, 150, 200, 250, u64::MAX]);
    let factors = alpha::dedup(&factors);
    let recv: Vec<u64> = alpha::dedup(&(0..=100).step_by(cli.tier.pick(10, 5)).chain([1, 37, 99, 101, 200]).collect::<Vec<_>>());
    let discs: Vec<Option<u64>> = std::iter::once(None).chain(alpha::dedup(&(0..=100).step_by(cli.tier.pick(20, 5)).chain([1, 60, 99, 101]).collect::<Vec<_>>()).into_iter().map(Some)).collect();
    let mut amounts: Vec<u64> = (0..=cli.tier.pick(120u64, 200)).collect();
    amounts.extend([999, 1000, 1001, 12_345, u64::MAX / 250, u64::MAX / 100, u64::MAX / 100 + 1, u64::MAX - 1, u64::MAX]);
    amounts.extend(cli.extras(3, 4, 0, u64::MAX as u128).into_iter().map(|v| v as u64));
    e1::run(&mut rep, "apply_fees u64/D2", &factors, |&f, sink| {
        // the positive factor is a different value so that a swapped selection is visible
        let pf = if f == u64::MAX { 7 } else { f / 2 + 1 };
        for &r in &recv {
            for d in &discs {
                for &a in &amounts {
                    for bci in 0..3u8 {
                        one_u64(sink, pf, f, r, *d, a, bci);
                    }
                }
            }
        }
    });
    const U: u128 = 10u128.pow(20);
    let f128 = alpha::boundary_small(128, U, &[U / 2, U / 1000, 5 * U / 10_000, 250 * U / 100]);
    let a128 = alpha::boundary(128, &[6, 20, 26], &cli.extras(4, 6, 0, u128::MAX));
    e1::run(&mut rep, "apply_fees u128/D20", &f128, |&f, sink| {
        for &r in &f128 {
            for d in std::iter::once(None).chain(f128.iter().map(|x| Some(*x))) {
                for &a in &a128 {
                    for bci in 0..3u8 {
                        one_u128(sink, f / 2 + 1, f, r, d, a, bci);
                    }
                }
            }
        }
    });
    position_fees(&mut rep, cli);
    rep
}

fn replay(rep: &mut Report, rv: &Value) {
    for _ in 0..2 {
        e1::run(rep, "replay", &[0u8], |_, sink| {
            let s = |k: &str| rv[k].as_str().and_then(|s| s.parse::<u128>().ok()).or(rv[k].as_u64().map(|x| x as u128));
            if rv["T"].as_str() == Some("u128") {
                one_u128(sink, s("pf").unwrap(), s("nf").unwrap(), s("r").unwrap(), s("d"), s("amount").unwrap(), rv["bc"].as_u64().unwrap() as u8);
            } else if rv["T"].as_str() == Some("u64") {
                one_u64(sink, s("pf").unwrap() as u64, s("nf").unwrap() as u64, s("r").unwrap() as u64, s("d").map(|x| x as u64), s("amount").unwrap() as u64, rv["bc"].as_u64().unwrap() as u8);
            }
        });
    }
    if rv["fn"].as_str() == Some("position_fees") {
        rep.assume("position_fees replays re-run the whole section (cheap)");
        let cli = Cli { property: "C02".into(), tier: mc_core::Tier::Quick, seed: 0, out: None, replay: None };
        position_fees(rep, &cli);
    }
}
