// Perp-history explorer body. `include!`d into a module that defines
//   type N (unsigned), type S (signed), const D: u8, const UNIT: N
// The subject is the real generic model code of `gmsol_model`; only storage (VMarket) is ours.

use gmsol_model::{
    action::decrease_position::DecreasePositionFlags,
    num::Unsigned as _,
    price::{Price, Prices},
    BaseMarket, BorrowingFeeMarketExt, BorrowingFeeMarketMutExt, LiquidityMarketExt, LiquidityMarketMutExt, MarketAction,
    PerpMarketMutExt, PnlFactorKind, PositionExt, PositionImpactMarketMutExt, PositionMutExt, SwapMarketMutExt,
};
use mc_core::e2::{Machine, StepOut};
use std::hash::{Hash, Hasher};

use crate::vmarket::*;

pub type M = VMarket<N, D>;

pub const P04: u32 = 1 << 4;
pub const P05: u32 = 1 << 5;
pub const P06: u32 = 1 << 6;
pub const P07: u32 = 1 << 7;
pub const P08: u32 = 1 << 8;
pub const P09: u32 = 1 << 9;
pub const P10: u32 = 1 << 10;
pub const P12: u32 = 1 << 12;
pub const P13: u32 = 1 << 13;
pub const P14: u32 = 1 << 14;

#[derive(Clone)]
pub struct St {
    pub m: M,
    pub pos: Vec<VPos<N>>,
    /// index (= long) token price, min and max
    pub price: (N, N),
    /// cumulative tokens paid in minus paid out per pool token [long, short]
    pub ledger: [i128; 2],
}

#[derive(Clone, Copy, Debug)]
pub enum Act {
    Deposit(N, N),
    /// 0: whole supply, 1: half, 2: one unit
    Withdraw(u8),
    Swap(bool, N),
    /// slot, collateral increment, size delta usd
    Inc(usize, N, N),
    /// slot, size kind (0 half, 1 all, 2 size+1 with cap, 3 size+1 without cap, 4 zero: collateral withdrawal only), collateral withdrawal
    Dec(usize, u8, N),
    Liq(usize),
    Price(N, N),
    Adv(u64),
    Fees,
    /// run the per-state probes (C04/C05/C06/C10); never changes the state
    Probe,
}

#[derive(Clone, Default)]
pub struct Probes {
    pub swap_amounts: Vec<N>,
    pub deposits: Vec<(N, N)>,
    /// (collateral, size usd)
    pub opens: Vec<(N, N)>,
}

pub struct Ph {
    pub acts: Vec<Act>,
    pub props: u32,
    pub probes: Probes,
}

fn w(v: N) -> i128 {
    v as i128
}

pub fn prices(st: &St) -> Prices<N> {
    Prices {
        index_token_price: Price { min: st.price.0, max: st.price.1 },
        long_token_price: Price { min: st.price.0, max: st.price.1 },
        short_token_price: Price { min: 1, max: 1 },
    }
}

/// Independent liquidation predicate (C09's oracle): the statement-level definition composed in
/// i128 from the model's building blocks (pnl, close impact, fees — each decided by its own
/// property). `Some(None)` healthy, `Some(Some(reason))` liquidatable, `None` not computable.
/// Remaining collateral value = collateral at the min price + pnl + close impact (negative part
/// only, floored at -size*max_factor_for_liquidations) - all fees at the min collateral price.
pub fn liq_ref(m: &M, p: &VPos<N>, pr: &Prices<N>, validate_min_value: bool, for_liquidation: bool) -> Option<Option<&'static str>> {
    let mut mm = m.clone();
    let mut pp = *p;
    let cfg = m.cfg.clone();
    let ops = VPosOps { market: &mut mm, pos: &mut pp };
    let size = p.size_usd;
    let (pnl, _, _) = ops.pnl_value(pr, &size).ok()?;
    let cprice = if p.is_collateral_long { pr.long_token_price } else { pr.short_token_price };
    let collateral_value = w(p.collateral) * w(cprice.min);
    let sd: S = -(S::try_from(size).ok()?);
    let imp = ops.position_price_impact(&sd, true).ok()?;
    let mut impact = imp.value as i128;
    if impact < 0 {
        let floor = -(w(size) * w(*cfg.position.max_position_impact_factor_for_liquidations()) / w(UNIT));
        if impact < floor {
            impact = floor;
        }
    } else {
        impact = 0;
    }
    let fees = ops.position_fees(&cprice, &size, imp.balance_change, false).ok()?;
    let cost = w(fees.total_cost_amount().ok()?) * w(cprice.min);
    let remaining = collateral_value + pnl as i128 + impact - cost;
    let factor = if for_liquidation { *cfg.position.min_collateral_factor_for_liquidation() } else { *cfg.position.min_collateral_factor() };
    if remaining < 0 {
        return Some(Some(if validate_min_value { "MinCollateral" } else { "NotPositive" }));
    }
    if validate_min_value && remaining < w(*cfg.position.min_collateral_value()) {
        return Some(Some("MinCollateral"));
    }
    if remaining == 0 {
        return Some(Some("NotPositive"));
    }
    if remaining < w(size) * w(factor) / w(UNIT) {
        return Some(Some("MinCollateralForLeverage"));
    }
    Some(None)
}

/// the model's own predicate, rendered like `liq_ref`
pub fn liq_model(m: &M, p: &VPos<N>, pr: &Prices<N>, validate_min_value: bool, for_liquidation: bool) -> Option<Option<&'static str>> {
    use gmsol_model::position::LiquidatableReason as R;
    let mut mm = m.clone();
    let mut pp = *p;
    let r = VPosOps { market: &mut mm, pos: &mut pp }.check_liquidatable(pr, validate_min_value, for_liquidation).ok()?;
    Some(r.map(|r| match r {
        R::MinCollateral => "MinCollateral",
        R::NotPositive => "NotPositive",
        R::MinCollateralForLeverage => "MinCollateralForLeverage",
    }))
}

pub fn update_fees(m: &mut M, prices: &Prices<N>) -> gmsol_model::Result<()> {
    // the order used by the store's RevertibleMarket::update_fees_state
    m.distribute_position_impact()?.execute()?;
    m.update_borrowing(prices)?.execute()?;
    m.update_funding(prices)?.execute()?;
    Ok(())
}

fn tok(p: &VPool<N>, t: usize) -> i128 {
    w(if t == 0 { p.long } else { p.short })
}

/// accounted holdings of pool token t: liquidity + swap impact + claimable fees + collateral
pub fn accounted(m: &M, t: usize) -> i128 {
    tok(&m.primary, t) + tok(&m.swap_impact, t) + tok(&m.fee, t) + tok(&m.collateral_sum[0], t) + tok(&m.collateral_sum[1], t)
}

/// liquidity + swap impact + claimable fees (the holdings a swap can touch)
fn swap_holdings(m: &M, t: usize) -> i128 {
    tok(&m.primary, t) + tok(&m.swap_impact, t) + tok(&m.fee, t)
}

/// what a successful action reported, for the ledger and the C08 expectation
#[derive(Default)]
struct Flow {
    paid_in: [i128; 2],
    paid_out: [i128; 2],
    /// funding fee charged to the position (collateral token), claimable funding paid out
    funding_charged: [i128; 2],
    claimable_out: [i128; 2],
    removed_nonzero: bool,
    touched_slot: Option<usize>,
    was_liquidation: bool,
    liquidatable_before: Option<bool>,
    /// a decrease closed the position with nothing left (no output, no collateral): (fees other than funding in the collateral
    /// token, index of the collateral token, value of one unit of the pnl token in collateral-token units)
    closed_empty: Option<(i128, usize, i128)>,
}

impl Ph {
    fn on(&self, p: u32) -> bool {
        self.props & p != 0
    }

    fn exec(&self, st: &mut St, a: &Act) -> gmsol_model::Result<Flow> {
        let pr = prices(st);
        let mut f = Flow::default();
        match *a {
            Act::Deposit(l, s) => {
                // the store runs RevertibleMarket::update_fees_state before every deposit and withdrawal
                update_fees(&mut st.m, &pr)?;
                let _rep = st.m.deposit(l, s, pr)?.execute()?;
                f.paid_in = [w(l), w(s)];
            }
            Act::Withdraw(k) => {
                let amt = match k {
                    0 => st.m.supply,
                    1 => st.m.supply / 2,
                    _ => 1,
                };
                update_fees(&mut st.m, &pr)?;
                let rep = st.m.withdraw(amt, pr)?.execute()?;
                f.paid_out = [w(*rep.long_token_output()), w(*rep.short_token_output())];
            }
            Act::Swap(is_long_in, amt) => {
                // the store's swap_along_the_path updates the borrowing state of each market before swapping in it
                st.m.update_borrowing(&pr)?.execute()?;
                let rep = st.m.swap(is_long_in, amt, pr)?.execute()?;
                let (i, o) = if is_long_in { (0, 1) } else { (1, 0) };
                f.paid_in[i] = w(amt);
                f.paid_out[o] = w(*rep.token_out_amount());
            }
            Act::Inc(i, c, size) => {
                update_fees(&mut st.m, &pr)?;
                let cl = st.pos[i].is_collateral_long;
                let mut p = st.pos[i];
                let rep = VPosOps { market: &mut st.m, pos: &mut p }.increase(pr, c, size, None)?.execute()?;
                st.pos[i] = p;
                let ct = if cl { 0 } else { 1 };
                f.paid_in[ct] = w(c);
                let (fl, fs) = rep.claimable_funding_amounts();
                f.claimable_out = [w(*fl), w(*fs)];
                f.funding_charged[ct] = w(*rep.fees().funding_fees().amount());
                f.touched_slot = Some(i);
            }
            Act::Dec(i, kind, wd) => {
                update_fees(&mut st.m, &pr)?;
                let mut p = st.pos[i];
                let size = match kind {
                    0 => p.size_usd / 2,
                    1 => p.size_usd,
                    4 => 0,
                    _ => p.size_usd.saturating_add(1),
                };
                let flags = DecreasePositionFlags { is_insolvent_close_allowed: false, is_liquidation_order: false, is_cap_size_delta_usd_allowed: kind == 2 };
                self.decrease(st, &mut p, i, size, wd, flags, &pr, &mut f)?;
            }
            Act::Liq(i) => {
                update_fees(&mut st.m, &pr)?;
                let mut p = st.pos[i];
                // oracle input: was it liquidatable under the liquidation thresholds (after the fee update)?
                if p.size_usd != 0 {
                    let mut mm = st.m.clone();
                    let mut pp = p;
                    f.liquidatable_before = VPosOps { market: &mut mm, pos: &mut pp }.check_liquidatable(&pr, true, true).ok().map(|r| r.is_some());
                }
                let size = p.size_usd;
                let flags = DecreasePositionFlags { is_insolvent_close_allowed: true, is_liquidation_order: true, is_cap_size_delta_usd_allowed: false };
                f.was_liquidation = true;
                self.decrease(st, &mut p, i, size, 0, flags, &pr, &mut f)?;
            }
            Act::Price(lo, hi) => st.price = (lo, hi),
            Act::Adv(dt) => st.m.clocks.now += dt,
            Act::Fees => update_fees(&mut st.m, &pr)?,
            Act::Probe => {}
        }
        Ok(f)
    }

    #[allow(clippy::too_many_arguments)]
    fn decrease(&self, st: &mut St, p: &mut VPos<N>, i: usize, size: N, wd: N, flags: DecreasePositionFlags, pr: &Prices<N>, f: &mut Flow) -> gmsol_model::Result<()> {
        let shortfall0 = st.m.funding_shortfall;
        let rep = VPosOps { market: &mut st.m, pos: p }.decrease(*pr, size, None, wd, flags)?.execute()?;
        st.pos[i] = *p;
        let o = if rep.is_output_token_long() { 0 } else { 1 };
        let s = if rep.is_secondary_output_token_long() { 0 } else { 1 };
        f.paid_out[o] += w(*rep.output_amount());
        f.paid_out[s] += w(*rep.secondary_output_amount());
        for cc in [rep.claimable_collateral_for_holding(), rep.claimable_collateral_for_user()] {
            f.paid_out[o] += w(*cc.output_token_amount());
            f.paid_out[s] += w(*cc.secondary_output_token_amount());
        }
        let (fl, fs) = rep.claimable_funding_amounts();
        f.claimable_out = [w(*fl), w(*fs)];
        // funding actually collected = charged - reported shortfall
        let short = w(st.m.funding_shortfall[o]) - w(shortfall0[o]);
        f.funding_charged[o] = w(*rep.fees().funding_fees().amount()) - short;
        f.touched_slot = Some(i);
        if rep.should_remove() && *rep.output_amount() == 0 && *rep.secondary_output_amount() == 0 && p.collateral == 0 {
            let fees = rep.fees().total_cost_excluding_funding().map(w).unwrap_or(0);
            let (cp, pp) = if o == 0 { (pr.long_token_price.min, if s == 0 { pr.long_token_price.min } else { pr.short_token_price.min }) } else { (pr.short_token_price.min, if s == 0 { pr.long_token_price.min } else { pr.short_token_price.min }) };
            f.closed_empty = Some((fees, o, w(pp) / w(cp).max(1)));
        }
        if rep.should_remove() && (p.size_usd != 0 || p.size_tokens != 0 || p.collateral != 0) {
            f.removed_nonzero = true;
        }
        Ok(())
    }

    /// invariants evaluated on every state
    fn check_state(&self, st: &St, prev: Option<&St>, out: &mut StepOut) {
        let m = &st.m;
        let pr = prices(st);
        if self.on(P09) {
            // the model's liquidation predicate against the independent definition: at the current
            // prices and around the index price at which the definition flips (boundary probe)
            for p in st.pos.iter().filter(|p| p.size_usd != 0) {
                let at = |x: N| Prices { index_token_price: Price { min: x, max: x }, long_token_price: Price { min: x, max: x }, short_token_price: Price { min: 1, max: 1 } };
                let mut points: Vec<Prices<N>> = vec![pr];
                let liq_at = |x: N| liq_ref(m, p, &at(x), true, true).map(|r| r.is_some());
                let (mut lo, mut hi) = (1 as N, st.price.1.saturating_mul(4).max(8));
                if let (Some(a), Some(b)) = (liq_at(lo), liq_at(hi)) {
                    if a != b {
                        while hi - lo > 1 {
                            let mid = lo + (hi - lo) / 2;
                            match liq_at(mid) {
                                Some(v) if v == a => lo = mid,
                                Some(_) => hi = mid,
                                None => break,
                            }
                        }
                        for x in [lo.saturating_sub(1).max(1), lo, hi, hi + 1] {
                            points.push(at(x));
                        }
                    }
                }
                for q in &points {
                    for (vm, fl) in [(true, true), (true, false), (false, true), (false, false)] {
                        out.probe_cases += 1;
                        if let (Some(a), Some(b)) = (liq_model(m, p, q, vm, fl), liq_ref(m, p, q, vm, fl)) {
                            out.probe_nontrivial += 1;
                            if a != b {
                                out.fail("C09/liquidation_predicate_differs_from_definition", format!("position {p:?} at index price {:?} (validate min value {vm}, liquidation thresholds {fl}): model says {a:?}, definition says {b:?}", q.index_token_price));
                            }
                        }
                    }
                }
            }
        }
        if self.on(P07) || self.on(P13) {
            for side in 0..2 {
                let is_long = side == 0;
                let (mut oi, mut oit, mut col) = ([0i128; 2], [0i128; 2], [0i128; 2]);
                let mut tb: i128 = 0;
                for p in &st.pos {
                    if p.is_long != is_long {
                        continue;
                    }
                    let c = if p.is_collateral_long { 0 } else { 1 };
                    oi[c] += w(p.size_usd);
                    oit[c] += w(p.size_tokens);
                    col[c] += w(p.collateral);
                    // floor(size * factor / UNIT) per position, as the implementation telescopes
                    tb += ((mc_core::big::bu(p.size_usd as u128) * mc_core::big::bu(p.borrowing_factor as u128)) / mc_core::big::bu(UNIT as u128)).to_string().parse::<i128>().unwrap_or(i128::MAX);
                }
                if self.on(P07) {
                    if [tok(&m.oi[side], 0), tok(&m.oi[side], 1)] != oi {
                        out.fail("C07/open_interest_usd_mismatch", format!("side {side}: pools {:?} vs sum over positions {:?}", m.oi[side], oi));
                    }
                    if [tok(&m.oi_tokens[side], 0), tok(&m.oi_tokens[side], 1)] != oit {
                        out.fail("C07/open_interest_tokens_mismatch", format!("side {side}: pools {:?} vs sum over positions {:?}", m.oi_tokens[side], oit));
                    }
                    if [tok(&m.collateral_sum[side], 0), tok(&m.collateral_sum[side], 1)] != col {
                        out.fail("C07/collateral_sum_mismatch", format!("side {side}: pools {:?} vs sum over positions {:?}", m.collateral_sum[side], col));
                    }
                }
                if self.on(P13) {
                    let total = tok(&m.total_borrowing, side);
                    // "up to per-position rounding": one unit per open position of that side
                    let npos = st.pos.iter().filter(|p| p.is_long == is_long && p.size_usd != 0).count() as i128;
                    if (total - tb).abs() > npos {
                        out.fail("C13/total_borrowing_mismatch", format!("side {side}: recorded {total} vs sum over positions {tb} (allowed ±{npos})"));
                    }
                    match m.total_pending_borrowing_fees(&pr, is_long) {
                        Ok(_) => {}
                        Err(e) => out.fail("C13/pending_borrowing_fees_fail", format!("side {side}: {e}")),
                    }
                }
            }
        }
        if self.on(P13) {
            if let Some(p) = prev {
                if m.borrowing_factor.long < p.m.borrowing_factor.long || m.borrowing_factor.short < p.m.borrowing_factor.short {
                    out.fail("C13/cumulative_borrowing_factor_decreased", format!("{:?} -> {:?}", p.m.borrowing_factor, m.borrowing_factor));
                }
            }
        }
        if self.on(P12) {
            if let Some(p) = prev {
                for i in 0..2 {
                    for (name, a, b) in [("funding", &p.m.funding_per_size[i], &m.funding_per_size[i]), ("claimable", &p.m.claimable_funding_per_size[i], &m.claimable_funding_per_size[i])] {
                        if b.long < a.long || b.short < a.short {
                            out.fail("C12/funding_index_decreased", format!("{name} amount per size, side {i}: {a:?} -> {b:?}"));
                        }
                    }
                }
            }
            // who pays: the side named by the sign of the funding factor just stored is the one whose fee index may grow, the
            // other side's claimable index is the one that may grow (with c12.rs: the larger side is the one named)
            if let Some(p) = prev {
                use num_traits::Signed as _;
                let payer = if m.funding_factor_per_second.is_positive() { Some(0) } else if m.funding_factor_per_second.is_negative() { Some(1) } else { None };
                if let Some(pay) = payer {
                    for side in 0..2 {
                        let fee_grew = m.funding_per_size[side] != p.m.funding_per_size[side];
                        let claim_grew = m.claimable_funding_per_size[side] != p.m.claimable_funding_per_size[side];
                        if side != pay && fee_grew {
                            out.fail("C12/receiving_side_charged_funding", format!("funding factor {:?} (side {pay} pays): fee index of side {side} moved {:?} -> {:?}", m.funding_factor_per_second, p.m.funding_per_size[side], m.funding_per_size[side]));
                        }
                        if side == pay && claim_grew {
                            out.fail("C12/paying_side_credited_funding", format!("funding factor {:?} (side {pay} pays): claimable index of side {side} moved {:?} -> {:?}", m.funding_factor_per_second, p.m.claimable_funding_per_size[side], m.claimable_funding_per_size[side]));
                        }
                        if fee_grew || claim_grew {
                            out.count("funding_index_movements_checked", 1);
                        }
                    }
                }
            }
            let mut mm = st.m.clone();
            for p in &st.pos {
                if p.size_usd == 0 {
                    continue;
                }
                let mut pp = *p;
                if let Err(e) = (VPosOps { market: &mut mm, pos: &mut pp }).pending_funding_fees() {
                    out.fail("C12/pending_funding_fees_fail", format!("{e} for {p:?}"));
                }
            }
        }
        if self.on(P08) {
            // accrual-complete residual: settled residual + funding owed by open positions - claimable accrued to them
            let mut pend = [0i128; 2];
            let mut computable = true;
            let mut mm = st.m.clone();
            for p in &st.pos {
                if p.size_usd == 0 {
                    continue;
                }
                let mut pp = *p;
                match (VPosOps { market: &mut mm, pos: &mut pp }).pending_funding_fees() {
                    Ok(f) => {
                        pend[if p.is_collateral_long { 0 } else { 1 }] += w(*f.amount());
                        pend[0] -= w(*f.claimable_long_token_amount());
                        pend[1] -= w(*f.claimable_short_token_amount());
                    }
                    Err(_) => computable = false,
                }
            }
            for t in 0..2 {
                let residual = st.ledger[t] - accounted(m, t);
                if residual < 0 && m.insufficient_funding_reports == 0 {
                    if computable && residual + pend[t] >= 0 {
                        out.fail("C08/funding_residual/negative_within_unsettled_accrual", format!("token {t}: collected-minus-claimed funding is {residual}; open positions still owe {} net", pend[t]));
                    } else {
                        out.fail("C08/funding_residual/negative_beyond_unsettled_accrual", format!("token {t}: residual {residual}, net funding still owed by open positions {}", pend[t]));
                    }
                }
            }
        }
    }

    fn probe(&self, st: &St, out: &mut StepOut) {
        let pr = prices(st);
        // ---- C04 / C05: every swap request on this state
        if self.on(P04) || self.on(P05) {
            // an invalid-price request must fail and leave everything untouched
            if self.on(P04) {
                for bad in [Price { min: 0, max: st.price.1 }, Price { min: st.price.0, max: 0 }] {
                    let mut m = st.m.clone();
                    let mut p = pr;
                    p.long_token_price = bad;
                    let r = m.swap(true, 1_000, p).and_then(|a| a.execute());
                    out.probe_cases += 1;
                    let mut a = std::collections::hash_map::DefaultHasher::new();
                    let mut b = std::collections::hash_map::DefaultHasher::new();
                    m.hash_state(&mut a);
                    st.m.hash_state(&mut b);
                    match r {
                        Ok(_) => out.fail("C04/invalid_prices_accepted", format!("swap executed with long token price {bad:?}")),
                        Err(_) if a.finish() != b.finish() => out.fail("C04/failed_swap_changed_pools", format!("swap with invalid price {bad:?} failed but changed the market")),
                        Err(_) => out.count("swap_err_invalid_prices", 1),
                    }
                }
            }
            for is_long_in in [true, false] {
                for &amt in &self.probes.swap_amounts {
                    let mut m = st.m.clone();
                    // (the store updates the borrowing state of a market before swapping in it)
                    let _ = m.update_borrowing(&pr).and_then(|a| a.execute());
                    let before = m.clone();
                    let r = m.swap(is_long_in, amt, pr).and_then(|a| a.execute());
                    out.probe_cases += 1;
                    let (i, o) = if is_long_in { (0, 1) } else { (1, 0) };
                    match r {
                        Ok(rep) => {
                            out.probe_nontrivial += 1;
                            out.count("swap_ok", 1);
                            let din = swap_holdings(&m, i) - swap_holdings(&before, i);
                            let dout = swap_holdings(&m, o) - swap_holdings(&before, o);
                            if self.on(P04) {
                                if din != w(amt) {
                                    out.fail("C04/input_holdings_delta", format!("swap(long_in {is_long_in}, {amt}): holdings of the input token moved by {din}"));
                                }
                                if dout != -w(*rep.token_out_amount()) {
                                    out.fail("C04/output_holdings_delta", format!("swap(long_in {is_long_in}, {amt}): holdings of the output token moved by {dout}, paid out {}", rep.token_out_amount()));
                                }
                                let other = |m: &M| {
                                    let mut h = std::collections::hash_map::DefaultHasher::new();
                                    (m.supply, m.oi, m.oi_tokens, m.position_impact, m.borrowing_factor, m.collateral_sum, m.total_borrowing, m.funding_per_size, m.claimable_funding_per_size).hash(&mut h);
                                    h.finish()
                                };
                                if other(&m) != other(&before) {
                                    out.fail("C04/swap_touched_other_state", format!("swap(long_in {is_long_in}, {amt}) changed non-swap pools"));
                                }
                            }
                            if self.on(P05) {
                                let (pin_min, pout_max) = if is_long_in { (st.price.0, 1) } else { (1, st.price.1) };
                                let imp = |m: &M, t: usize| tok(&m.swap_impact, t);
                                // positive impact actually funded by the impact pools (both tokens)
                                let funded_out = (imp(&before, o) - imp(&m, o)).max(0);
                                let funded_in = (imp(&before, i) - imp(&m, i)).max(0);
                                let lhs = w(*rep.token_out_amount()) * w(pout_max);
                                let rhs = w(amt) * w(pin_min) + funded_out * w(pout_max) + funded_in * w(pin_min);
                                if lhs > rhs {
                                    out.fail("C05/output_value_exceeds_input_plus_funded_impact", format!("swap(long_in {is_long_in}, {amt}) out {} worth {lhs} > in worth {} + funded impact {}", rep.token_out_amount(), w(amt) * w(pin_min), rhs - w(amt) * w(pin_min)));
                                }
                                if *rep.price_impact() > 0 {
                                    out.count("swap_positive_impact", 1);
                                }
                            }
                        }
                        Err(e) => {
                            out.count(swap_err_class(&e), 1);
                            if self.on(P04) {
                                let mut a = std::collections::hash_map::DefaultHasher::new();
                                let mut b = std::collections::hash_map::DefaultHasher::new();
                                m.hash_state(&mut a);
                                before.hash_state(&mut b);
                                if a.finish() != b.finish() {
                                    out.fail("C04/failed_swap_changed_pools", format!("swap(long_in {is_long_in}, {amt}) failed with {e} but changed the market"));
                                }
                            }
                        }
                    }
                }
            }
        }
        // ---- C06: deposit then withdraw everything minted
        if self.on(P06) {
            for &(l, s) in &self.probes.deposits {
                let mut m = st.m.clone();
                out.probe_cases += 1;
                // as the store does before a deposit (pending borrowing fees are materialised at the utilisation that earned them)
                if update_fees(&mut m, &pr).is_err() {
                    out.count("deposit_err", 1);
                    continue;
                }
                let pv0 = m.pool_value(&pr, PnlFactorKind::MaxAfterDeposit, true).ok();
                let s0 = m.supply;
                let imp0 = m.swap_impact;
                let Ok(rep) = m.deposit(l, s, pr).and_then(|a| a.execute()) else {
                    out.count("deposit_err", 1);
                    continue;
                };
                let minted = *rep.minted();
                let pv1 = m.pool_value(&pr, PnlFactorKind::MaxAfterDeposit, true).ok();
                let s1 = m.supply;
                let slack = w(st.price.1) + 1;
                if let (Some(a), Some(b)) = (pv0, pv1) {
                    if s0 > 0 && a > 0 {
                        // value per token must not drop: b/s1 >= a/s0  <=>  a*s1 - b*s0 <= 0 (normalised by s0)
                        let deficit = mc_core::big::bi(a as i128) * mc_core::big::bi(s1 as i128) - mc_core::big::bi(b as i128) * mc_core::big::bi(s0 as i128);
                        if deficit > mc_core::big::bi(slack) * mc_core::big::bi(s0 as i128) {
                            out.fail("C06/deposit_leg_lowers_token_value", format!("deposit ({l},{s}): pool value {a} -> {b}, supply {s0} -> {s1}"));
                        }
                    }
                }
                if s0 == 0 && pv0 == Some(0) {
                    // first deposit into an empty pool: one USD per market token
                    let gross = w(l) * w(st.price.0) + w(s);
                    let div = w(m.cfg.usd_to_amount_divisor);
                    if w(minted) > gross / div {
                        out.fail("C06/first_deposit_overpriced", format!("first deposit ({l},{s}) worth {gross} minted {minted} (> value / {div})"));
                    }
                    out.count("first_deposit", 1);
                }
                if minted == 0 {
                    out.count("deposit_minted_zero", 1);
                    continue;
                }
                if update_fees(&mut m, &pr).is_err() {
                    out.count("withdraw_err", 1);
                    continue;
                }
                let pw0 = m.pool_value(&pr, PnlFactorKind::MaxAfterWithdrawal, false).ok();
                let Ok(wr) = m.withdraw(minted, pr).and_then(|a| a.execute()) else {
                    out.count("withdraw_err", 1);
                    continue;
                };
                let pw1 = m.pool_value(&pr, PnlFactorKind::MaxAfterWithdrawal, false).ok();
                let s2 = m.supply;
                if let (Some(a), Some(b)) = (pw0, pw1) {
                    if s2 > 0 && a > 0 {
                        let deficit = mc_core::big::bi(a as i128) * mc_core::big::bi(s2 as i128) - mc_core::big::bi(b as i128) * mc_core::big::bi(s1 as i128);
                        if deficit > mc_core::big::bi(slack) * mc_core::big::bi(s1 as i128) {
                            out.fail("C06/withdrawal_leg_lowers_token_value", format!("withdraw {minted}: pool value {a} -> {b}, supply {s1} -> {s2}"));
                        }
                    }
                }
                out.probe_nontrivial += 1;
                out.count("lp_round_trip", 1);
                // value in at min prices, value out at max prices
                let vin = w(l) * w(st.price.0) + w(s);
                let vout = w(*wr.long_token_output()) * w(st.price.1) + w(*wr.short_token_output());
                if vout > vin {
                    // positive swap impact the deposit took out of the impact pool (valued at max prices)
                    let imp1 = {
                        let mut mm = st.m.clone();
                        let _ = update_fees(&mut mm, &pr);
                        let _ = mm.deposit(l, s, pr).and_then(|a| a.execute());
                        mm.swap_impact
                    };
                    let funded = (w(imp0.long) - w(imp1.long)).max(0) * w(st.price.1) + (w(imp0.short) - w(imp1.short)).max(0);
                    // plus the min/max price spread on the long leg (valuation, not a transfer)
                    if vout - vin <= funded {
                        out.fail("C06/round_trip_gain_within_positive_swap_impact", format!("deposit ({l},{s}) then withdraw {minted}: in {vin}, out {vout}, positive impact debited from the impact pool {funded}"));
                    } else {
                        out.fail("C06/round_trip_gain_beyond_positive_swap_impact", format!("deposit ({l},{s}) then withdraw {minted}: in {vin}, out {vout}, impact pool debit only {funded}"));
                    }
                }
            }
        }
        // ---- C10 (+ C09 after open): open a fresh position and close it at once
        if self.on(P10) || self.on(P09) {
            for (is_long, cl) in [(true, true), (true, false), (false, true), (false, false)] {
                for &(col, size) in &self.probes.opens {
                    let mut m = st.m.clone();
                    out.probe_cases += 1;
                    if update_fees(&mut m, &pr).is_err() {
                        continue;
                    }
                    let mut p = VPos { is_long, is_collateral_long: cl, ..Default::default() };
                    let Ok(_ri) = VPosOps { market: &mut m, pos: &mut p }.increase(pr, col, size, None).and_then(|a| a.execute()) else {
                        out.count("open_err", 1);
                        continue;
                    };
                    if self.on(P09) {
                        let mut mm = m.clone();
                        let mut pp = p;
                        if let Ok(Some(reason)) = (VPosOps { market: &mut mm, pos: &mut pp }).check_liquidatable(&pr, true, true) {
                            out.fail("C09/liquidatable_after_increase", format!("fresh position long {is_long} collateral-long {cl} ({col},{size}) is liquidatable right after the increase: {reason:?}"));
                        }
                    }
                    let size_all = p.size_usd;
                    let Ok(rd) = VPosOps { market: &mut m, pos: &mut p }.decrease(pr, size_all, None, 0, DecreasePositionFlags::default()).and_then(|a| a.execute()) else {
                        out.count("close_err", 1);
                        continue;
                    };
                    out.probe_nontrivial += 1;
                    out.count("open_close", 1);
                    if self.on(P10) {
                        // everything valued at the max price (most favourable to the trader) against collateral at the min price
                        let pmax = |long: bool| if long { w(st.price.1) } else { 1 };
                        let pmin = |long: bool| if long { w(st.price.0) } else { 1 };
                        let (ol, sl) = (rd.is_output_token_long(), rd.is_secondary_output_token_long());
                        let mut vout = w(*rd.output_amount()) * pmax(ol) + w(*rd.secondary_output_amount()) * pmax(sl);
                        for cc in [rd.claimable_collateral_for_holding(), rd.claimable_collateral_for_user()] {
                            vout += w(*cc.output_token_amount()) * pmax(ol) + w(*cc.secondary_output_token_amount()) * pmax(sl);
                        }
                        let (fl, fs) = rd.claimable_funding_amounts();
                        vout += w(*fl) * pmax(true) + w(*fs);
                        let vin = w(col) * pmin(cl);
                        // one base unit of the collateral token per operation
                        let budget = 2 * pmax(cl);
                        if st.price.0 == st.price.1 && vout > vin + budget {
                            out.fail("C10/open_close_profit", format!("long {is_long} collateral-long {cl}: collateral {col} (value {vin}) size {size} -> received value {vout}"));
                        }
                        if p.size_usd != 0 || p.collateral != 0 || p.size_tokens != 0 {
                            out.fail("C10/full_close_left_residue", format!("{p:?}"));
                        }
                    }
                }
            }
        }
    }
}

fn swap_err_class(e: &gmsol_model::Error) -> &'static str {
    use gmsol_model::Error as E;
    match e {
        E::EmptySwap => "swap_err_empty",
        E::InvalidPrices => "swap_err_invalid_prices",
        E::InsufficientFundsToPayForCosts(_) => "swap_err_insufficient_funds",
        E::MaxPoolAmountExceeded(_) => "swap_err_max_pool_amount",
        E::InsufficientReserve(..) => "swap_err_reserve",
        E::PnlFactorExceeded(..) => "swap_err_pnl_factor",
        E::Computation(_) => "swap_err_computation",
        E::Overflow => "swap_err_overflow",
        _ => "swap_err_other",
    }
}

impl Machine for Ph {
    type State = St;
    type Action = Act;

    fn actions(&self) -> &[Act] {
        &self.acts
    }

    fn key(&self, s: &St) -> u128 {
        struct K<'a>(&'a St);
        impl Hash for K<'_> {
            fn hash<H: Hasher>(&self, h: &mut H) {
                self.0.m.hash_state(h);
                self.0.pos.hash(h);
                self.0.price.hash(h);
                self.0.ledger.hash(h);
            }
        }
        mc_core::hash128(&K(s))
    }

    fn check_start(&self, s: &St, out: &mut StepOut) {
        self.check_state(s, None, out);
    }

    fn step(&self, s: &St, a: &Act, out: &mut StepOut) -> St {
        if let Act::Probe = a {
            self.probe(s, out);
            out.label = "probe";
            out.prune = true;
            return s.clone();
        }
        let mut n = s.clone();
        match self.exec(&mut n, a) {
            Ok(f) => {
                out.label = "ok";
                for t in 0..2 {
                    n.ledger[t] += f.paid_in[t] - f.paid_out[t] - f.claimable_out[t];
                }
                if self.on(P07) && f.removed_nonzero {
                    out.fail("C07/removed_position_not_empty", format!("{a:?}: report says remove, position is {:?}", f.touched_slot.map(|i| n.pos[i])));
                }
                if self.on(P08) {
                    for t in 0..2 {
                        let d_res = (n.ledger[t] - accounted(&n.m, t)) - (s.ledger[t] - accounted(&s.m, t));
                        let expect = f.funding_charged[t] - f.claimable_out[t];
                        if d_res != expect {
                            // a close whose last costs are worth less than one unit of the pnl token: the remaining cost is converted into pnl
                            // tokens rounding down, becomes zero and counts as paid, and the fees (other than funding) are credited to the pool
                            // and the fee receiver in full although the collateral no longer covered them
                            let rounded_away = matches!(f.closed_empty, Some((fees, ct, unit)) if ct == t && d_res < expect && expect - d_res <= fees && expect - d_res < unit);
                            let key = if rounded_away { "C08/holdings_not_conserved/uncollected_fees_credited_when_the_remaining_cost_is_below_one_pnl_token_unit" } else { "C08/holdings_not_conserved" };
                            out.fail(key, format!("{a:?}: token {t}: paid in {} out {} claimable funding out {}, accounted holdings moved by {}, funding collected {} => unexplained {}", f.paid_in[t], f.paid_out[t], f.claimable_out[t], accounted(&n.m, t) - accounted(&s.m, t), f.funding_charged[t], d_res - expect));
                        }
                    }
                }
                if self.on(P09) {
                    if let Some(i) = f.touched_slot {
                        let p = n.pos[i];
                        if f.was_liquidation {
                            if f.liquidatable_before == Some(false) {
                                out.fail("C09/liquidated_healthy_position", format!("{a:?} succeeded on a position that was not liquidatable"));
                            }
                            if p.size_usd != 0 || p.size_tokens != 0 || p.collateral != 0 {
                                out.fail("C09/liquidation_left_position_open", format!("{a:?}: {p:?}"));
                            }
                        } else if p.size_usd != 0 {
                            let pr = prices(&n);
                            let mut mm = n.m.clone();
                            let mut pp = p;
                            if let Ok(Some(reason)) = (VPosOps { market: &mut mm, pos: &mut pp }).check_liquidatable(&pr, true, true) {
                                let key = if matches!(a, Act::Inc(..)) {
                                    "C09/liquidatable_after_increase"
                                } else {
                                    // a decrease does not validate the absolute minimum collateral value (as in GMX);
                                    // distinguish that class from positions that fail the leverage / solvency tests
                                    let weak = (VPosOps { market: &mut mm, pos: &mut pp }).check_liquidatable(&pr, false, true);
                                    if matches!(weak, Ok(None)) { "C09/liquidatable_after_decrease/below_min_collateral_value_only" } else { "C09/liquidatable_after_decrease" }
                                };
                                out.fail(key, format!("{a:?} left {p:?} liquidatable: {reason:?}"));
                            }
                        }
                    }
                }
            }
            Err(e) => {
                // on chain every action runs in a revertible market that is dropped on error
                n = s.clone();
                out.label = "err";
                let _ = e;
            }
        }
        self.check_state(&n, Some(s), out);
        n
    }
}
