//! Perp-history explorer instantiations and the drivers of C04–C10, C12, C13.
use gmsol_model::params::{
    fee::{BorrowingFeeKinkModelParamsForOneSide, BorrowingFeeParams, FundingFeeParams, LiquidationFeeParams},
    FeeParams, PositionParams, PriceImpactParams,
};
use mc_core::{e2, json, Cli, Report};

use crate::cfgs;
use crate::vmarket::*;

pub mod d4 {
    pub type N = u64;
    #[allow(dead_code)]
    pub type S = i64;
    pub const D: u8 = 4;
    pub const UNIT: N = 10_000;
    include!("ph_body.rs");
}

use d4::{Act, Ph, Probes, St};

const U: u64 = 10_000;

/// configuration family K (index is recorded in replay files)
pub fn config(k: usize, scale: usize) -> (&'static str, VConfig<u64>) {
    let mut c = cfgs::base_u64_d4();
    // the calibrated default-like parameters of the design prototype
    c.swap_impact = PriceImpactParams::builder().exponent(2 * U).positive_factor(1).negative_factor(2).build();
    c.position_impact = PriceImpactParams::builder().exponent(2 * U).positive_factor(1).negative_factor(2).build();
    c.swap_fee = FeeParams::builder().fee_receiver_factor(3700).positive_impact_fee_factor(5).negative_impact_fee_factor(7).build();
    c.order_fee = FeeParams::builder().fee_receiver_factor(3700).positive_impact_fee_factor(5).negative_impact_fee_factor(7).build();
    c.position = PositionParams::new(U, U, 100, 50, 50, 25);
    c.borrowing = BorrowingFeeParams::builder().receiver_factor(3700).factor_for_long(1).factor_for_short(1).exponent_for_long(U).exponent_for_short(U).build();
    c.funding = FundingFeeParams::builder().exponent(U).funding_factor(2).max_factor_per_second(10).min_factor_per_second(1).increase_factor_per_second(1).decrease_factor_per_second(0).threshold_for_stable_funding(500).threshold_for_decrease_funding(0).build();
    c.liquidation = LiquidationFeeParams::builder().factor(20).receiver_factor(3700).build();
    c.max_pool_amount = 1_000_000_000_000;
    c.max_pool_value_for_deposit = u64::MAX;
    c.max_open_interest = u64::MAX;
    let name = match k {
        0 => "default-like (adaptive funding, exponent borrowing)",
        1 => {
            c.swap_impact = PriceImpactParams::builder().exponent(U).positive_factor(0).negative_factor(0).build();
            c.position_impact = PriceImpactParams::builder().exponent(U).positive_factor(0).negative_factor(0).build();
            c.swap_fee = FeeParams::builder().fee_receiver_factor(0).positive_impact_fee_factor(0).negative_impact_fee_factor(0).build();
            c.order_fee = FeeParams::builder().fee_receiver_factor(0).positive_impact_fee_factor(0).negative_impact_fee_factor(0).build();
            c.liquidation = LiquidationFeeParams::builder().factor(0).receiver_factor(0).build();
            "zero fees, zero impact"
        }
        2 => {
            c.swap_fee = FeeParams::builder().fee_receiver_factor(U).positive_impact_fee_factor(30).negative_impact_fee_factor(50).build();
            c.order_fee = FeeParams::builder().fee_receiver_factor(U).positive_impact_fee_factor(30).negative_impact_fee_factor(50).build();
            c.borrowing = BorrowingFeeParams::builder().receiver_factor(U).factor_for_long(3).factor_for_short(2).exponent_for_long(U).exponent_for_short(U).build();
            c.liquidation = LiquidationFeeParams::builder().factor(20).receiver_factor(U).build();
            // the liquidation threshold (1%) lies far below the threshold for opening and keeping a position (15%):
            // the price moves of the alphabet leave positions between the two
            c.position = PositionParams::builder().min_position_size_usd(U).min_collateral_value(U).min_collateral_factor(1_500).min_collateral_factor_for_liquidation(Some(100)).max_positive_position_impact_factor(50).max_negative_position_impact_factor(50).max_position_impact_factor_for_liquidations(25).build();
            "100% receiver factors, larger fees, liquidation threshold far below the minimum collateral factor"
        }
        3 => {
            c.swap_impact = PriceImpactParams::builder().exponent(2 * U).positive_factor(5).negative_factor(2).build();
            c.position_impact = PriceImpactParams::builder().exponent(2 * U).positive_factor(5).negative_factor(2).build();
            c.position = PositionParams::new(U, U, 100, 2_000, 2_000, 1_000);
            // a discount on the swap fees (the shared fee path with a discount configured)
            c.swap_fee = c.swap_fee.with_discount_factor(2_000);
            "positive impact factor above negative, wide impact caps, 20% discount on swap fees"
        }
        4 => {
            c.funding = FundingFeeParams::builder().exponent(U).funding_factor(40).max_factor_per_second(30).min_factor_per_second(0).increase_factor_per_second(0).decrease_factor_per_second(0).threshold_for_stable_funding(0).threshold_for_decrease_funding(0).build();
            "fallback (non-adaptive) funding, strong factor"
        }
        5 => {
            c.kink = BorrowingFeeKinkModelParamsForOneSide::builder().optimal_usage_factor(7_500).base_borrowing_factor(2).above_optimal_usage_borrowing_factor(9).build();
            c.funding = FundingFeeParams::builder().exponent(U).funding_factor(2).max_factor_per_second(12).min_factor_per_second(2).increase_factor_per_second(3).decrease_factor_per_second(2).threshold_for_stable_funding(2_000).threshold_for_decrease_funding(1_000).build();
            "kink borrowing model, funding with decrease threshold"
        }
        6 => {
            c.position = PositionParams::new(1, 1, 1, 50, 50, 25);
            "tiny min position size / min collateral value / min collateral factor"
        }
        7 => {
            c.max_pool_amount = if scale == 0 { 12_060_000 } else { 900_060_000 };
            c.reserve_factor = 2_000;
            c.oi_reserve_factor = 1_500;
            c.max_pnl_deposit = 1_000;
            c.max_pnl_withdrawal = 500;
            c.max_pnl_trader = 1_000;
            "tight max pool amount, reserve and pnl factors"
        }
        8 => {
            // the factor above the optimal usage is *below* the base factor (no additional slope), and the optimal usage is low
            // enough to be exceeded by the positions of the alphabet
            c.kink = BorrowingFeeKinkModelParamsForOneSide::builder().optimal_usage_factor(500).base_borrowing_factor(4).above_optimal_usage_borrowing_factor(1).build();
            "kink borrowing model with the above-optimal factor below the base factor, low optimal usage"
        }
        9 => {
            // no fees at all, symmetric position impact: whatever an open pays as negative impact can come back as positive
            // impact on the close, so only the rounding of the impact amounts decides who gains
            c.swap_fee = FeeParams::builder().fee_receiver_factor(0).positive_impact_fee_factor(0).negative_impact_fee_factor(0).build();
            c.order_fee = FeeParams::builder().fee_receiver_factor(0).positive_impact_fee_factor(0).negative_impact_fee_factor(0).build();
            c.liquidation = LiquidationFeeParams::builder().factor(0).receiver_factor(0).build();
            c.position_impact = PriceImpactParams::builder().exponent(U).positive_factor(3).negative_factor(3).build();
            c.position = PositionParams::new(U, U, 100, 2_000, 2_000, 1_000);
            "zero fees, symmetric position impact, wide impact caps"
        }
        _ => unreachable!(),
    };
    (name, c)
}

pub const N_CONFIGS: usize = 10;

/// (actions, probes, start states) for a scale: 0 = realistic amounts, 1 = tiny token amounts
fn world(k: usize, scale: usize, thorough: bool, extra: &[u128]) -> (Vec<Act>, Probes, Vec<St>) {
    let (_, c) = config(k, scale);
    let slots = |n: usize| -> Vec<VPos<u64>> {
        // long / long-token collateral, long / short-token collateral, short / short-token collateral, short / long-token collateral
        let kinds = [(true, true), (true, false), (false, false), (false, true), (true, true)];
        kinds[..n].iter().map(|&(l, cl)| VPos { is_long: l, is_collateral_long: cl, ..Default::default() }).collect()
    };
    let npos = if thorough { 4 } else { 3 };
    let empty = St { m: d4::M::new(c), pos: slots(npos), price: (12, 12), ledger: [0; 2] };
    let e = |i: usize, lo: u64, hi: u64| -> u64 { extra.get(i).map(|v| lo + (*v % (hi - lo) as u128) as u64).unwrap_or(lo) };
    if scale == 0 {
        let mut acts = vec![
            Act::Deposit(10_000, 0),
            Act::Deposit(0, 50_000),
            Act::Withdraw(1),
            Act::Withdraw(2),
            Act::Swap(true, 20_000),
            Act::Swap(false, 100_000),
            Act::Inc(0, 10_000, 500_000),
            Act::Inc(0, 0, 200_000),
            Act::Inc(0, 5_000, 0),
            Act::Inc(1, 360_000, 2_000_000),
            Act::Inc(2, 200_000, 1_000_000),
            Act::Dec(0, 0, 0),
            Act::Dec(0, 1, 0),
            Act::Dec(1, 2, 100),
            Act::Dec(1, 3, 0),
            Act::Dec(2, 0, 1_000),
            Act::Dec(2, 1, 0),
            Act::Dec(2, 4, 1_000),
            Act::Liq(0),
            Act::Liq(1),
            Act::Liq(2),
            Act::Price(8, 8),
            Act::Price(12, 12),
            Act::Price(15, 15),
            Act::Price(11, 13),
            Act::Adv(1),
            Act::Adv(3600),
            Act::Fees,
            Act::Probe,
        ];
        if thorough {
            acts.extend([Act::Price(7, 9), Act::Inc(3, 40_000, 300_000), Act::Dec(3, 1, 0), Act::Liq(3), Act::Inc(1, e(0, 12_000, 720_000), e(1, 100_000, 3_000_000))]);
        }
        let probes = Probes {
            swap_amounts: vec![0, 1, 10, 1_000, 20_000, 1_000_000, 100_000_000, e(2, 2, 5_000_000)],
            deposits: vec![(1_000, 0), (0, 50_000), (777, 9_999), (1, 0), (0, 1), (100_000, 0), (e(3, 2, 200_000), e(4, 2, 2_000_000))],
            opens: vec![(10_000, 500_000), (10, 10_000), (100_000, 1_000_000), (5, 20_000), (30_000, 15_000), (200_000, 1_000_000)],
        };
        let mut seeded = empty.clone();
        seed(&mut seeded, 1_000_000, 12_000_000);
        (acts, probes, vec![seeded, empty])
    } else {
        // tiny-token scale: index price 0.9 USD per unit, sizes of 1-2 USD => 1-2 tokens
        let mut acts = vec![
            Act::Deposit(1_000, 0),
            Act::Deposit(0, 50_000),
            Act::Withdraw(1),
            Act::Swap(true, 10),
            Act::Swap(false, 100_000),
            Act::Inc(0, 10, 10_000),
            Act::Inc(0, 0, 10_000),
            Act::Inc(1, 18_000, 0),
            Act::Inc(1, 45_000, 20_000),
            Act::Inc(2, 30_000, 15_000),
            Act::Dec(0, 0, 0),
            Act::Dec(0, 1, 0),
            Act::Dec(1, 0, 1),
            Act::Dec(1, 2, 0),
            Act::Dec(2, 0, 100),
            Act::Dec(2, 1, 0),
            Act::Dec(2, 4, 50),
            Act::Liq(0),
            Act::Liq(1),
            Act::Liq(2),
            Act::Price(6_000, 6_000),
            Act::Price(9_000, 9_000),
            Act::Price(12_000, 12_000),
            Act::Price(8_900, 9_100),
            Act::Adv(1),
            Act::Adv(3600),
            Act::Fees,
            Act::Probe,
        ];
        if thorough {
            acts.extend([Act::Price(5_900, 6_100), Act::Inc(3, 3, 10_000), Act::Dec(3, 0, 0), Act::Liq(3)]);
        }
        let probes = Probes {
            swap_amounts: vec![0, 1, 2, 10, 111, 100_000, 5_000_000],
            deposits: vec![(1, 0), (0, 1), (3, 20_000), (1_000, 0), (0, 50_000), (e(3, 1, 500), e(4, 1, 100_000))],
            opens: vec![(10, 10_000), (5, 20_000), (3, 10_001), (30_000, 15_000), (2, 9_999), (100, 30_000)],
        };
        let mut seeded = empty.clone();
        seeded.price = (9_000, 9_000);
        seed(&mut seeded, 100_000, 900_000_000);
        let mut empty = empty;
        empty.price = (9_000, 9_000);
        (acts, probes, vec![seeded, empty])
    }
}

fn seed(st: &mut St, l: u64, s: u64) {
    use gmsol_model::{LiquidityMarketMutExt, MarketAction};
    let pr = d4::prices(st);
    st.m.deposit(l, s, pr).and_then(|a| a.execute()).expect("seeding deposit");
    st.ledger = [l as i128, s as i128];
}

fn props_of(id: &str) -> u32 {
    match id {
        "C04" => d4::P04,
        "C05" => d4::P05,
        "C06" => d4::P06,
        "C07" => d4::P07,
        "C08" => d4::P08,
        "C09" => d4::P09,
        "C10" => d4::P10,
        "C12" => d4::P12,
        "C13" => d4::P13,
        _ => 0,
    }
}

pub fn run(cli: &Cli) -> Report {
    let mut rep = Report::new(cli, "model_checking");
    let props = props_of(&cli.property);
    rep.rule("E2: breadth-first exploration of every sequence of market actions (deposit, withdraw, swap, increase/decrease/liquidate on colliding position slots, index price moves, clock advances, fee-state updates) from a seeded and an empty market, for 8 parameter configurations x 2 amount scales, executing the real gmsol-model code on harness storage at the tiny fixed-point scale UNIT=10^4; failed actions are rolled back (as the store's revertible market does); states are merged on the full dynamic state + shadow ledger; the per-state probe action evaluates swaps / LP round trips / open-close round trips on every expanded state");
    rep.assume("VMarket (harness storage implementing the public model traits) is trusted; long token = index token, short token is a unit-price stable");
    let thorough = cli.tier.thorough();
    let extra = cli.extras(7, 6, 0, u64::MAX as u128);
    let probe_heavy = props & (d4::P04 | d4::P05 | d4::P06 | d4::P10) != 0;
    let depth = match (thorough, probe_heavy) {
        (false, false) => 5,
        (false, true) => 4,
        (true, false) => 6,
        (true, true) => 5,
    };
    if let Some(rv) = &cli.replay {
        let k = rv["ctx"]["config"].as_u64().unwrap_or(0) as usize;
        let scale = rv["ctx"]["scale"].as_u64().unwrap_or(0) as usize;
        let th = rv["ctx"]["thorough"].as_bool().unwrap_or(false);
        let ex: Vec<u128> = rv["ctx"]["extra"].as_array().map(|a| a.iter().filter_map(|v| v.as_str().and_then(|s| s.parse().ok())).collect()).unwrap_or_default();
        let (acts, probes, starts) = world(k, scale, th, &ex);
        let ph = Ph { acts, props, probes };
        e2::replay_into(&mut rep, &ph, &starts, rv);
        return rep;
    }
    for k in 0..N_CONFIGS {
        for scale in 0..2 {
            let (acts, probes, starts) = world(k, scale, thorough, &extra);
            let ph = Ph { acts, props, probes };
            let name = format!("K{k} [{}] scale {}", config(k, scale).0, if scale == 0 { "realistic" } else { "tiny-token" });
            let ctx = json!({"config": k, "scale": scale, "thorough": thorough, "extra": extra.iter().map(|v| v.to_string()).collect::<Vec<_>>()});
            e2::explore(&mut rep, &name, &ph, starts, &e2::Config { depth, max_states: 40_000_000 }, ctx);
        }
    }
    rep
}
