//! C03 — price impact sign, round trips, virtual inventory (E1).
use gmsol_model::{
    params::PriceImpactParams,
    pool::delta::BalanceChange,
    BalanceExt, PositionExt, SwapMarketExt,
};
use mc_core::{alpha, e1, json, Cli, Report, Value};

use crate::c01::{md_floor, Ex};
use crate::cfgs;
use crate::vmarket::*;

/// reference of `utils::apply_factors` for whole-unit exponents (iterated floor)
fn ref_apply_factors(v: u128, factor: u128, exp_units: u32, unit: u128) -> Option<u128> {
    let fl = |a: u128, b: u128| match md_floor(a, b, unit) {
        Some(Ex::V(x)) => Some(x),
        _ => None,
    };
    let p = if v < unit {
        0
    } else if v == unit || exp_units == 0 {
        unit
    } else {
        let mut acc = unit;
        for _ in 0..exp_units {
            acc = fl(acc, v)?;
        }
        acc
    };
    fl(p, factor)
}

#[derive(Clone, Copy, PartialEq, Eq, Debug)]
enum Bc {
    Improved,
    Worsened,
    Unchanged,
}

fn bc_of(b: BalanceChange) -> Bc {
    match b {
        BalanceChange::Improved => Bc::Improved,
        BalanceChange::Worsened => Bc::Worsened,
        BalanceChange::Unchanged => Bc::Unchanged,
    }
}

/// reference impact for usd values (l0,s0) -> (l1,s1): (value, change, same_side)
fn ref_impact(l0: u128, s0: u128, l1: u128, s1: u128, p: u128, n: u128, exp_units: u32, unit: u128) -> Option<(i128, Bc, bool)> {
    let initial = l0.abs_diff(s0);
    let next = l1.abs_diff(s1);
    let (pa, na) = if p > n { (n, n) } else { (p, n) };
    let bc = if next == initial {
        Bc::Unchanged
    } else if next > initial {
        Bc::Worsened
    } else {
        Bc::Improved
    };
    let same = (l0 <= s0) == (l1 <= s1);
    let v = if same {
        let f = if next < initial { pa } else { na };
        let a = ref_apply_factors(initial, f, exp_units, unit)?;
        let b = ref_apply_factors(next, f, exp_units, unit)?;
        let d = i128::try_from(a.abs_diff(b)).ok()?;
        if next < initial {
            d
        } else {
            -d
        }
    } else {
        let a = ref_apply_factors(initial, pa, exp_units, unit)?;
        let b = ref_apply_factors(next, na, exp_units, unit)?;
        i128::try_from(a).ok()? - i128::try_from(b).ok()?
    };
    Some((v, bc, same))
}

macro_rules! c03_for {
    ($fname:ident, $one:ident, $T:ty, $S:ty, $D:expr) => {
        /// one (pool, delta, params) case: forward impact, reverse impact, sign and round-trip checks
        #[allow(clippy::too_many_arguments)]
        fn $one(sink: &mut e1::Sink, l0: u128, s0: u128, dl: i128, ds: i128, p: u128, n: u128, e: u32) {
            const UNIT: u128 = 10u128.pow($D as u32);
            let (Some(l1), Some(s1)) = (l0.checked_add_signed(dl), s0.checked_add_signed(ds)) else { return };
            if l1 > <$T>::MAX as u128 || s1 > <$T>::MAX as u128 {
                return;
            }
            let params = PriceImpactParams::<$T>::builder().exponent((e as u128 * UNIT) as $T).positive_factor(p as $T).negative_factor(n as $T).build();
            let pool0 = VPool::<$T> { long: l0 as $T, short: s0 as $T };
            let pool1 = VPool::<$T> { long: l1 as $T, short: s1 as $T };
            let one: $T = 1;
            let fwd = pool0.pool_delta_with_values(dl as $S, ds as $S, &one, &one).and_then(|d| d.price_impact::<$D>(&params));
            let rp = || json!({"T": stringify!($T), "l0": l0.to_string(), "s0": s0.to_string(), "dl": dl.to_string(), "ds": ds.to_string(), "p": p.to_string(), "n": n.to_string(), "e": e});
            sink.case(fwd.is_ok());
            let want = ref_impact(l0, s0, l1, s1, p, n, e, UNIT);
            let Ok(fwd) = fwd else {
                if want.is_some() {
                    sink.count("obs:failed_though_reference_computes");
                }
                return;
            };
            let v = fwd.value as i128;
            let bc = bc_of(fwd.balance_change);
            let same = (l0 <= s0) == (l1 <= s1);
            match want {
                Some((wv, wbc, _)) if wv == v && wbc == bc => {}
                // the formula itself is not part of the statement: a deviation is an observation only
                _ => sink.count("obs:value_differs_from_gmx_formula"),
            }
            // (a) sign versus classification
            match bc {
                Bc::Worsened if v > 0 => sink.fail_with("C03/sign/worsened_positive", || (format!("a worsening change got impact +{v}"), rp())),
                // the statement is silent about changes that leave |imbalance| equal (mirror cross-overs)
                Bc::Unchanged if v != 0 => sink.count("obs:unchanged_imbalance_nonzero_impact"),
                Bc::Improved if v < 0 => {
                    if same {
                        sink.fail_with("C03/sign/improved_negative_same_side", || (format!("an improving same-side change got impact {v}"), rp()))
                    } else {
                        sink.fail_with("C03/sign/improved_negative_cross_over", || (format!("cross-over change classified Improved got impact {v}"), rp()))
                    }
                }
                _ => {}
            }
            // (b) round trip: apply the exact reverse on the resulting pool
            let rev = pool1.pool_delta_with_values((-dl) as $S, (-ds) as $S, &one, &one).and_then(|d| d.price_impact::<$D>(&params));
            if let Ok(rev) = rev {
                let total = v + rev.value as i128;
                if total > 0 {
                    let key = match (total, same) {
                        (1, true) => "C03/round_trip/same_side_rounding_gain_1",
                        (2, true) => "C03/round_trip/same_side_rounding_gain_2",
                        (1, false) => "C03/round_trip/cross_over_rounding_gain_1",
                        (2, false) => "C03/round_trip/cross_over_rounding_gain_2",
                        _ => "C03/round_trip/gain_above_rounding",
                    };
                    sink.fail_with(key, || (format!("forward impact {v} + reverse impact {} = +{total}", rev.value), rp()));
                }
                sink.count(if total > 0 { "round_trip_total_positive" } else if total == 0 { "round_trip_total_zero" } else { "round_trip_total_negative" });
            }
            sink.sample(rp);
        }

        fn $fname(rep: &mut Report, name: &str, sides: &[u128], deltas: &[i128], factors: &[u128], exps: &[u32]) {
            e1::run(rep, name, sides, |&l0, sink| {
                for &s0 in sides {
                    for &dl in deltas {
                        for &ds in deltas {
                            if dl == 0 && ds == 0 {
                                continue;
                            }
                            for &p in factors {
                                for &n in factors {
                                    for &e in exps {
                                        $one(sink, l0, s0, dl, ds, p, n, e);
                                    }
                                }
                            }
                        }
                    }
                }
            });
        }
    };
}

c03_for!(run_u64_d2, one_u64_d2, u64, i64, 2);
c03_for!(run_u128_d20, one_u128_d20, u128, i128, 20);

/// swap impact with a virtual inventory: min(real, virtual) only when the real impact is negative
fn virtual_inventory_swaps(rep: &mut Report, cli: &Cli) {
    let sides: Vec<u128> = (0..=cli.tier.pick(8u128, 14)).map(|k| k * 150).collect();
    let deltas: Vec<i128> = vec![-600, -300, -150, 150, 300, 600];
    e1::run(rep, "swap_impact_value with virtual inventory (u64/D2)", &sides, |&l0, sink| {
        for &s0 in &sides {
            for &vl in &sides {
                for &vs in &sides {
                    for &d in &deltas {
                        // a swap moves value from one side to the other
                        let (dl, ds) = (d, -d);
                        let mut c = cfgs::base_u64_d2();
                        c.swap_impact = PriceImpactParams::builder().exponent(200).positive_factor(5).negative_factor(10).build();
                        let params = c.swap_impact;
                        let mut m = VMarket::<u64, 2>::new(c);
                        m.primary = VPool { long: l0 as u64, short: s0 as u64 };
                        m.vi_swaps = Some(VPool { long: vl as u64, short: vs as u64 });
                        let Ok(delta) = m.primary.pool_delta_with_values(dl as i64, ds as i64, &1, &1) else { continue };
                        for include in [true, false] {
                            let got = m.swap_impact_value(&delta, include);
                            sink.case(got.is_ok());
                            let real = delta.price_impact::<2>(&params);
                            let virt = m.vi_swaps.as_ref().unwrap().pool_delta_with_values(dl as i64, ds as i64, &1, &1).and_then(|d| d.price_impact::<2>(&params));
                            let rp = || json!({"fn": "vi_swaps", "l0": l0, "s0": s0, "vl": vl, "vs": vs, "d": d, "include": include});
                            let Ok(real) = real else { continue };
                            let want: Option<i64> = if real.value >= 0 || !include {
                                Some(real.value)
                            } else {
                                match &virt {
                                    Ok(v) => Some(v.value.min(real.value)),
                                    Err(_) => None,
                                }
                            };
                            match (got, want) {
                                (Ok(g), Some(w)) if g.value == w => {
                                    sink.count(if w != real.value { "virtual_binds" } else { "real_binds" });
                                }
                                (Err(_), None) => {}
                                _ => sink.count("obs:virtual_inventory_choice_differs"),
                            }
                            // statement-level: classification is by the real pool; a worsening change never gets a positive impact
                            if let Ok(g) = m.swap_impact_value(&delta, include) {
                                match bc_of(real.balance_change) {
                                    Bc::Worsened if g.value > 0 => sink.fail_with("C03/sign/worsened_positive", || (format!("swap impact +{} on a worsening change (virtual inventory present)", g.value), rp())),
                                    Bc::Improved if g.value < 0 && real.value >= 0 => sink.fail_with("C03/sign/improved_negative_same_side", || (format!("swap impact {} on an improving change whose real impact is {}", g.value, real.value), rp())),
                                    _ => {}
                                }
                            }
                        }
                    }
                }
            }
        }
    });
}

/// position impact: sign classes on the open-interest imbalance and the virtual-inventory rule
fn position_impact(rep: &mut Report, cli: &Cli) {
    let sides: Vec<u128> = (0..=cli.tier.pick(7u128, 12)).map(|k| k * 170).collect();
    let sizes: Vec<i64> = vec![-680, -340, -170, 170, 340, 680];
    e1::run(rep, "position_price_impact (u64/D2)", &sides, |&lo, sink| {
        for &so in &sides {
            for vi in [None, Some((0u64, 0u64)), Some((500, 0)), Some((0, 500)), Some((900, 300))] {
                for is_long in [true, false] {
                    for &size in &sizes {
                        for (p, n) in [(5u64, 10u64), (10, 5), (0, 10), (7, 7)] {
                            let mut c = cfgs::base_u64_d2();
                            c.position_impact = PriceImpactParams::builder().exponent(200).positive_factor(p).negative_factor(n).build();
                            let mut m = VMarket::<u64, 2>::new(c);
                            // split each side's open interest over both collateral pools to exercise the merge
                            m.oi[0] = VPool { long: (lo / 2) as u64, short: (lo - lo / 2) as u64 };
                            m.oi[1] = VPool { long: (so / 3) as u64, short: (so - so / 3) as u64 };
                            m.vi_positions = vi.map(|(l, s)| VPool { long: l, short: s });
                            let mut pos = VPos { is_long, is_collateral_long: true, ..Default::default() };
                            let ops = VPosOps { market: &mut m, pos: &mut pos };
                            let got = ops.position_price_impact(&size, true);
                            let got_real = ops.position_price_impact(&size, false);
                            sink.case(got.is_ok());
                            let rp = || json!({"fn": "position_impact", "lo": lo, "so": so, "vi": vi, "is_long": is_long, "size": size, "p": p, "n": n});
                            let (dl, ds) = if is_long { (size as i128, 0) } else { (0, size as i128) };
                            let (Some(l1), Some(s1)) = (lo.checked_add_signed(dl), so.checked_add_signed(ds)) else {
                                if got.is_ok() {
                                    sink.fail_with("C03/position_impact/accepted_underflow", || ("open interest would go negative".into(), rp()));
                                }
                                continue;
                            };
                            let real = ref_impact(lo, so, l1, s1, p as u128, n as u128, 2, 100);
                            let virt = vi.and_then(|(vl, vs)| {
                                // the code nets the virtual pool, then offsets both sides by |size| for decreases
                                let net = (vl.min(vs)) as u128;
                                let (mut a, mut b) = (vl as u128 - net, vs as u128 - net);
                                if size < 0 {
                                    a += size.unsigned_abs() as u128;
                                    b += size.unsigned_abs() as u128;
                                }
                                let (Some(a1), Some(b1)) = (a.checked_add_signed(dl), b.checked_add_signed(ds)) else { return None };
                                ref_impact(a, b, a1, b1, p as u128, n as u128, 2, 100)
                            });
                            let Some((rv, rbc, rsame)) = real else { continue };
                            if let Ok(g) = &got_real {
                                if g.value as i128 != rv {
                                    sink.count("obs:value_differs_from_gmx_formula");
                                }
                                match rbc {
                                    Bc::Worsened if g.value > 0 => sink.fail_with("C03/sign/worsened_positive", || (format!("position impact +{} on a worsening change", g.value), rp())),
                                    Bc::Improved if g.value < 0 && rsame => sink.fail_with("C03/sign/improved_negative_same_side", || (format!("position impact {} on an improving change", g.value), rp())),
                                    Bc::Improved if g.value < 0 => sink.fail_with("C03/sign/improved_negative_cross_over", || (format!("position impact {} on a cross-over change classified Improved", g.value), rp())),
                                    _ => {}
                                }
                            }
                            let want = if rv >= 0 { Some(rv) } else { match (vi, virt) { (None, _) => Some(rv), (Some(_), Some((vv, _, _))) => Some(vv.min(rv)), (Some(_), None) => None } };
                            match (&got, want) {
                                (Ok(g), Some(w)) if g.value as i128 == w => sink.count(if w != rv { "virtual_binds" } else { "real_binds" }),
                                (Err(_), None) => {}
                                (Err(_), Some(_)) if vi.is_some() && rv < 0 => { /* virtual branch may fail on its own arithmetic */ }
                                _ => sink.count("obs:virtual_inventory_choice_differs"),
                            }
                            if let Ok(g) = &got {
                                match rbc {
                                    Bc::Worsened if g.value > 0 => sink.fail_with("C03/sign/worsened_positive", || (format!("position impact +{} on a worsening change (virtual inventory {vi:?})", g.value), rp())),
                                    Bc::Improved if g.value < 0 && rv >= 0 => sink.fail_with("C03/sign/improved_negative_same_side", || (format!("position impact {} on an improving change whose real impact is {rv}", g.value), rp())),
                                    _ => {}
                                }
                            }
                        }
                    }
                }
            }
        }
    });
}

pub fn run(cli: &Cli) -> Report {
    let mut rep = Report::new(cli, "exploration");
    rep.rule("E1: product of pool USD values (long, short), signed deltas on both sides, (positive, negative) impact factors incl. positive > negative, whole-unit exponents; each case evaluates the forward change and its exact reverse on the real PoolDelta::price_impact and compares with an independent reference of the GMX formula; plus swap/position impact with virtual inventories; non-trivial = the computation succeeded");
    rep.assume("exponents are whole units (non-integer exponents are documented as inconsistent)");
    if let Some(rv) = &cli.replay {
        replay(&mut rep, rv, cli);
        return rep;
    }
    let t = cli.tier;
    // tiny scale: UNIT = 100 ($1.00); sides up to ~$10-100 so that squares are visible
    let mut sides: Vec<u128> = (0..=t.pick(12u128, 24)).map(|k| k * 70).collect();
    sides.extend([99, 100, 101, 909, 910, 5_000, 10_000]);
    sides.extend(cli.extras(5, 2, 100, 20_000));
    let sides = alpha::dedup(&sides);
    let mut deltas: Vec<i128> = vec![];
    for k in 1..=t.pick(5i128, 9) {
        deltas.extend([k * 70, -k * 70]);
    }
    deltas.extend([0, 1, -1, 9_500, -9_500]);
    let factors: Vec<u128> = t.pick(vec![0, 1, 10, 12, 50, 100], vec![0, 1, 5, 10, 12, 20, 50, 100]);
    run_u64_d2(&mut rep, "price_impact u64/D2", &sides, &deltas, &factors, &t.pick(vec![1, 2], vec![1, 2, 3]));
    // production scale
    const U: u128 = 10u128.pow(20);
    let sides128: Vec<u128> = vec![0, U - 1, U, 3 * U, 10 * U + 7, 1_000 * U, 1_000_000 * U + 1, 50_000_000 * U];
    let mut deltas128: Vec<i128> = vec![0];
    for d in [1u128, U, 2 * U + 3, 999 * U, 1_000_000 * U] {
        deltas128.extend([d as i128, -(d as i128)]);
    }
    let f128: Vec<u128> = vec![0, 1, U / 1_000_000_000, 2 * U / 1_000_000_000, U / 1_000, U];
    run_u128_d20(&mut rep, "price_impact u128/D20", &sides128, &deltas128, &f128, &[1, 2]);
    virtual_inventory_swaps(&mut rep, cli);
    position_impact(&mut rep, cli);
    rep
}

fn replay(rep: &mut Report, rv: &Value, cli: &Cli) {
    let g = |k: &str| rv[k].as_str().and_then(|s| s.parse::<i128>().ok()).unwrap_or(0);
    for _ in 0..2 {
        match rv["fn"].as_str() {
            Some("vi_swaps") => virtual_inventory_swaps(rep, cli),
            Some("position_impact") => position_impact(rep, cli),
            _ => {
                e1::run(rep, "replay", &[0u8], |_, sink| {
                    let e = rv["e"].as_u64().unwrap_or(1) as u32;
                    if rv["T"].as_str() == Some("u128") {
                        one_u128_d20(sink, g("l0") as u128, g("s0") as u128, g("dl"), g("ds"), g("p") as u128, g("n") as u128, e);
                    } else {
                        one_u64_d2(sink, g("l0") as u128, g("s0") as u128, g("dl"), g("ds"), g("p") as u128, g("n") as u128, e);
                    }
                });
            }
        }
    }
}
